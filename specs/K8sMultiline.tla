---------------------------- MODULE K8sMultiline ----------------------------
(* C15 -- reassembly of the partial chunks of one container log line by the k8s input's multi-line
   action (plugin/input/k8s/multiline_action.go: MultilineAction.Do / resetLogBuf), transcribed
   branch by branch, together with the DECLARATIVE statement: the stream's fragments are split
   uniquely into maximal runs (partial chunks followed by the final chunk, the one that ends with a
   newline); a run is also closed by a stream time-out; every closed run is replaced by ONE event whose
   log field is the in-order concatenation of the run (up to max_event_size; a line may additionally be
   cut into several events at split_event_size).

   A fragment is [k, fin]: k = "e" (empty), "o" (one character), "l" (long, 4 characters), and three
   escape-relevant endings: "b" (a character and a literal backslash, escaped x\\ = 3 bytes), "n" (a character,
   a literal backslash and the letter n, escaped x\\n = 4 bytes -- NOT a line end), "q" (a character and a
   quote, escaped x\" = 3 bytes).  fin = TRUE means the DECODED text ends with a real newline (the final
   chunk of the line); it adds the escaped newline (2 bytes).  Sizes are counted on the ESCAPED content, as the
   code does (it concatenates escaped strings).  The code's eventBuf starts with the opening quote
   (length 1); a fragment rendered by AppendEscapedString has its content plus 2 quotes.
   event.Size of a fragment is ELen + 1 here (the harness sets event.Size accordingly); SP is
   split_event_size minus predictionLookahead (0 = never split).

   Named deviations (TRUE = what the code does):
     D16_TimeoutDropsPartials, D20_BackslashNIsEnd (below).
   Repaired deviations, kept as spec mutants (FALSE = the code since the fix; TRUE = the old behaviour, which
   TLC must reject: K8sMultiline_mutD12.cfg violates NoPanic, K8sMultiline_mutD17.cfg violates ResidualOK):
     D12_EmptyLogPanics          : "log":"" -- logFragment[len-3:len-1] with len = 2 is out of range.
                                   Repaired by 850331b ("logFragmentLen >= 4 &&": an empty fragment is a partial chunk).
     D16_TimeoutDropsPartials    : on a stream time-out the buffered chunks are thrown away (resetLogBuf,
                                   ActionDiscard; see the todo in the code) instead of being flushed.
     D17_SkipSurvivesTimeout     : resetLogBuf does not clear skipNextEvent, so after a time-out inside an
                                   oversize line the NEXT line is discarded (or cut) as well.
                                   Repaired by e8faead (the time-out branch sets skipNextEvent = false).
     D20_BackslashNIsEnd         : the end-of-line test looks at the last two ESCAPED bytes; a partial chunk whose
                                   text ends with a literal backslash followed by the letter n (escaped \\n)
                                   is taken for the final chunk, so the line is cut in two events there. *)
EXTENDS Integers, Sequences, FiniteSets, TLC, Json

CONSTANTS MaxLen,          \* maximal number of fragments
          Ls,              \* candidate max_event_size values (0 = unlimited, otherwise >= 4)
          SPs,             \* candidate split thresholds (0 = never split); only combined with L = 0
          MaxExotic,       \* at most that many fragments with an escape-relevant ending (b, n, q) per case
          D12_EmptyLogPanics, D16_TimeoutDropsPartials, D17_SkipSurvivesTimeout, D20_BackslashNIsEnd

ASSUME \A L \in Ls : L = 0 \/ L >= 4     \* below that the cut-off slice itself is out of range; the pipeline
                                          \* never lets an event larger than max_event_size in anyway

VARIABLES cs,              \* the case: [seq, L, cut, SP]
          i, to,           \* fragments consumed; history: time-out positions
          eventBuf, eventSize, skipNext, cutOff,     \* MultilineAction fields (eventBuf as parts [id, take])
          blocked,         \* last result was ActionCollapse: the processor is parked in blockGet
          out,             \* history: events passed on  <<[c, parts]>>  (c = carrier, the event that was passed)
          dev, pc          \* deviations exercised; run | done | panic

vars == <<cs, i, to, eventBuf, eventSize, skipNext, cutOff, blocked, out, dev, pc>>

Kinds == {"e", "o", "l", "b", "n", "q"}
Exotic == {"b", "n", "q"}
CLen(k) == CASE k = "e" -> 0 [] k = "o" -> 1 [] k = "l" -> 4 [] k = "b" -> 3 [] k = "n" -> 4 [] k = "q" -> 3
ELen(f) == CLen(f.k) + (IF f.fin THEN 2 ELSE 0)
Size(f) == ELen(f) + 1
Frags == [k : Kinds, fin : BOOLEAN]
NL == [id |-> 0, take |-> 2]             \* the escaped newline appended after a cut-off

RECURSIVE SumTake(_)
SumTake(ps) == IF ps = <<>> THEN 0 ELSE Head(ps).take + SumTake(Tail(ps))
BufLen(b) == 1 + SumTake(b)              \* len(p.eventBuf)

-----------------------------------------------------------------------------
(* ---------------- the declarative statement ---------------- *)

\* content as a sequence of (fragment id, byte index) pairs, so that "in-order concatenation" is checkable
BytesOf(id, n) == [x \in 1..n |-> <<id, x>>]
RECURSIVE PartsBytes(_)
PartsBytes(ps) == IF ps = <<>> THEN <<>> ELSE BytesOf(Head(ps).id, Head(ps).take) \o PartsBytes(Tail(ps))
RECURSIVE FullBytes(_, _, _)
FullBytes(seq, a, b) == IF a > b THEN <<>> ELSE BytesOf(a, ELen(seq[a])) \o FullBytes(seq, a + 1, b)
IsPrefix(s, t) == Len(s) <= Len(t) /\ SubSeq(t, 1, Len(s)) = s

EndAt(seq, T, k) == seq[k].fin \/ k \in T
RunStart(seq, T, a) == a = 1 \/ EndAt(seq, T, a - 1)
\* the runs of seq: [a, b, by]; the last one may still be open ("pending")
RunOf(seq, T, a) ==
  LET E == {b \in a..Len(seq) : EndAt(seq, T, b)}
  IN IF E = {} THEN [a |-> a, b |-> Len(seq), by |-> "pending"]
     ELSE LET b == CHOOSE x \in E : \A y \in E : x <= y
          IN [a |-> a, b |-> b, by |-> IF seq[b].fin THEN "fin" ELSE "to"]
RECURSIVE RunsFrom(_, _, _)
RunsFrom(seq, T, a) ==
  IF a > Len(seq) THEN <<>>
  ELSE LET r == RunOf(seq, T, a) IN <<r>> \o RunsFrom(seq, T, r.b + 1)
Runs(seq, T) == RunsFrom(seq, T, 1)

\* the events passed on whose carrier lies in run r, in order
OutsOf(o, r) == SelectSeq(o, LAMBDA x : r.a <= x.c /\ x.c <= r.b)
RECURSIVE AllBytes(_)
AllBytes(os) == IF os = <<>> THEN <<>> ELSE PartsBytes(Head(os).parts) \o AllBytes(Tail(os))

WholeFragments(item) == \A n \in 1..Len(item.parts) : item.parts[n].id # 0 /\
                           item.parts[n].take = ELen(cs.seq[item.parts[n].id])
RECURSIVE SumSize(_, _)
SumSize(lo, hi) == IF lo > hi THEN 0 ELSE Size(cs.seq[lo]) + SumSize(lo + 1, hi)
\* the n-th event of run r covers the fragments after the previous one up to its carrier; a cut there is
\* justified only if those fragments really exceed split_event_size
Justified(os, n, r) == LET lo == IF n = 1 THEN r.a ELSE os[n - 1].c + 1
                       IN cs.SP # 0 /\ SumSize(lo, os[n].c) > cs.SP

\* relaxTO: D16 is being exercised -- a run closed by a time-out may be missing
RunOK(seq, r, os, relaxTO) ==
  LET F == FullBytes(seq, r.a, r.b)
      B == AllBytes(os)
      L == cs.L
  IN IF cs.SP # 0
       THEN \* a line may be cut into several events, each a justified block of whole fragments, nothing lost
            /\ \A n \in 1..Len(os) : WholeFragments(os[n])
            /\ \A n \in 1..Len(os) : (n < Len(os) \/ r.by = "pending") => Justified(os, n, r)
            /\ IF r.by = "fin" \/ (r.by = "to" /\ ~relaxTO) THEN B = F ELSE IsPrefix(B, F)
       ELSE IF r.by = "pending" THEN os = <<>>
            ELSE IF L = 0 \/ 3 + Len(F) < L
              THEN \* below the limit: exactly the concatenation
                   \/ (Len(os) = 1 /\ B = F)
                   \/ (r.by = "to" /\ (relaxTO \/ F = <<>>) /\ os = <<>>)   \* nothing buffered: nothing to flush
              ELSE \* at or over the limit: dropped (only without cut-off), complete, or a prefix that keeps
                   \* everything below the limit, optionally terminated by the newline
                   \/ (os = <<>> /\ (~cs.cut \/ (r.by = "to" /\ relaxTO)))
                   \/ /\ Len(os) = 1
                      /\ \/ B = F
                         \/ \E n \in 0..Len(F) :
                              /\ n >= L - 5
                              /\ (B = SubSeq(F, 1, n) \/ B = SubSeq(F, 1, n) \o BytesOf(0, 2))

Increasing(o) == \A n \in 1..(Len(o) - 1) : o[n].c < o[n + 1].c
AllRunsOK(seq, T, o, relaxTO) ==
  /\ Increasing(o)
  /\ LET rs == Runs(seq, T) IN \A n \in 1..Len(rs) : RunOK(seq, rs[n], OutsOf(o, rs[n]), relaxTO)

-----------------------------------------------------------------------------
(* ---------------- the transcription ---------------- *)

SeqsOver(S, n) == UNION {[1..m -> S] : m \in 0..n}

Init ==
  /\ \E seq \in SeqsOver(Frags, MaxLen) : \E L \in Ls : \E SP \in SPs :
       \E cut \in (IF L = 0 THEN {FALSE} ELSE BOOLEAN) :
         /\ SP # 0 => L = 0
         /\ Cardinality({k \in 1..Len(seq) : seq[k].k \in Exotic}) <= MaxExotic
         /\ cs = [seq |-> seq, L |-> L, cut |-> cut, SP |-> SP]
  /\ i = 0 /\ to = {}
  /\ eventBuf = <<>> /\ eventSize = 0 /\ skipNext = FALSE /\ cutOff = FALSE
  /\ blocked = FALSE /\ out = <<>> /\ dev = {} /\ pc = "run"

CanStep == pc = "run" /\ i < Len(cs.seq)
F0 == cs.seq[i + 1]
K == i + 1
Size1 == eventSize + Size(F0)                                  \* p.eventSize += event.Size
ShouldSplit == cs.SP # 0 /\ Size1 > cs.SP                      \* predictedLen > SplitEventSize
\* "logFragment[len-3:len-1] == `\n`": the last two escaped bytes; true for every final chunk, and (D20) for a
\* partial chunk that ends with an escaped backslash followed by the letter n
IsEnd == F0.fin \/ (D20_BackslashNIsEnd /\ F0.k = "n")
DevStep == dev' = dev \cup (IF D20_BackslashNIsEnd /\ F0.k = "n" /\ ~F0.fin THEN {"D20"} ELSE {})
Panics == D12_EmptyLogPanics /\ F0.k = "e" /\ ~F0.fin          \* logFragment = `""`: [-1:1]

\* resetLogBuf(): eventBuf = eventBuf[:1]; eventSize = 0; cutOffEvent = false   (NOT skipNextEvent)
Reset == eventBuf' = <<>> /\ eventSize' = 0 /\ cutOff' = FALSE

DoPanic ==
  /\ CanStep /\ Panics
  /\ pc' = "panic" /\ dev' = dev \cup {"D12"} /\ i' = i + 1
  /\ UNCHANGED <<cs, to, eventBuf, eventSize, skipNext, cutOff, blocked, out>>

(* "if !isEnd && !shouldSplit": accumulate, or start skipping / cut off at max_event_size; ActionCollapse *)
DoPartial ==
  /\ CanStep /\ ~Panics /\ ~IsEnd /\ ~ShouldSplit
  /\ LET sizeAfter == BufLen(eventBuf) + ELen(F0) + 2 IN
       IF cs.L = 0 \/ sizeAfter < cs.L
         THEN /\ eventBuf' = Append(eventBuf, [id |-> K, take |-> ELen(F0)])
              /\ UNCHANGED <<skipNext, cutOff>>
         ELSE IF ~skipNext
           THEN /\ skipNext' = TRUE
                /\ IF cs.cut
                     THEN /\ eventBuf' = Append(eventBuf, [id |-> K, take |-> ELen(F0) - (sizeAfter - cs.L)])
                          /\ cutOff' = TRUE
                     ELSE UNCHANGED <<eventBuf, cutOff>>
           ELSE UNCHANGED <<eventBuf, skipNext, cutOff>>
  /\ eventSize' = Size1 /\ blocked' = TRUE /\ i' = i + 1
  /\ UNCHANGED <<cs, to, out, dev, pc>>

(* "if p.skipNextEvent { if !isEnd return ActionCollapse": wait for the end of the oversize line *)
DoSkipWait ==
  /\ CanStep /\ ~Panics /\ (IsEnd \/ ShouldSplit) /\ skipNext /\ ~IsEnd
  /\ eventSize' = Size1 /\ blocked' = TRUE /\ i' = i + 1
  /\ UNCHANGED <<cs, to, eventBuf, skipNext, cutOff, out, dev, pc>>

(* end of an oversize line that is not cut off: resetLogBuf, ActionDiscard *)
DoSkipEnd ==
  /\ CanStep /\ ~Panics /\ IsEnd /\ skipNext /\ ~cutOff
  /\ skipNext' = FALSE /\ Reset /\ blocked' = FALSE /\ i' = i + 1
  /\ DevStep
  /\ UNCHANGED <<cs, to, out, pc>>

(* final chunk (or forced split): put the accumulated text into this event's log, ActionPass *)
DoEmit ==
  /\ CanStep /\ ~Panics /\ (IsEnd \/ ShouldSplit) /\ (~skipNext \/ (IsEnd /\ cutOff))
  /\ skipNext' = FALSE
  /\ IF BufLen(eventBuf) > 1
       THEN LET nb == IF ~cutOff THEN Append(eventBuf, [id |-> K, take |-> ELen(F0)])
                      ELSE IF IsEnd THEN Append(eventBuf, NL) ELSE eventBuf
            IN out' = Append(out, [c |-> K, parts |-> nb])
       ELSE out' = Append(out, [c |-> K, parts |-> <<[id |-> K, take |-> ELen(F0)]>>])   \* log left as it is
  /\ Reset /\ blocked' = FALSE /\ i' = i + 1
  /\ DevStep
  /\ UNCHANGED <<cs, to, pc>>

(* stream time-out while waiting for the next chunk *)
Timeout ==
  /\ pc = "run" /\ blocked /\ i \notin to
  /\ to' = to \cup {i}
  /\ IF D16_TimeoutDropsPartials
       THEN out' = out
       ELSE out' = IF BufLen(eventBuf) > 1 /\ ~(skipNext /\ ~cutOff)     \* ideal: flush like a final chunk would
                       THEN Append(out, [c |-> i, parts |-> eventBuf]) ELSE out
  /\ Reset
  /\ skipNext' = IF D17_SkipSurvivesTimeout THEN skipNext ELSE FALSE
  /\ dev' = dev \cup (IF D16_TimeoutDropsPartials THEN {"D16"} ELSE {})
                \cup (IF D17_SkipSurvivesTimeout /\ skipNext THEN {"D17"} ELSE {})
  /\ blocked' = FALSE
  /\ UNCHANGED <<cs, i, pc>>

Finish ==
  /\ pc = "run" /\ i = Len(cs.seq)
  /\ pc' = "done"
  /\ UNCHANGED <<cs, i, to, eventBuf, eventSize, skipNext, cutOff, blocked, out, dev>>

Next == DoPanic \/ DoPartial \/ DoSkipWait \/ DoSkipEnd \/ DoEmit \/ Timeout \/ Finish
Spec == Init /\ [][Next]_vars

-----------------------------------------------------------------------------
(* ---------------- properties of the transcription ---------------- *)
TypeOK == /\ pc \in {"run", "done", "panic"} /\ i \in 0..Len(cs.seq) /\ to \subseteq 0..Len(cs.seq)
          /\ dev \subseteq {"D12", "D16", "D17", "D20"}

\* the slices taken by the code stay in range (apart from D12)
CutInRange == \A n \in 1..Len(eventBuf) : eventBuf[n].take >= 0
BufBounded == cs.L # 0 => BufLen(eventBuf) <= cs.L
TimeoutOnlyWhileCollapsed == blocked => i > 0

Consumed == SubSeq(cs.seq, 1, i)

\* C15 at every step (no deviation exercised)
StatementOK == dev = {} => AllRunsOK(Consumed, to, out, FALSE)
\* with D16 exercised: everything except the runs closed by a time-out (a stale skip flag, D17, is NOT excused)
ResidualOK == (dev \subseteq {"D16", "D17"}) => AllRunsOK(Consumed, to, out, TRUE)
\* Do never panics (D12 repaired)
NoPanic == pc # "panic"

DevSwitched == /\ ("D12" \in dev => D12_EmptyLogPanics) /\ ("D16" \in dev => D16_TimeoutDropsPartials)
               /\ ("D17" \in dev => D17_SkipSurvivesTimeout) /\ ("D20" \in dev => D20_BackslashNIsEnd)

-----------------------------------------------------------------------------
(* export *)
ExportRec ==
  LET rs == Runs(cs.seq, to)
  IN [seq |-> [n \in 1..Len(cs.seq) |-> [k |-> cs.seq[n].k, f |-> cs.seq[n].fin]],
      L |-> cs.L, cut |-> cs.cut, SP |-> cs.SP, to |-> to, dev |-> dev,
      panics |-> (pc = "panic"), at |-> i,
      exp |-> [n \in 1..Len(rs) |-> [a |-> rs[n].a, b |-> rs[n].b, by |-> rs[n].by]],
      model |-> [n \in 1..Len(out) |->
                   [c |-> out[n].c,
                    parts |-> [m \in 1..Len(out[n].parts) |-> <<out[n].parts[m].id, out[n].parts[m].take>>]]]]

Export == pc \in {"done", "panic"} => PrintT(ToJson(ExportRec))

=============================================================================
