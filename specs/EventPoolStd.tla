----------------------------- MODULE EventPoolStd -----------------------------
(* C04 / C05 -- eventPool (pipeline/event.go), the standard ring pool, at the granularity of its atomics.

     get:   x := (getCounter.Inc()-1) % capacity                       -- ticket
            loop: if free1[x].CAS(true,false) break                    -- (3 tries, Gosched, ...)
                  after 3 failed rounds: slowWaiters.Inc(); getMu.Lock(); getCond.Wait(); getMu.Unlock(); slowWaiters.Dec()
            event := events[x]; events[x] = nil; free2[x].Store(false); inUse.Inc()
     back:  x := (backCounter.Inc()-1) % capacity
            loop until free2[x].CAS(false,true)                         -- spins / sleeps 5 ms, never waits on the cond
            events[x] = event; free1[x].Store(true); inUse.Dec(); getCond.Broadcast()     -- no lock held
     heartbeat: if slowWaiters > 0 && inUse < capacity { Broadcast() }

   The wait has NO predicate re-check under the lock, so a Broadcast between the last failed CAS and the
   registration on the notify list is lost; the heartbeat rescues it (its condition is the right one here).
   How many failed rounds precede the wait does not matter for the protocol: a failed CAS is followed by
   either another try or the slow path (nondeterministic choice covers every count).                    *)
EXTENDS Integers, FiniteSets, Sequences, TLC

CONSTANTS Capacity, Getters, Rounds, HasHeartbeat

Slots == 0..(Capacity - 1)
VARIABLES getCtr, backCtr, free1, free2, ev, inUse, waiters, lock, wset, pc, slot, left, obj
vars == <<getCtr, backCtr, free1, free2, ev, inUse, waiters, lock, wset, pc, slot, left, obj>>
\* ev[x]  : the event object stored in slot x (0 = nil); objects are numbered 1..Capacity
\* obj[g] : the object getter g currently owns (0 = none)

Init == /\ getCtr = 0 /\ backCtr = Capacity
        /\ free1 = [x \in Slots |-> TRUE] /\ free2 = [x \in Slots |-> TRUE]
        /\ ev = [x \in Slots |-> x + 1]
        /\ inUse = 0 /\ waiters = 0 /\ lock = "none" /\ wset = {}
        /\ pc = [g \in Getters |-> "idle"] /\ slot = [g \in Getters |-> 0]
        /\ left = [g \in Getters |-> Rounds] /\ obj = [g \in Getters |-> 0]

Ticket(g) == /\ pc[g] = "idle" /\ left[g] > 0
             /\ slot' = [slot EXCEPT ![g] = getCtr % Capacity] /\ getCtr' = getCtr + 1
             /\ pc' = [pc EXCEPT ![g] = "try"]
             /\ UNCHANGED <<backCtr, free1, free2, ev, inUse, waiters, lock, wset, left, obj>>

\* free1[x].CAS(true,false)
Try(g) == /\ pc[g] = "try"
          /\ IF free1[slot[g]]
               THEN /\ free1' = [free1 EXCEPT ![slot[g]] = FALSE] /\ pc' = [pc EXCEPT ![g] = "take"]
               ELSE /\ UNCHANGED free1 /\ \E nxt \in {"try", "winc"} : pc' = [pc EXCEPT ![g] = nxt]
          /\ UNCHANGED <<getCtr, backCtr, free2, ev, inUse, waiters, lock, wset, slot, left, obj>>

WInc(g) == /\ pc[g] = "winc" /\ waiters' = waiters + 1 /\ pc' = [pc EXCEPT ![g] = "lock"]
           /\ UNCHANGED <<getCtr, backCtr, free1, free2, ev, inUse, lock, wset, slot, left, obj>>
Lock(g) == /\ pc[g] = "lock" /\ lock = "none" /\ lock' = g /\ pc' = [pc EXCEPT ![g] = "wait"]
           /\ UNCHANGED <<getCtr, backCtr, free1, free2, ev, inUse, waiters, wset, slot, left, obj>>
Wait(g) == /\ pc[g] = "wait" /\ wset' = wset \cup {g} /\ lock' = "none" /\ pc' = [pc EXCEPT ![g] = "sleep"]
           /\ UNCHANGED <<getCtr, backCtr, free1, free2, ev, inUse, waiters, slot, left, obj>>
Relock(g) == /\ pc[g] = "woken" /\ lock = "none" /\ lock' = g /\ pc' = [pc EXCEPT ![g] = "unlock"]
             /\ UNCHANGED <<getCtr, backCtr, free1, free2, ev, inUse, waiters, wset, slot, left, obj>>
Unlock(g) == /\ pc[g] = "unlock" /\ lock' = "none" /\ waiters' = waiters - 1 /\ pc' = [pc EXCEPT ![g] = "try"]
             /\ UNCHANGED <<getCtr, backCtr, free1, free2, ev, inUse, wset, slot, left, obj>>

\* event := events[x]; events[x] = nil; free2[x].Store(false); inUse.Inc()
Take(g) == /\ pc[g] = "take"
           /\ obj' = [obj EXCEPT ![g] = ev[slot[g]]] /\ ev' = [ev EXCEPT ![slot[g]] = 0]
           /\ pc' = [pc EXCEPT ![g] = "publish"]
           /\ UNCHANGED <<getCtr, backCtr, free1, free2, inUse, waiters, lock, wset, slot, left>>
Publish(g) == /\ pc[g] = "publish"
              /\ free2' = [free2 EXCEPT ![slot[g]] = FALSE] /\ inUse' = inUse + 1
              /\ pc' = [pc EXCEPT ![g] = "hold"]
              /\ UNCHANGED <<getCtr, backCtr, free1, ev, waiters, lock, wset, slot, left, obj>>

\* back(): ticket, CAS free2 false->true, store, publish, broadcast
BackTicket(g) == /\ pc[g] = "hold"
                 /\ slot' = [slot EXCEPT ![g] = backCtr % Capacity] /\ backCtr' = backCtr + 1
                 /\ pc' = [pc EXCEPT ![g] = "bcas"]
                 /\ UNCHANGED <<getCtr, free1, free2, ev, inUse, waiters, lock, wset, left, obj>>
BackCAS(g) == /\ pc[g] = "bcas" /\ ~free2[slot[g]]
              /\ free2' = [free2 EXCEPT ![slot[g]] = TRUE] /\ pc' = [pc EXCEPT ![g] = "bstore"]
              /\ UNCHANGED <<getCtr, backCtr, free1, ev, inUse, waiters, lock, wset, slot, left, obj>>
BackStore(g) == /\ pc[g] = "bstore"
                /\ ev' = [ev EXCEPT ![slot[g]] = obj[g]] /\ obj' = [obj EXCEPT ![g] = 0]
                /\ pc' = [pc EXCEPT ![g] = "bfree"]
                /\ UNCHANGED <<getCtr, backCtr, free1, free2, inUse, waiters, lock, wset, slot, left>>
BackFree(g) == /\ pc[g] = "bfree"
               /\ free1' = [free1 EXCEPT ![slot[g]] = TRUE] /\ inUse' = inUse - 1
               /\ pc' = [pc EXCEPT ![g] = "bcast"]
               /\ UNCHANGED <<getCtr, backCtr, free2, ev, waiters, lock, wset, slot, left, obj>>
WakeAll(p) == [g \in Getters |-> IF g \in wset THEN "woken" ELSE p[g]]
BackBroadcast(g) == /\ pc[g] = "bcast"
                    /\ pc' = [WakeAll(pc) EXCEPT ![g] = IF left[g] > 1 THEN "idle" ELSE "done"]
                    /\ left' = [left EXCEPT ![g] = @ - 1] /\ wset' = {}
                    /\ UNCHANGED <<getCtr, backCtr, free1, free2, ev, inUse, waiters, lock, slot, obj>>

Heartbeat == /\ HasHeartbeat /\ waiters > 0 /\ inUse < Capacity /\ wset # {}
             /\ pc' = WakeAll(pc) /\ wset' = {}
             /\ UNCHANGED <<getCtr, backCtr, free1, free2, ev, inUse, waiters, lock, slot, left, obj>>

GStep(g) == Ticket(g) \/ Try(g) \/ WInc(g) \/ Lock(g) \/ Wait(g) \/ Relock(g) \/ Unlock(g) \/ Take(g) \/ Publish(g)
            \/ BackTicket(g) \/ BackCAS(g) \/ BackStore(g) \/ BackFree(g) \/ BackBroadcast(g)
Next == (\E g \in Getters : GStep(g)) \/ Heartbeat
Spec == Init /\ [][Next]_vars
\* a getter may spin forever on a failed CAS only if it never chooses the slow path: strong fairness on progress steps
FairSpec == Spec /\ \A g \in Getters : SF_vars(GStep(g) /\ pc'[g] # pc[g]) /\ WF_vars(Heartbeat)

-----------------------------------------------------------------------------
Owners(o) == {g \in Getters : obj[g] = o}
\* C05: an event object is never owned by two holders, and never both owned and stored in the ring
SingleOwner == \A o \in 1..Capacity : Cardinality(Owners(o)) + Cardinality({x \in Slots : ev[x] = o}) <= 1
NoNilHandout == \A g \in Getters : pc[g] \in {"publish", "hold", "bcas", "bstore"} => obj[g] # 0
Bounded == Cardinality({g \in Getters : obj[g] # 0}) <= Capacity /\ inUse \in 0..Capacity
Wedged == /\ wset # {}
          /\ \A g \in Getters : pc[g] \in {"sleep", "done"} \/ (pc[g] = "idle" /\ left[g] = 0)
          /\ ~(HasHeartbeat /\ waiters > 0 /\ inUse < Capacity)
NoWedge == ~Wedged
AllDone == <>(\A g \in Getters : pc[g] = "done")
ZeroAtEnd == (\A g \in Getters : pc[g] = "done") => inUse = 0 /\ waiters = 0 /\ \A x \in Slots : free1[x] /\ free2[x] /\ ev[x] # 0
=============================================================================
