--------------------------- MODULE OffsetsFileTrace ---------------------------
(* C07, binding direction T: system-call traces of the REAL offsetDB.save / offset.Save (recorded with
   strace, optionally with injected failures) are replayed through the file-system model and the save
   protocol actions of OffsetsFile.tla.

   Input: an ndjson file, one object per observed event on the offsets paths, many traces concatenated:
     {tr, k, op, name, name2, fd, ok, trunc, app, w, n}
       op = reset                         a new trace starts: "cur" is a good durable file (write id 0)
            begin | end                   window of one save / commit call (harness markers)
            open | write | fsync | rename | unlink | close        the system call and its outcome
       name/name2 = "cur" | "t1".."t8" (temp files, numbered by first appearance), w = id of the bytes
       a successful write put into the file (the bytes themselves stay with the driver), n = their number
       (for reset: the size of the initial file), trunc / app = O_TRUNC / O_APPEND of an open.
   File content is a sequence of SEGMENTS <<w, a, b>> = bytes a..b of write w; sizes, positions and keep are
   in bytes (CLen <- SegLen).  A write lands at the descriptor's position and OVERWRITES what is there
   (a file opened without O_TRUNC keeps its old tail behind a shorter new content).

   For every event the module
     (a) applies the system call's effect to the file-system model (always possible);
     (b) lets the protocol automaton of OffsetsFile (P-actions, mutant switches off = the code as it
         is) take the corresponding step; an event the automaton cannot take is
         recorded in `drifts` (the real code no longer follows the modelled protocol), the automaton
         re-synchronises at the next `begin`;
     (c) evaluates the protocol-level properties on the observed history, independently of (b), and
         accumulates violation records in `viols`:
           FailedStepKeepsOld    a successful rename onto "cur" in a window in which an open / write /
                                 fsync had failed                      -> kind rename_after_failed_step
                                 a write / fsync that FAILS on a descriptor whose file has already been renamed
                                 onto "cur" in this save (steps out of order: rename, then fsync): the
                                 unsuccessful save has replaced the good file      -> kind replaced_then_step_failed
           DurableBeforeReplace  a successful rename onto "cur" of an inode whose complete content is
                                 not known durable (no successful fsync after the last write), and not
                                 because the fsync failed                -> kind no_fsync_before_rename
     (d) exports (ExportStep), after every event, the live view of "cur" and every inode "cur" may
         refer to after a crash at that instant, with vol / base / keep and the taint a bad rename put
         on the inode.  The driver materialises every content these descriptors allow (all byte
         prefixes) and runs the real load() on each: AlwaysLoadable / NeverAhead are decided there.   *)
EXTENDS OffsetsFile

CONSTANT TraceFile
Trace == ndJsonDeserialize(TraceFile)

VARIABLES l,        \* next trace line
          fds,      \* descriptor number -> inode (0 = not one of ours)
          pos,      \* descriptor number -> file position;  app: descriptor opened with O_APPEND
          app,
          wfail,    \* open/write/sync failures observed in the current window
          taint,    \* inode -> set of tags put on it by a bad rename onto "cur"
          lost,     \* protocol automaton out of sync until the next begin
          viols, drifts

tvars == <<l, fds, pos, app, wfail, taint, lost, viols, drifts>>
FdNums == 0..255

(* segment arithmetic *)
SegLen1(sg) == sg[3] - sg[2] + 1
RECURSIVE SegLen(_), SegTake(_, _), SegDrop(_, _)
SegLen(c) == IF c = <<>> THEN 0 ELSE SegLen1(Head(c)) + SegLen(Tail(c))
SegTake(c, k) == IF k <= 0 \/ c = <<>> THEN <<>>
                 ELSE LET h == Head(c) IN
                      IF SegLen1(h) <= k THEN <<h>> \o SegTake(Tail(c), k - SegLen1(h)) ELSE << <<h[1], h[2], h[2] + k - 1>> >>
SegDrop(c, k) == IF c = <<>> THEN <<>> ELSE IF k <= 0 THEN c
                 ELSE LET h == Head(c) IN
                      IF SegLen1(h) <= k THEN SegDrop(Tail(c), k - SegLen1(h)) ELSE << <<h[1], h[2] + k, h[3]>> >> \o Tail(c)
SegOver(c, p, sg) == SegTake(c, p) \o <<sg>> \o SegDrop(c, p + SegLen1(sg))

\* position of a write on descriptor f, and the content it leaves
WPos(e) == IF app[e.fd] THEN SegLen(vol[fds[e.fd]]) ELSE pos[e.fd]
WRes(e) == IF e.ok /\ e.n > 0 THEN SegOver(vol[fds[e.fd]], WPos(e), <<e.w, 1, e.n>>) ELSE vol[fds[e.fd]]
WN(e)   == IF e.ok THEN e.n ELSE 0

Step1(w) == IF "write" \in w THEN "write" ELSE IF "sync" \in w THEN "fsync" ELSE "open"

-----------------------------------------------------------------------------
ResetFsP(e) ==
  /\ dir' = [n \in Names |-> IF n = "cur" THEN 1 ELSE 0]
  /\ curDur' = {1}
  /\ vol'  = [i \in Inodes |-> IF i = 1 THEN << <<0, 1, e.n>> >> ELSE <<>>]
  /\ base' = [i \in Inodes |-> IF i = 1 THEN << <<0, 1, e.n>> >> ELSE <<>>]
  /\ keep' = [i \in Inodes |-> IF i = 1 THEN e.n ELSE 0]
  /\ nextIno' = 2
  /\ pc' = "idle" /\ fd' = 0 /\ fpos' = 0 /\ tmpName' = "t1" /\ idx' = 1 /\ buf' = <<>> /\ failed' = {} /\ bad' = {}
  /\ fds' = [n \in FdNums |-> 0] /\ pos' = [n \in FdNums |-> 0] /\ app' = [n \in FdNums |-> FALSE] /\ wfail' = {} /\ taint' = [i \in Inodes |-> {}] /\ lost' = FALSE
  /\ UNCHANGED <<viols, drifts>>

TInit ==
  /\ dir = [n \in Names |-> IF n = "cur" THEN 1 ELSE 0]
  /\ curDur = {1}
  /\ vol  = [i \in Inodes |-> <<>>]
  /\ base = [i \in Inodes |-> <<>>]
  /\ keep = [i \in Inodes |-> 0]
  /\ nextIno = 2
  /\ pc = "idle" /\ fd = 0 /\ fpos = 0 /\ tmpName = "t1" /\ idx = 1 /\ buf = <<>> /\ failed = {} /\ bad = {}
  /\ jobs = InitVec /\ held = [j \in Jobs |-> {InitVec[j]}]
  /\ ncommits = 0 /\ nsaves = 0 /\ nfaults = 0 /\ sched = <<>> /\ sfail = {} /\ mid = FALSE /\ crashed = FALSE
  /\ l = 1 /\ fds = [n \in FdNums |-> 0] /\ pos = [n \in FdNums |-> 0] /\ app = [n \in FdNums |-> FALSE] /\ wfail = {} /\ taint = [i \in Inodes |-> {}] /\ lost = FALSE
  /\ viols = <<>> /\ drifts = <<>>

-----------------------------------------------------------------------------
(* (a) raw effect of an observed system call on the file-system model *)
RawFs(e) ==
  CASE e.op = "open"   /\ e.ok -> FsOpen(e.name, e.trunc)
    [] e.op = "write"  /\ e.ok /\ fds[e.fd] # 0 -> FsWrite(fds[e.fd], WRes(e), WPos(e))
    [] e.op = "fsync"  /\ e.ok /\ fds[e.fd] # 0 -> FsSync(fds[e.fd])
    [] e.op = "rename" /\ e.ok /\ dir[e.name] # 0 -> FsRename(e.name, e.name2)
    [] e.op = "unlink" /\ e.ok -> FsUnlink(e.name)
    [] OTHER -> UNCHANGED fsvars

(* (b) the protocol automaton *)
ProtoGuard(e) ==
  CASE e.op = "open"   -> pc = "open" /\ e.name # "cur" /\ e.trunc /\ ~e.app
    [] e.op = "write"  -> pc = "write" /\ fds[e.fd] = fd /\ fd # 0
    [] e.op = "fsync"  -> pc = "sync" /\ fds[e.fd] = fd /\ fd # 0
    [] e.op = "rename" -> pc = "rename" /\ e.name = tmpName /\ e.name2 = "cur" /\ dir[e.name] # 0
    [] e.op = "unlink" -> pc = "unlink" /\ e.name = tmpName
    [] e.op = "close"  -> pc = "close" /\ fds[e.fd] = fd /\ fd # 0
    [] OTHER -> FALSE

ProtoStep(e) ==
  CASE e.op = "open"   -> POpen(e.ok, e.name)
    [] e.op = "write"  -> PWrite(e.ok, WRes(e), WN(e))
    [] e.op = "fsync"  -> PSync(e.ok)
    [] e.op = "rename" -> PRename(e.ok)
    [] e.op = "unlink" -> PUnlink(e.ok)
    [] e.op = "close"  -> PClose(e.ok)

DriftRec(e) == [tr |-> e.tr, k |-> e.k, op |-> e.op, ok |-> e.ok, pc |-> pc]

FsProto(e) ==
  IF e.op = "begin" THEN
       /\ UNCHANGED fsvars
       /\ pc' = "open" /\ failed' = {} /\ buf' = <<>> /\ idx' = 1 /\ UNCHANGED <<fd, fpos, tmpName, bad>>
       /\ lost' = FALSE
       /\ drifts' = IF ~lost /\ pc # "idle" THEN Append(drifts, DriftRec(e)) ELSE drifts
  ELSE IF e.op = "end" THEN
       /\ UNCHANGED fsvars
       /\ pc' = "idle" /\ UNCHANGED <<fd, fpos, tmpName, idx, buf, failed, bad>>
       /\ lost' = FALSE
       /\ drifts' = IF ~lost /\ pc \notin {"idle", "open"} THEN Append(drifts, DriftRec(e)) ELSE drifts
  ELSE IF ~lost /\ ProtoGuard(e) THEN
       /\ ProtoStep(e) /\ lost' = FALSE /\ drifts' = drifts
  ELSE /\ RawFs(e) /\ UNCHANGED pvars
       /\ lost' = TRUE
       /\ drifts' = IF lost THEN drifts ELSE Append(drifts, DriftRec(e))

FdsStep(e) ==
  /\ fds' = CASE e.op = "open"  /\ e.ok -> [fds EXCEPT ![e.fd] = OpenTarget(e.name)]
             [] e.op = "close" /\ e.ok -> [fds EXCEPT ![e.fd] = 0]
             [] OTHER -> fds
  /\ pos' = CASE e.op = "open"  /\ e.ok -> [pos EXCEPT ![e.fd] = 0]
             [] e.op = "write" /\ e.ok /\ fds[e.fd] # 0 -> [pos EXCEPT ![e.fd] = WPos(e) + e.n]
             [] OTHER -> pos
  /\ app' = IF e.op = "open" /\ e.ok THEN [app EXCEPT ![e.fd] = e.app] ELSE app

(* (c) property monitors on the observed history *)
Mon(e) ==
  /\ wfail' = CASE e.op = "begin" -> {}
                [] e.op = "open"  /\ ~e.ok -> wfail \cup {"open"}
                [] e.op = "write" /\ ~e.ok -> wfail \cup {"write"}
                [] e.op = "fsync" /\ ~e.ok -> wfail \cup {"sync"}
                [] OTHER -> wfail
  /\ IF e.op = "rename" /\ e.ok /\ e.name2 = "cur" /\ dir[e.name] # 0
       THEN LET i == dir[e.name]
                afterFail == wfail # {}
                noSync == ~Durable(i) /\ "sync" \notin wfail
                r1 == IF afterFail THEN <<[tr |-> e.tr, k |-> e.k, kind |-> "rename_after_failed_step", step |-> Step1(wfail), steps |-> wfail]>> ELSE <<>>
                r2 == IF noSync THEN <<[tr |-> e.tr, k |-> e.k, kind |-> "no_fsync_before_rename", step |-> "none", steps |-> wfail]>> ELSE <<>>
            IN /\ viols' = viols \o r1 \o r2
               /\ taint' = [taint EXCEPT ![i] = @ \cup (IF afterFail THEN {"rename_after_failed_step:" \o Step1(wfail)} ELSE {})
                                                     \cup (IF noSync THEN {"no_fsync_before_rename"} ELSE {})]
     ELSE IF e.op \in {"write", "fsync"} /\ ~e.ok /\ fds[e.fd] # 0 /\ dir["cur"] = fds[e.fd]
       THEN /\ viols' = Append(viols, [tr |-> e.tr, k |-> e.k, kind |-> "replaced_then_step_failed",
                                        step |-> IF e.op = "fsync" THEN "fsync" ELSE "write", steps |-> wfail \cup {IF e.op = "fsync" THEN "sync" ELSE "write"}])
            /\ taint' = [taint EXCEPT ![fds[e.fd]] = @ \cup {"replaced_then_step_failed:" \o e.op}]
     ELSE IF e.op = "open" /\ e.ok /\ e.name = "cur" /\ dir["cur"] # 0
       THEN /\ taint' = [taint EXCEPT ![dir["cur"]] = @ \cup {"in_place"}] /\ viols' = viols
     ELSE UNCHANGED <<taint, viols>>

-----------------------------------------------------------------------------
TSkip ==       \* the per-job snapshot loop makes no system call
  /\ pc = "snap" /\ pc' = "write"
  /\ UNCHANGED <<fd, fpos, tmpName, idx, buf, failed, bad>> /\ UNCHANGED fsvars /\ UNCHANGED evars /\ UNCHANGED tvars

Consume ==
  /\ pc # "snap" /\ l <= Len(Trace)
  /\ LET e == Trace[l] IN
       /\ l' = l + 1
       /\ IF e.op = "reset" THEN ResetFsP(e)
          ELSE FsProto(e) /\ FdsStep(e) /\ Mon(e)
  /\ UNCHANGED evars

TNext == TSkip \/ Consume
TSpec == TInit /\ [][TNext]_<<vars, tvars>>

-----------------------------------------------------------------------------
(* (d) export *)
Cands == (curDur \cup {dir["cur"]}) \ {0}
StepRec == [tr |-> Trace[l - 1].tr, k |-> Trace[l - 1].k, now |-> dir["cur"], cand |-> curDur,
            inodes |-> {[ino |-> i, vol |-> vol[i], base |-> base[i], keep |-> keep[i], taint |-> taint[i]] : i \in Cands}]
ExportStep == (l > 1 /\ pc # "snap") => PrintT(ToJson(StepRec))
ExportEnd  == (l = Len(Trace) + 1 /\ pc # "snap") => PrintT(ToJson([final |-> TRUE, lines |-> Len(Trace), viols |-> viols, drifts |-> drifts]))
=============================================================================
