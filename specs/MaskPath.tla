------------------------------- MODULE MaskPath -------------------------------
(* C17, field paths of the process / ignore lists of the mask action
   (plugin/action/mask/field_masks_node.go addFieldsToTree, mask.go traverseTree).

   The property (as cfg.ParseNestedFields / the README describe a path): one path element addresses the member
   of an OBJECT with that key and the element of an ARRAY at that index -- also when the element consists of
   digits only: `sessions.42` means element 42 of the array `sessions` and member "42" of the object `sessions`.

   The mechanism in the code (M_NumericKeyAddressesObjectMember): the field tree keys its children by the
   element TEXT; object members are looked up by their key, array elements by the decimal text of their index.
   The mutant (M_NumericKeyAddressesObjectMember = FALSE): all-digit elements are filed under a separate
   integer-keyed map that only the array branch of the traversal consults, object members are still looked up
   among the text-keyed children only -- a numeric element silently stops addressing object members.
   TLC must ACCEPT the mechanism and REJECT the mutant.

   One level of the tree is modelled: a list of path elements, one JSON container (an object with some keys or
   an array of some length); for every member of the container the lookup of the code is compared with the
   declarative one.                                                                                        *)
EXTENDS Integers, Sequences, FiniteSets, TLC

CONSTANTS Elems,                               \* path elements that may be listed, e.g. {"0", "1", "x"}
          Digits,                              \* those of them that are all digits (canonical decimal numbers)
          MaxArr,                              \* arrays of length 0 .. MaxArr
          M_NumericKeyAddressesObjectMember    \* TRUE = the code; FALSE = the mutant

IndexText(i) == CASE i = 0 -> "0" [] i = 1 -> "1" [] i = 2 -> "2" [] OTHER -> "big"

VARIABLES listed,       \* the listed elements
          node,         \* the container: [kind |-> "object", keys |-> subset of Elems] or [kind |-> "array", n |-> length]
          children,     \* field tree: text-keyed children
          elems,        \* field tree of the mutant: integer-keyed children (as their decimal text)
          built
vars == <<listed, node, children, elems, built>>

Init ==
  /\ listed \in SUBSET Elems
  /\ node \in {[kind |-> "object", keys |-> k, n |-> 0] : k \in SUBSET Elems}
         \cup {[kind |-> "array", keys |-> {}, n |-> n] : n \in 0..MaxArr}
  /\ children = {} /\ elems = {} /\ built = FALSE

(* addFieldsToTree *)
Build ==
  /\ ~built
  /\ IF M_NumericKeyAddressesObjectMember
       THEN children' = listed /\ elems' = {}
       ELSE children' = listed \ Digits /\ elems' = listed \cap Digits
  /\ built' = TRUE
  /\ UNCHANGED <<listed, node>>

Next == Build
Spec == Init /\ [][Next]_vars

\* the members of the container, by the text that addresses them
Members == IF node.kind = "object" THEN node.keys ELSE {IndexText(i) : i \in 0..(node.n - 1)}
\* traverseTree: is the member found in the field tree?
FoundCoded(m) ==
  IF node.kind = "object" THEN m \in children
  ELSE IF M_NumericKeyAddressesObjectMember THEN m \in children ELSE m \in elems
FoundDecl(m) == m \in listed

TypeOK == built \in BOOLEAN
ElementAddressesMember == built => \A m \in Members : FoundCoded(m) = FoundDecl(m)
=============================================================================
