------------------------------ MODULE MaskDoIf ------------------------------
(* C17, the do_if dimension of the mask action (plugin/action/mask/mask.go, Plugin.Do / processMask) at the
   level of one event and two masks.

   A mask may carry a do_if condition.  The property: which masks work on an event is a function of the
   event AS IT ARRIVED -- every mask whose do_if holds on the original event hides its secrets in every
   value, every other mask touches nothing; the applied mark of a mask is set exactly when it matched.

   The mechanism in the code (M_DoIfOnOriginalEvent): Do evaluates every mask's do_if ONCE, at its top,
   before any value is rewritten, and keeps the answers in Mask.use while it walks the leaves.
   The mutant (M_DoIfOnOriginalEvent = FALSE) evaluates do_if inside processMask, right before a value is
   masked, i.e. on the event in which earlier leaves have already been rewritten -- by an earlier mask or
   by the mask itself.  TLC must ACCEPT the mechanism and REJECT the mutant (MaskDoIf_mutant.cfg: a
   two-field, two-mask counterexample); if it stops rejecting it, the model no longer sees the mechanism.

   Abstraction: a leaf value carries, for each mask k, one of  "none" (nothing mask k's regexp matches),
   "clear" (a secret of mask k), "masked" (rewritten by mask k).  A do_if condition reads one field d and
   asks whether the secret of mask k is visible there ("clear") -- the abstract form of `user has suffix
   @corp.example` while another mask replaces e-mails -- possibly negated.  processMask applies the masks
   of one leaf to a buffer and writes the leaf back only after the last mask (as the code does), so a
   condition evaluated in the middle of a leaf still sees that leaf unrewritten.                          *)
EXTENDS Integers, Sequences, FiniteSets, TLC

CONSTANTS NF,                       \* number of leaves of the event (document order 1..NF)
          M_DoIfOnOriginalEvent     \* TRUE = the code; FALSE = the mutant

Masks == {1, 2}
Status == {"none", "clear"}
Conds == {[has |-> FALSE]} \cup {[has |-> TRUE, d |-> d, k |-> k, neg |-> n] : d \in 1..NF, k \in Masks, n \in BOOLEAN}

VARIABLES orig,      \* the event as it arrived: leaf -> (mask -> status)
          cond,      \* mask -> its do_if condition
          ev,        \* the event being rewritten
          use,       \* Mask.use
          pc, l, i,  \* start | visit | done; leaf and mask being visited
          bufk,      \* the statuses of the current leaf's buffer (sourceBuf), written back after the last mask
          applied    \* mask -> applied mark / metric
vars == <<orig, cond, ev, use, pc, l, i, bufk, applied>>

Holds(c, e) == ~c.has \/ ((e[c.d][c.k] = "clear") # c.neg)

Init ==
  /\ orig \in [1..NF -> [Masks -> Status]]
  /\ cond \in [Masks -> Conds]
  /\ ev = orig
  /\ use = [k \in Masks |-> TRUE]
  /\ pc = "start" /\ l = 1 /\ i = 1
  /\ bufk = orig[1]
  /\ applied = [k \in Masks |-> FALSE]

(* top of Do: "check which masks to apply to the event" *)
Start ==
  /\ pc = "start"
  /\ use' = IF M_DoIfOnOriginalEvent THEN [k \in Masks |-> Holds(cond[k], ev)] ELSE use
  /\ pc' = "visit"
  /\ UNCHANGED <<orig, cond, ev, l, i, bufk, applied>>

(* one iteration of the mask loop of processMask on leaf l *)
Visit ==
  /\ pc = "visit"
  /\ LET u == IF M_DoIfOnOriginalEvent THEN use[i] ELSE Holds(cond[i], ev)      \* the mutant re-evaluates here
         hit == u /\ bufk[i] = "clear"
         nb == IF hit THEN [bufk EXCEPT ![i] = "masked"] ELSE bufk
     IN /\ use' = [use EXCEPT ![i] = u]
        /\ applied' = IF hit THEN [applied EXCEPT ![i] = TRUE] ELSE applied
        /\ IF i < 2
             THEN /\ i' = i + 1 /\ bufk' = nb /\ UNCHANGED <<ev, l, pc>>
             ELSE \* curNode.MutateToString(sourceBuf); next leaf
                  /\ ev' = [ev EXCEPT ![l] = nb]
                  /\ i' = 1
                  /\ IF l < NF THEN l' = l + 1 /\ bufk' = ev[l + 1] /\ pc' = "visit"
                     ELSE l' = l /\ bufk' = nb /\ pc' = "done"
  /\ UNCHANGED <<orig, cond>>

Next == Start \/ Visit
Spec == Init /\ [][Next]_vars

TypeOK == pc \in {"start", "visit", "done"} /\ l \in 1..NF /\ i \in Masks

(* the property: the masks that work on the event are those whose do_if holds on the ORIGINAL event *)
Works(k) == Holds(cond[k], orig)
DoIfOnOriginal ==
  pc = "done" =>
    /\ \A x \in 1..NF : \A k \in Masks :
         ev[x][k] = IF orig[x][k] = "clear" /\ Works(k) THEN "masked" ELSE orig[x][k]
    /\ \A k \in Masks : applied[k] <=> (Works(k) /\ \E x \in 1..NF : orig[x][k] = "clear")
=============================================================================
