SPECIFICATION Spec
CONSTANTS
  MaxLenI = 3
  M_TemplateStatePerInstance = TRUE
INVARIANTS TypeOK StreamsIndependent
CHECK_DEADLOCK FALSE
