SPECIFICATION Spec
CONSTANTS
  Mode = "hdr"
  MaxLen = 3
  SeqLen = 0
  ConcLen = 0
  GzLen = 0
  Symbols = {1, 2}
  Mutant = "none"
INVARIANTS TypeOK OracleSane LinesExact LinesPrefix CarryIsTail OKOnlyAfterAllLines NoOKOnError SidExclusive NoMixing NoForeignBytes BufOwned PendingStable PoolHoldsEachObjectOnce ReaderIsMine GoodGets200 Balanced
CHECK_DEADLOCK FALSE
