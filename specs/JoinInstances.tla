--------------------------- MODULE JoinInstances ---------------------------
(* C15 -- the state of a joining action is PER PLUGIN INSTANCE, i.e. per processor.
   The pipeline creates one plugin instance per processor from ONE shared Config object
   (pipeline.newProc: info.Factory() per processor; processor.start: action.Start(info.Config, ...)).
   join.Plugin keeps isJoining / initial / buff, join_template.Plugin keeps curTemplateIdx and hands ITS OWN
   firstCheck / nextCheck closures to ITS OWN inner join.Config.  Two streams served by two processors therefore
   evolve independently: the product of two single-stream machines, whatever the interleaving.

   Two instances, two streams (one per instance), two templates (template 2 may negate), no time-outs, no size limit.
   Each step hands the next event of stream p to instance p (join.Do as transcribed in Join.tla).

   Named mechanism (TRUE = what the code does; FALSE = mutant, JoinInstances_mut.cfg, must violate StreamsIndependent):
     M_TemplateStatePerInstance : curTemplateIdx belongs to the instance.  In the mutant the inner join config -- with
                                  the closures of the FIRST instance -- is built once and kept in the shared Config,
                                  so the current template index is shared by all instances. *)
EXTENDS Integers, Sequences, FiniteSets, TLC, JoinOracle

CONSTANTS MaxLenI,                       \* maximal length of each of the two streams
          M_TemplateStatePerInstance

VARIABLES cs,                            \* the case: [neg, seqs]  (neg: negate flag per template; seqs: the two streams)
          pos,                           \* events consumed per stream
          joining, buff, curT,           \* per instance: isJoining, buff (ids), curTemplateIdx
          sharedT,                       \* the one template index of the mutant
          out                            \* per stream: what left the action, in order

vars == <<cs, pos, joining, buff, curT, sharedT, out>>

Classes == {"S1", "C1", "S2", "C2", "O"}
SeqsOver(S, n) == UNION {[1..m -> S] : m \in 0..n}
P == {1, 2}

Init ==
  /\ \E neg \in [1..2 -> BOOLEAN] : \E a \in SeqsOver(Classes, MaxLenI) : \E b \in SeqsOver(Classes, MaxLenI) :
       /\ ~(neg[1] /\ neg[2])
       /\ cs = [neg |-> neg, seqs |-> <<a, b>>]
  /\ pos = <<0, 0>> /\ joining = <<FALSE, FALSE>> /\ buff = <<<<>>, <<>>>> /\ curT = <<0, 0>> /\ sharedT = 0
  /\ out = <<<<>>, <<>>>>

T(p) == IF M_TemplateStatePerInstance THEN curT[p] ELSE sharedT
SetT(p, t) == IF M_TemplateStatePerInstance THEN curT' = [curT EXCEPT ![p] = t] /\ UNCHANGED sharedT
              ELSE sharedT' = t /\ UNCHANGED curT
NextOK(p, c) == (c = CName(T(p))) # cs.neg[T(p)]
Flushed(p) == Append(out[p], [k |-> "j", ids |-> buff[p]])

(* join.Do of instance p on the next event of its stream *)
Step(p) ==
  /\ pos[p] < Len(cs.seqs[p])
  /\ LET k == pos[p] + 1
         c == cs.seqs[p][k]
         o == IF joining[p] THEN Flushed(p) ELSE out[p]
     IN IF c \in StartCls
          THEN \* firstCheck: remember the template, flush the previous run, hold
               /\ SetT(p, TOf(c))
               /\ out' = [out EXCEPT ![p] = o]
               /\ buff' = [buff EXCEPT ![p] = <<k>>] /\ joining' = [joining EXCEPT ![p] = TRUE]
          ELSE IF joining[p] /\ NextOK(p, c)
            THEN \* nextCheck of the current template: append, collapse
                 /\ buff' = [buff EXCEPT ![p] = Append(buff[p], k)]
                 /\ UNCHANGED <<out, joining, curT, sharedT>>
            ELSE \* flush, pass
                 /\ out' = [out EXCEPT ![p] = Append(o, [k |-> "p", ids |-> <<k>>])]
                 /\ joining' = [joining EXCEPT ![p] = FALSE]
                 /\ UNCHANGED <<buff, curT, sharedT>>
  /\ pos' = [pos EXCEPT ![p] = pos[p] + 1]
  /\ UNCHANGED cs

Next == \E p \in P : Step(p)
Spec == Init /\ [][Next]_vars

TypeOK == \A p \in P : pos[p] \in 0..Len(cs.seqs[p])

\* C15 for each stream alone, in every state of every interleaving: what one stream has output depends on that
\* stream's events only ("events of different streams or sources are never merged", and a run of one stream is
\* ended by that stream's own non-continuing line whatever the other processor is doing)
StreamsIndependent ==
  \A p \in P : SeqOK(out[p], Output(SubSeq(cs.seqs[p], 1, pos[p]), cs.neg, {}, "pattern"), 0)

=============================================================================
