\* the mechanism as coded: no state survives an event
SPECIFICATION Spec
CONSTANTS
  Masks = {1, 2, 3}
  SeqLen = 3
  M_NoStateAcrossEvents = TRUE
INVARIANTS TypeOK EventAlone
CHECK_DEADLOCK FALSE
