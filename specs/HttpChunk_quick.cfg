SPECIFICATION Spec
CONSTANTS
  Mode = "serial"
  MaxLen = 5
  SeqLen = 3
  ConcLen = 0
  GzLen = 0
  Symbols = {1, 2}
  Mutant = "none"
INVARIANTS TypeOK OracleSane LinesExact LinesPrefix CarryIsTail OKOnlyAfterAllLines NoOKOnError SidExclusive NoMixing NoForeignBytes BufOwned PendingStable PoolHoldsEachObjectOnce ReaderIsMine GoodGets200 Balanced Export
CHECK_DEADLOCK FALSE
