SPECIFICATION Spec
CONSTANTS
  Mode = "serial"
  MaxLen = 5
  SeqLen = 3
  ConcLen = 0
  Symbols = {1, 2}
  Mutant = "none"
INVARIANTS TypeOK OracleSane LinesExact LinesPrefix CarryIsTail OKOnlyAfterAllLines NoOKOnError SidExclusive NoMixing NoForeignBytes BufOwned PendingStable Balanced Export
CHECK_DEADLOCK FALSE
