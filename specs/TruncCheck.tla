------------------------------ MODULE TruncCheck ------------------------------
(* Truncation detection of the file input on a write notification (provider.go refreshFile -> checkFileWasTruncated) while
   the file is appended by its writer and read by a worker at the same time.

     writer : Append (the file grows) or Truncate (size := 0, the only way a size ever shrinks)
     worker : Read (position moves up to the current size); accounts what it read at the end of its round (curOffset += n)
     watcher: takes a size and the job's position -- in some order, at different instants -- and declares a truncation
              when position > size

   TruncatedOnlyIfShrunk: a truncation is declared only if the file really was truncated since the job's position was valid.
   OffsetIsPosition     : at the end of every worker round the job's accounted offset equals the descriptor's position.

   Mechanisms (TRUE = the code as repaired, commit 261be2f):
     M_SizeAfterPosition : the size is observed AFTER the position (a file only grows unless truncated, so position <= size)
     M_CheckReadOnly     : the check does not rewrite the job's offset (Job.seek did: curOffset := position, unlocked, which
                           the worker's `curOffset += n` then counts a second time)
   The two mutants are the code before the repair (D21).                                                                 *)
EXTENDS Naturals

CONSTANTS MaxSize, M_SizeAfterPosition, M_CheckReadOnly

VARIABLES size, truncated,      \* the file; truncated = it was truncated at least once
          pos,                  \* descriptor position of the job
          cur,                  \* job.curOffset
          pendingRead,          \* bytes read in the worker's current round, not yet added to cur
          wsize, wpos, wpc,     \* watcher: observed size / position, program counter
          declared              \* a truncation was declared

vars == <<size, truncated, pos, cur, pendingRead, wsize, wpos, wpc, declared>>

Init == /\ size = 0 /\ truncated = FALSE /\ pos = 0 /\ cur = 0 /\ pendingRead = 0
        /\ wsize = 0 /\ wpos = 0 /\ wpc = "idle" /\ declared = FALSE

Append == size < MaxSize /\ size' = size + 1 /\ UNCHANGED <<truncated, pos, cur, pendingRead, wsize, wpos, wpc, declared>>
Truncate == size > 0 /\ size' = 0 /\ truncated' = TRUE /\ UNCHANGED <<pos, cur, pendingRead, wsize, wpos, wpc, declared>>

Read == /\ pos < size /\ pos' = pos + 1 /\ pendingRead' = pendingRead + 1
        /\ UNCHANGED <<size, truncated, cur, wsize, wpos, wpc, declared>>
Account == /\ pendingRead > 0 /\ cur' = cur + pendingRead /\ pendingRead' = 0
           /\ UNCHANGED <<size, truncated, pos, wsize, wpos, wpc, declared>>

\* the watcher's two observations, in the order the mechanism prescribes
TakeFirst == /\ wpc = "idle"
             /\ IF M_SizeAfterPosition THEN wpos' = pos /\ UNCHANGED wsize ELSE wsize' = size /\ UNCHANGED wpos
             /\ cur' = IF M_SizeAfterPosition /\ ~M_CheckReadOnly THEN pos ELSE cur
             /\ wpc' = "second" /\ UNCHANGED <<size, truncated, pos, pendingRead, declared>>
TakeSecond == /\ wpc = "second"
              /\ IF M_SizeAfterPosition THEN wsize' = size /\ UNCHANGED wpos ELSE wpos' = pos /\ UNCHANGED wsize
              /\ cur' = IF ~M_SizeAfterPosition /\ ~M_CheckReadOnly THEN pos ELSE cur
              /\ wpc' = "decide" /\ UNCHANGED <<size, truncated, pos, pendingRead, declared>>
Decide == /\ wpc = "decide"
          /\ declared' = (declared \/ wpos > wsize)
          /\ wpc' = "idle" /\ UNCHANGED <<size, truncated, pos, cur, pendingRead, wsize, wpos>>

Next == Append \/ Truncate \/ Read \/ Account \/ TakeFirst \/ TakeSecond \/ Decide
Spec == Init /\ [][Next]_vars

TypeOK == size \in 0..MaxSize /\ pos \in 0..MaxSize
TruncatedOnlyIfShrunk == declared => truncated
OffsetIsPosition == (pendingRead = 0 /\ ~truncated) => cur = pos
=============================================================================
