SPECIFICATION Spec
CONSTANTS
  MaxId = 24
  TraceFile = "trace.ndjson"
INVARIANT Report
CHECK_DEADLOCK FALSE
