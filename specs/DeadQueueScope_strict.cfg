SPECIFICATION Spec
CONSTANTS
  MaxPipelines = 3
  DqConfigs = {"a", "b"}
  M_DeadQueueOnCopy = TRUE
  M_LenCheckedBeforeTypeRemoved = TRUE
  D_DqConfigOnRegistryEntry = TRUE
INVARIANTS DeadQueueIffDeclared DeadQueueIsOwn
CHECK_DEADLOCK FALSE
