--------------------------- MODULE OutputFileSink ---------------------------
(* C19, file sink under concurrency -- companion of OutputPayload.tla (which enumerates what ONE worker puts into a
   batch payload).  Here the payloads are given and the question is how they reach the files when several batcher
   workers flush at the same time and the seal-up swaps the file (plugin/output/file/file.go: out -> write, sealUp).

   Code: write(data) takes p.mu.RLock, issues ONE p.file.Write(data) on an O_APPEND descriptor (one append of the
   whole payload; appends of concurrent writers are serialised by the kernel) and releases the lock; sealUp renames
   the current file, takes p.mu.Lock (exclusive: waits for the writers inside write), creates the new file, unlocks.
   So a batch payload is ONE contiguous append under a lock that sealing takes exclusively.

   Mechanism switch (TRUE = as in the code):
     M_BatchWrittenUnderOneLock   FALSE = the payload is written in chunks, the read lock is taken and released per
                                  chunk: another worker's chunk or a seal-up can fall between two chunks of a batch.

   A payload is a sequence of chunks <<w, b, j>> (worker, batch number, chunk index); a batch of Chunks[w] chunks
   stands for a payload of more than 64 KiB * (Chunks[w] - 1).                                                  *)
EXTENDS Integers, Sequences, FiniteSets, TLC

CONSTANTS Workers,        \* set of worker ids
          Batches,        \* batches per worker
          MaxChunks,      \* chunks per payload: 1..MaxChunks (chosen per worker)
          MaxSeals,       \* number of seal-ups that may happen
          M_BatchWrittenUnderOneLock

VARIABLES nchunks,        \* per worker: chunks per payload (part of the case)
          cur,            \* the current file: sequence of chunks
          sealed,         \* sealed files, in order
          wb, wj,         \* per worker: batch being written (1..Batches+1), next chunk of it (1 = not started)
          readers,        \* workers holding the read lock
          seals           \* seal-ups done

vars == <<nchunks, cur, sealed, wb, wj, readers, seals>>

Payload(w, b) == [j \in 1..nchunks[w] |-> <<w, b, j>>]

Init ==
  /\ nchunks \in [Workers -> 1..MaxChunks]
  /\ cur = <<>> /\ sealed = <<>>
  /\ wb = [w \in Workers |-> 1] /\ wj = [w \in Workers |-> 1]
  /\ readers = {} /\ seals = 0

(* write(): RLock; one Write of the whole payload; RUnlock -- one step: nothing can fall inside one append *)
WriteWhole(w) ==
  /\ M_BatchWrittenUnderOneLock
  /\ wb[w] <= Batches
  /\ cur' = cur \o Payload(w, wb[w])
  /\ wb' = [wb EXCEPT ![w] = @ + 1]
  /\ UNCHANGED <<nchunks, sealed, wj, readers, seals>>

(* mutant: per chunk RLock; Write(chunk); RUnlock *)
ChunkLock(w) ==
  /\ ~M_BatchWrittenUnderOneLock
  /\ wb[w] <= Batches /\ w \notin readers
  /\ readers' = readers \cup {w}
  /\ UNCHANGED <<nchunks, cur, sealed, wb, wj, seals>>
ChunkWrite(w) ==
  /\ ~M_BatchWrittenUnderOneLock
  /\ w \in readers
  /\ cur' = Append(cur, <<w, wb[w], wj[w]>>)
  /\ readers' = readers \ {w}
  /\ IF wj[w] = nchunks[w] THEN wb' = [wb EXCEPT ![w] = @ + 1] /\ wj' = [wj EXCEPT ![w] = 1]
                           ELSE wj' = [wj EXCEPT ![w] = @ + 1] /\ wb' = wb
  /\ UNCHANGED <<nchunks, sealed, seals>>

(* sealUp(): nothing to do for an empty file; else rename, Lock (no reader inside write), createNew, Unlock *)
SealUp ==
  /\ seals < MaxSeals /\ cur # <<>> /\ readers = {}
  /\ sealed' = Append(sealed, cur) /\ cur' = <<>>
  /\ seals' = seals + 1
  /\ UNCHANGED <<nchunks, wb, wj, readers>>

Next == (\E w \in Workers : WriteWhole(w) \/ ChunkLock(w) \/ ChunkWrite(w)) \/ SealUp
Spec == Init /\ [][Next]_vars

-----------------------------------------------------------------------------
Files == sealed \o <<cur>>

\* f is a concatenation of whole batch payloads, except that the LAST payload of the current file may still be
\* growing when allowTail (never needed with the mechanism on: an append is one step)
RECURSIVE Whole(_, _)
Whole(f, p) ==
  IF p > Len(f) THEN TRUE
  ELSE LET w == f[p][1]  b == f[p][2] IN
       /\ f[p][3] = 1
       /\ p + nchunks[w] - 1 <= Len(f)
       /\ \A j \in 1..nchunks[w] : f[p + j - 1] = <<w, b, j>>
       /\ Whole(f, p + nchunks[w])

Quiet == \A w \in Workers : w \notin readers /\ wj[w] = 1

\* every sealed file is made of whole, contiguous batch payloads at all times, the current one whenever no write is
\* in flight: no line is cut across two files, no two batches interleave
FilesAreWholeBatches ==
  /\ \A i \in DOMAIN sealed : Whole(sealed[i], 1)
  /\ Quiet => Whole(cur, 1)

\* every chunk written so far is in exactly one file, once
EachChunkOnce ==
  \A w \in Workers : \A b \in 1..Batches : \A j \in 1..nchunks[w] :
     LET n == Cardinality({<<i, p>> \in {<<i, p>> \in (1..Len(Files)) \X (1..(Batches * MaxChunks * Cardinality(Workers))) :
                                              p <= Len(Files[i])} : Files[i][p] = <<w, b, j>>})
     IN IF b < wb[w] \/ (b = wb[w] /\ j < wj[w]) THEN n = 1 ELSE n = 0

=============================================================================
