SPECIFICATION Spec
CONSTANTS
  Fams <- MutantFams
  D_SwapDelete = TRUE
  Cap = 2
  M_DepthBuffersDisjoint = TRUE
  M_AllDocumentKindsFiltered = FALSE
INVARIANTS MutantKindInv
CHECK_DEADLOCK FALSE
