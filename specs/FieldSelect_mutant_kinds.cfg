SPECIFICATION Spec
CONSTANTS
  Fams <- MutantFams
  D_SwapDelete = TRUE
  M_RemovePerSelector = TRUE
  ScanT = 1
  M_NamesComparedWhole = TRUE
  NameW = 5
  M_BuffersPerInstance = TRUE
  Cap = 2
  M_DepthBuffersDisjoint = TRUE
  M_AllDocumentKindsFiltered = FALSE
INVARIANTS MutantKindInv
CHECK_DEADLOCK FALSE
