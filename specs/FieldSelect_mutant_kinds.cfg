SPECIFICATION Spec
CONSTANTS
  Fams <- MutantFams
  D_SwapDelete = TRUE
  M_BuffersPerInstance = TRUE
  Cap = 2
  M_DepthBuffersDisjoint = TRUE
  M_AllDocumentKindsFiltered = FALSE
INVARIANTS MutantKindInv
CHECK_DEADLOCK FALSE
