----------------------------- MODULE FieldSelect -----------------------------
(* C18 -- keep_fields / remove_fields select exactly the configured paths.

   Code described (file.d):
     cfg/config.go                          ParseFieldSelector, ParseNestedFields
     plugin/action/keep_fields/keep_fields.go    Start (path trie), traverseFieldsTree (per-depth delete buffers)
     plugin/action/remove_fields/remove_fields.go Do (Dig(path...).Suicide() per normalised path)
     insane-json Node.Dig / Node.Suicide    (only as far as the two plugins use them)

   A JSON value is  Leaf(code) | Obj(<< <<key, value>>, ... >>) (ORDERED, keys unique) | Arr(<< <<0, value>>, ... >>).
   Key names are small integers (1 = a, 2 = b, 3 = "a.b", 4 = "a.b.a", 5 = "b.a"); a selector is a sequence of key names,
   a configuration is a LIST of selectors (the user's `fields:` list).

   (i)   implementation-shaped part: ParseSel (ParseFieldSelector on characters), ImplNorm (ParseNestedFields),
         Trav/TravLoop (traverseFieldsTree with the fieldsDepthSlice buffers), ImplRemove (Dig + Suicide loop),
         DelField (Suicide on an object member; the named deviation D_SwapDelete = the member is replaced by the
         LAST member of the object, which is what insane-json does, instead of closing the gap).
   (ii)  declarative part: Remove, Keep (the naive "subtract / project these paths" functions), Norm,
         and the literal reading of the statement in terms of resolvable paths (RemoveIsExact, KeepIsExact,
         Untouched, Idempotent).
   (iii) invariants: (i) = (ii) on every case of the small scope.
   (iv)  Export prints every case with the declaratively expected keep / remove results (and, where it differs,
         what the transcription predicts under the deviation) for replay against the real plugins.

   Width.  Keep / Remove / Norm never look at how many members an object has: a member whose name occurs in no
   selector is one "never selected" member, and K such members at the same place behave like one (lemma
   WidthIndependent, checked by TLC for K = 2).  The code is NOT obviously width-independent: keep_fields collects
   the names to delete in per-depth buffers of initial capacity 100.  The buffers are modelled with their capacity
   (constant Cap, small) and backing arrays; the mechanism switch M_DepthBuffersDisjoint = TRUE says that every depth
   owns its array (as the code does: one make([]string, 0, 100) per depth).  The mutant FALSE = "all depths are
   sub-slices of ONE array, capacity not capped" must be REJECTED by TLC (FieldSelect_mutant_sharedbuf.cfg): a level
   with more than Cap names to delete followed by a nested traversed object.  Families whose key set contains the
   marker name JUNK export documents in which the replay harness widens the marker to 1 / 99 / 100 / 101 / 150 / 250
   never-selected members (names junk_i), in the document and - by the lemma - in the expected results alike.

   Event kinds.  The statement speaks about "the event": the result is a function of (document, selectors) ONLY,
   for every kind of event that carries a document - regular events, CHILD events (spawned by split or any other
   Controller.Spawn user; their Root is the array element) and CHILD-PARENT events.  Time-out / unlock events carry
   no document (nil Root) and are outside the property.  Mechanism switch M_AllDocumentKindsFiltered = TRUE (the
   code: Do looks at event.Root only); the mutant FALSE = "only regular events are filtered" must be REJECTED by TLC
   (FieldSelect_mutant_kinds.cfg).  The replay harness runs every case as a regular, a child and a child-parent
   event, and a sample end to end through a running pipeline [split, keep_fields | remove_fields].

   Instances.  The pipeline starts ONE plugin instance per processor from ONE shared Config, and the processors run
   concurrently.  The depth buffers belong to the INSTANCE (mechanism switch M_BuffersPerInstance = TRUE: Start
   allocates them).  Two-instance model (SpecInst / InstInv, FieldSelect_instances.cfg): the control flow of
   traverseFieldsTree does not depend on the buffer contents, so one Do is a fixed sequence of buffer operations
   (push name at depth / delete the names read at depth from the object at a path / reset depth: TravOps); two
   instances work on their own documents and their operations interleave in every possible way; each result must be
   the declarative Keep of its own document.  The mutant FALSE = "the instances' slices are windows of the same
   backing arrays (shallow copy of the slice headers)" must be REJECTED by TLC (FieldSelect_mutant_instances.cfg):
   B's pushes overwrite A's pending delete list between A's collect and A's delete steps.  Do cannot be split in the
   real code, so the binding is a concurrent run: N >= 4 real instances from one Config, each on its own documents.

   Names.  Keep / Remove / Norm use member names only through EQUALITY: for every injective renaming rho of the
   names, Keep(rho P, rho d) = rho Keep(P, d) (lemma RenameInvariant, checked by TLC for two permutations of the
   names, also for the transcriptions).  Hence the small alphabet stands for any names: the replay harness runs the
   cases again with name tables whose names have the lengths 1, 7, 8, 31, 32, 63, 64, 65, 127, 128, 255, 256, 1000
   (two names of equal length that differ in the last byte, one equal to them up to that byte and longer, a dotted
   one, one that differs in the first byte).  Mechanism switch M_NamesComparedWhole = TRUE (the code: map lookup /
   string comparison of the whole name); the mutant FALSE = "a name of NameW or more characters is never found among
   the configured names" must be REJECTED by TLC (FieldSelect_mutant_names.cfg).

   Number of selectors.  Keep / Remove do not depend on how long the list is: selectors whose first name is not a
   member of the document change nothing (lemma PadIrrelevant, checked by TLC with two such selectors), so the
   replay harness pads the lists of the cases to 9, 10, 16 and 40 selectors.  Mechanism switch M_RemovePerSelector =
   TRUE (the code: one Dig + Suicide per selector); the mutant FALSE = "for more than ScanT plain root selectors the
   root's members are scanned by index and deleted on the fly" (the swap-delete then moves the last member into the
   slot just visited, and it is never looked at) must be REJECTED by TLC (FieldSelect_mutant_scan.cfg).

   One state = one CASE (family, document, selector list); the case is the only variable.               *)
EXTENDS Integers, Sequences, FiniteSets, TLC, Json

CONSTANTS Fams,          \* sequence of scope families, see QuickFams / ThoroughFams below
          D_SwapDelete,  \* named deviation (TRUE = what the code does): deleting an object member moves the
                         \* object's last member into its place, so the key order of survivors changes
          Cap,           \* initial capacity of one per-depth delete buffer (100 in the code; small here)
          M_DepthBuffersDisjoint,  \* mechanism (TRUE = the code): every depth buffer has its own backing array
          M_AllDocumentKindsFiltered,  \* mechanism (TRUE = the code): Do filters every event that carries a document
          M_BuffersPerInstance,    \* mechanism (TRUE = the code): every plugin instance allocates its own depth buffers
          M_NamesComparedWhole,    \* mechanism (TRUE = the code): a member name is looked up by its whole value
          M_RemovePerSelector,     \* mechanism (TRUE = the code): remove_fields digs and deletes selector by selector
          ScanT,                   \* the mutant ~M_RemovePerSelector scans by index for more than ScanT root selectors
          NameW                    \* the mutant ~M_NamesComparedWhole never finds names of NameW or more characters

VARIABLES cs             \* [fam, doc, sels]; sels = <<>> while the selector list is not chosen yet

-----------------------------------------------------------------------------
(* JSON values *)
Leaf(c) == [t |-> 0, v |-> c, f |-> <<>>]
Obj(fs) == [t |-> 1, v |-> 0, f |-> fs]
Arr(es) == [t |-> 2, v |-> 0, f |-> es]
IsObj(x) == x.t = 1
JUNK == 9                \* marker member name: occurs in no selector; widened to many members by the harness
JUNK2 == 10              \* second never-selected name, used only by the lemma WidthIndependent

\* the six "leaf" kinds a document position may hold: 1, "s", null, [], [{"a":1}], {}
LeafVal(c) == CASE c = 1 -> Leaf(1)
                [] c = 2 -> Leaf(2)
                [] c = 3 -> Leaf(3)
                [] c = 4 -> Arr(<<>>)
                [] c = 5 -> Arr(<< <<0, Obj(<< <<1, Leaf(1)>> >>)>> >>)
                [] c = 6 -> Obj(<<>>)

IndexOfKey(fs, k) == IF \E i \in 1..Len(fs) : fs[i][1] = k
                     THEN CHOOSE i \in 1..Len(fs) : fs[i][1] = k /\ \A j \in 1..(i - 1) : fs[j][1] # k
                     ELSE 0
RECURSIVE HasJunk(_)
HasJunk(v) == IsObj(v) /\ \E i \in 1..Len(v.f) : v.f[i][1] = JUNK \/ HasJunk(v.f[i][2])
KeySet(o) == {o.f[i][1] : i \in 1..Len(o.f)}
ValOf(o, k) == o.f[IndexOfKey(o.f, k)][2]

IsPrefix(s, t) == Len(s) <= Len(t) /\ SubSeq(t, 1, Len(s)) = s
SeqSet(s) == {s[i] : i \in 1..Len(s)}

\* relative path sets: the heads, and the tails below one head
Heads(Q) == {q[1] : q \in Q}
Sub(Q, k) == {Tail(q) : q \in {x \in Q : x[1] = k /\ Len(x) > 1}}

-----------------------------------------------------------------------------
(* (ii) declarative part *)

\* d without the values at the paths of Q that resolve through objects only
RECURSIVE Remove(_, _)
Remove(Q, v) ==
  IF ~IsObj(v) \/ Q = {} THEN v
  ELSE LET kept == SelectSeq(v.f, LAMBDA fld : <<fld[1]>> \notin Q)
       IN Obj(IF kept = <<>> THEN <<>>
              ELSE [i \in 1..Len(kept) |-> <<kept[i][1], Remove(Sub(Q, kept[i][1]), kept[i][2])>>])

\* the sub-document of object v consisting of exactly the values at the resolvable paths of Q (Q # {}) plus the
\* objects on the way to them; a member below which nothing is kept disappears
RECURSIVE KeepObj(_, _)
KeepObj(Q, v) ==
  LET Survives(fld) == \/ <<fld[1]>> \in Q
                       \/ /\ Sub(Q, fld[1]) # {}
                          /\ IsObj(fld[2])
                          /\ KeepObj(Sub(Q, fld[1]), fld[2]).f # <<>>
      NewVal(fld) == IF <<fld[1]>> \in Q THEN fld[2] ELSE KeepObj(Sub(Q, fld[1]), fld[2])
      kept == SelectSeq(v.f, Survives)
  IN Obj(IF kept = <<>> THEN <<>> ELSE [i \in 1..Len(kept) |-> <<kept[i][1], NewVal(kept[i])>>])
Keep(P, d) == KeepObj(P, d)

Norm(P) == {p \in P : ~\E q \in P : q # p /\ IsPrefix(q, p)}

\* --- the statement read literally, in terms of paths that resolve through objects
RECURSIVE AllPaths(_)
AllPaths(v) == IF ~IsObj(v) THEN {}
               ELSE UNION {{<<k>>} \cup {<<k>> \o q : q \in AllPaths(ValOf(v, k))} : k \in KeySet(v)}
RECURSIVE ValAt(_, _)
ValAt(v, p) == IF p = <<>> THEN v ELSE ValAt(ValOf(v, p[1]), Tail(p))

RemoveIsExact(P, d) ==
  LET r == Remove(P, d) IN
  /\ AllPaths(r) = {q \in AllPaths(d) : ~\E p \in P : IsPrefix(p, q)}
  /\ \A q \in AllPaths(r) : ~IsObj(ValAt(r, q)) => ValAt(r, q) = ValAt(d, q)

KeepIsExact(P, d) ==
  LET r == Keep(P, d)
      hit == P \cap AllPaths(d)                     \* configured paths that exist; all others are ignored
  IN /\ AllPaths(r) = {q \in AllPaths(d) : \E p \in hit : IsPrefix(p, q) \/ IsPrefix(q, p)}
     /\ \A q \in AllPaths(r) : (\E p \in hit : IsPrefix(p, q)) => ValAt(r, q) = ValAt(d, q)

\* every surviving key / value / order is the original one: r is d with members left out
RECURSIVE SubDoc(_, _)
SubDoc(r, d) ==
  \/ r = d
  \/ /\ IsObj(r) /\ IsObj(d)
     /\ \A i \in 1..Len(r.f) : IndexOfKey(d.f, r.f[i][1]) # 0
     /\ \A i, j \in 1..Len(r.f) : i < j => IndexOfKey(d.f, r.f[i][1]) < IndexOfKey(d.f, r.f[j][1])
     /\ \A i \in 1..Len(r.f) : SubDoc(r.f[i][2], ValOf(d, r.f[i][1]))

\* equality up to the order of object members
RECURSIVE Canon(_)
RECURSIVE SortFields(_)
SortFields(fs) == IF fs = <<>> THEN <<>>
                  ELSE LET m == CHOOSE i \in 1..Len(fs) : \A j \in 1..Len(fs) : fs[i][1] <= fs[j][1]
                       IN <<fs[m]>> \o SortFields(SubSeq(fs, 1, m - 1) \o SubSeq(fs, m + 1, Len(fs)))
Canon(v) == IF v.f = <<>> THEN v
            ELSE LET g == [i \in 1..Len(v.f) |-> <<v.f[i][1], Canon(v.f[i][2])>>]
                 IN [v EXCEPT !.f = IF IsObj(v) THEN SortFields(g) ELSE g]

-----------------------------------------------------------------------------
(* (i) implementation-shaped part *)

\* --- cfg.ParseFieldSelector on character sequences: 1 = 'a', 2 = 'b', 0 = '.', 9 = '\'
DOT == 0
BS == 9
KeyChars(k) == CASE k = 1 -> <<1>> [] k = 2 -> <<2>> [] k = 3 -> <<1, DOT, 2>> [] k = 4 -> <<1, DOT, 2, DOT, 1>>
                 [] k = 5 -> <<2, DOT, 1>>
RECURSIVE Escape(_)
Escape(s) == IF s = <<>> THEN <<>>
             ELSE (IF Head(s) = DOT THEN <<BS, DOT>> ELSE <<Head(s)>>) \o Escape(Tail(s))
RECURSIVE Unparse(_)    \* the selector string a user writes for the path p
Unparse(p) == IF Len(p) = 1 THEN Escape(KeyChars(p[1]))
              ELSE Escape(KeyChars(p[1])) \o <<DOT>> \o Unparse(Tail(p))
IndexDot(s) == IF \E i \in 1..Len(s) : s[i] = DOT
               THEN CHOOSE i \in 1..Len(s) : s[i] = DOT /\ \A j \in 1..(i - 1) : s[j] # DOT
               ELSE 0
RECURSIVE PSLoop(_, _, _)       \* one iteration of the `for` in ParseFieldSelector
PSLoop(result, tail, sel) ==
  LET pos == IndexDot(sel) IN      \* 1-based; Go's pos = pos - 1
  IF pos = 0
    THEN IF Len(sel) + Len(tail) # 0 THEN Append(result, tail \o sel) ELSE result
  ELSE IF pos > 1 /\ sel[pos - 1] = BS
    THEN PSLoop(result, tail \o SubSeq(sel, 1, pos - 2) \o <<DOT>>, SubSeq(sel, pos + 1, Len(sel)))
  ELSE IF Len(sel) > pos /\ sel[pos + 1] = DOT
    THEN PSLoop(result, SubSeq(sel, 1, pos), SubSeq(sel, pos + 2, Len(sel)))      \* the ".." form (tail overwritten)
  ELSE PSLoop(Append(result, tail \o SubSeq(sel, 1, pos - 1)), <<>>, SubSeq(sel, pos + 1, Len(sel)))
ParseSel(s) == PSLoop(<<>>, <<>>, s)

\* --- cfg.ParseNestedFields: sort by length (sort.Slice is an insertion sort below 12 elements, i.e. stable),
\*     then drop every path that has an earlier path (kept or not) as prefix or duplicate
MaxLen(list) == IF list = <<>> THEN 0 ELSE CHOOSE n \in {Len(list[i]) : i \in 1..Len(list)} :
                                              \A i \in 1..Len(list) : Len(list[i]) <= n
RECURSIVE SortFrom(_, _, _)
SortFrom(list, n, max) == IF n > max THEN <<>>
                          ELSE SelectSeq(list, LAMBDA p : Len(p) = n) \o SortFrom(list, n + 1, max)
SortByLen(list) == SortFrom(list, 1, MaxLen(list))
RECURSIVE NormFrom(_, _)
NormFrom(s, i) == IF i > Len(s) THEN <<>>
                  ELSE (IF \E j \in 1..(i - 1) : IsPrefix(s[j], s[i]) THEN <<>> ELSE <<s[i]>>) \o NormFrom(s, i + 1)
ImplNorm(list) == NormFrom(SortByLen(list), 1)

\* --- insane-json  owner.Dig(k).Suicide()  on an object's member list
DelField(sw, fs, k) ==
  LET i == IndexOfKey(fs, k)
      n == Len(fs)
  IN IF i = 0 THEN fs                                                   \* Dig returns nil; Suicide on nil is a no-op
     ELSE IF sw THEN (IF i = n THEN SubSeq(fs, 1, n - 1)
                      ELSE SubSeq([fs EXCEPT ![i] = fs[n]], 1, n - 1))   \* last member moved into the hole
     ELSE SubSeq(fs, 1, i - 1) \o SubSeq(fs, i + 1, n)
RECURSIVE DelAll(_, _, _)
DelAll(sw, fs, names) == IF names = <<>> THEN fs ELSE DelAll(sw, DelField(sw, fs, Head(names)), Tail(names))

\* --- keep_fields: the path trie built in Start is represented by the set Q of path suffixes below a trie node
\*     (children = Heads(Q); the child below k = Sub(Q, k); "len(children) == 0" = the empty set).
\*     bufs = p.fieldsDepthSlice (one name buffer per depth) as Go slices over backing arrays:
\*       mem   the array shared by all depths (used only by the mutant ~M_DepthBuffersDisjoint), depthMax * Cap cells
\*       s[i]  the slice of depth i-1: sh = still a window of mem starting at (i-1)*Cap with n elements and a capacity
\*             that reaches to the END of mem (not capped); otherwise `own` = its private array's contents.
\*     With disjoint arrays the capacity is unobservable (append beyond it copies into a larger private array).
RECURSIVE Zeros(_)
Zeros(n) == IF n = 0 THEN <<>> ELSE <<0>> \o Zeros(n - 1)
BufInit(depthMax) ==
  [mem |-> Zeros(depthMax * Cap),
   s |-> [i \in 1..depthMax |-> [sh |-> ~M_DepthBuffersDisjoint, n |-> 0, own |-> <<>>]]]
BufRead(B, i) == IF B.s[i].sh THEN SubSeq(B.mem, (i - 1) * Cap + 1, (i - 1) * Cap + B.s[i].n) ELSE B.s[i].own
BufPush(B, i, k) ==          \* p.fieldsDepthSlice[i-1] = append(p.fieldsDepthSlice[i-1], k)
  IF i > Len(B.s) THEN Assert(FALSE, "fieldsDepthSlice index out of range")
  ELSE IF ~B.s[i].sh THEN [B EXCEPT !.s[i].own = Append(@, k)]
  ELSE IF (i - 1) * Cap + B.s[i].n < Len(B.mem)
         THEN [B EXCEPT !.mem[(i - 1) * Cap + B.s[i].n + 1] = k, !.s[i].n = @ + 1]   \* may be ANOTHER depth's cell
         ELSE [B EXCEPT !.s[i] = [sh |-> FALSE, n |-> 0, own |-> Append(BufRead(B, i), k)]]   \* append reallocates
BufReset(B, i) == IF B.s[i].sh THEN [B EXCEPT !.s[i].n = 0] ELSE [B EXCEPT !.s[i].own = <<>>]   \* buf = buf[:0]
BufsEmpty(B) == \A i \in 1..Len(B.s) : BufRead(B, i) = <<>>
\* `childNode, ok := fpNode.children[eventField]`
NameFound(k, Q) == k \in Heads(Q) /\ (M_NamesComparedWhole \/ Len(KeyChars(k)) < NameW)
RECURSIVE Trav(_, _, _, _, _)
RECURSIVE TravLoop(_, _, _, _, _, _, _)
\* one iteration of `for _, node := range eventNode.AsFields()`; f = members (values already rewritten by recursion)
TravLoop(sw, Q, f, i, depth, bufs, pres) ==
  IF i > Len(f) THEN [f |-> f, bufs |-> bufs, pres |-> pres]
  ELSE LET k == f[i][1]
           push(b) == BufPush(b, depth + 1, k)
       IN IF NameFound(k, Q)
            THEN IF Sub(Q, k) = {}
                   THEN TravLoop(sw, Q, f, i + 1, depth, bufs, TRUE)            \* target member: preserved as a whole
                   ELSE LET c == Trav(sw, Sub(Q, k), f[i][2], depth + 1, bufs)
                            f1 == [f EXCEPT ![i] = <<k, c.node>>]
                        IN IF c.ret THEN TravLoop(sw, Q, f1, i + 1, depth, c.bufs, TRUE)
                           ELSE TravLoop(sw, Q, f1, i + 1, depth, push(c.bufs), pres)
            ELSE TravLoop(sw, Q, f, i + 1, depth, push(bufs), pres)
\* traverseFieldsTree(fpNode, eventNode, depth)
Trav(sw, Q, node, depth, bufs) ==
  IF Q = {} THEN [node |-> node, bufs |-> bufs, ret |-> TRUE]
  ELSE IF ~IsObj(node) THEN [node |-> node, bufs |-> bufs, ret |-> FALSE]
  ELSE LET r == TravLoop(sw, Q, node.f, 1, depth, bufs, FALSE)
           f2 == IF depth = 0 \/ r.pres THEN DelAll(sw, r.f, BufRead(r.bufs, depth + 1)) ELSE r.f
       IN [node |-> Obj(f2), bufs |-> BufReset(r.bufs, depth + 1), ret |-> r.pres]

KeepRun(sw, list, d) ==      \* Start + Do
  LET paths == ImplNorm(list)
      depthMax == MaxLen(paths)
  IN Trav(sw, SeqSet(paths), d, 0, BufInit(depthMax))
ImplKeep(sw, list, d) == KeepRun(sw, list, d).node

\* --- remove_fields: for each normalised path  event.Root.Dig(path...).Suicide()
\*     (Dig: objects by member name; an array is indexed by a decimal number, which no key name of this model is)
RECURSIVE DigDel(_, _, _)
DigDel(sw, v, p) ==
  IF ~IsObj(v) THEN v
  ELSE LET i == IndexOfKey(v.f, p[1]) IN
       IF i = 0 THEN v
       ELSE IF Len(p) = 1 THEN Obj(DelField(sw, v.f, p[1]))
       ELSE Obj([v.f EXCEPT ![i] = <<p[1], DigDel(sw, v.f[i][2], Tail(p))>>])
RECURSIVE RemoveLoop(_, _, _)
RemoveLoop(sw, paths, d) == IF paths = <<>> THEN d ELSE RemoveLoop(sw, Tail(paths), DigDel(sw, d, Head(paths)))
\* mutant only: `for i := 0; i < len(fields); i++ { if listed(fields[i]) { fields[i].Suicide() } }`
RECURSIVE ScanDel(_, _, _)
ScanDel(fs, S, i) == IF i > Len(fs) THEN fs
                     ELSE IF fs[i][1] \in S THEN ScanDel(DelField(TRUE, fs, fs[i][1]), S, i + 1)
                     ELSE ScanDel(fs, S, i + 1)
ImplRemove(sw, list, d) ==
  LET n == ImplNorm(list) IN
  IF ~M_RemovePerSelector /\ Len(n) > ScanT /\ (\A i \in 1..Len(n) : Len(n[i]) = 1) /\ IsObj(d)
    THEN Obj(ScanDel(d.f, {n[i][1] : i \in 1..Len(n)}, 1))
    ELSE RemoveLoop(sw, n, d)

-----------------------------------------------------------------------------
(* the small scope: families of (documents x selector lists) *)

\* a family F: keys (member names), K[l] (max members of an object at level l; Len(K) = max depth),
\*   N (max members in the whole document), leaves (leaf kinds), pkeys / plen (names and max length of selectors),
\*   sizes (numbers of distinct selectors in a list), ord ("asc" | "desc" | "both"), dup (also lists with a repeat)
RECURSIVE FieldSeqs(_, _, _, _, _)
RECURSIVE FieldVals(_, _, _)
FieldSeqs(F, level, n, used, slots) ==
  {[f |-> <<>>, n |-> 0]} \cup
  (IF slots = 0 \/ n = 0 THEN {}
   ELSE UNION { UNION { { [f |-> << <<k, v.val>> >> \o r.f, n |-> 1 + v.n + r.n]
                          : r \in FieldSeqs(F, level, n - 1 - v.n, used \cup {k}, slots - 1) }
                        : v \in (IF k = JUNK THEN {x \in FieldVals(F, level, n - 1) : x.n = 0 /\ x.val.t = 0}
                                  ELSE FieldVals(F, level, n - 1)) }      \* the marker member always holds a scalar
                : k \in F.keys \ used })
FieldVals(F, level, n) ==
  {[val |-> LeafVal(c), n |-> 0] : c \in F.leaves} \cup
  (IF level >= Len(F.K) THEN {}
   ELSE {[val |-> Obj(r.f), n |-> r.n] : r \in {x \in FieldSeqs(F, level + 1, n, {}, F.K[level + 1]) : x.f # <<>>}})
\* a family whose names include the marker JUNK consists of the documents that contain it
Docs(F) == LET all == {Obj(r.f) : r \in FieldSeqs(F, 1, F.N, {}, F.K[1])}
           IN IF JUNK \in F.keys THEN {d \in all : HasJunk(d)} ELSE all

PathsOf(F) == {<<a>> : a \in F.pkeys}
              \cup (IF F.plen >= 2 THEN {<<a, b>> : a \in F.pkeys, b \in F.pkeys} ELSE {})
              \cup (IF F.plen >= 3 THEN {<<a, b, c>> : a \in F.pkeys, b \in F.pkeys, c \in F.pkeys} ELSE {})
Code(p) == Len(p) * 1000 + p[1] * 100 + (IF Len(p) >= 2 THEN p[2] * 10 ELSE 0) + (IF Len(p) >= 3 THEN p[3] ELSE 0)
Rev(l) == [i \in 1..Len(l) |-> l[Len(l) + 1 - i]]
Lists(F) ==
  LET P == PathsOf(F)
      one == {<<a>> : a \in P}
      two == {<<y[1], y[2]>> : y \in {x \in P \X P : Code(x[1]) < Code(x[2])}}
      three == {<<y[1], y[2], y[3]>> : y \in {x \in P \X P \X P : Code(x[1]) < Code(x[2]) /\ Code(x[2]) < Code(x[3])}}
      asc == (IF 1 \in F.sizes THEN one ELSE {}) \cup (IF 2 \in F.sizes THEN two ELSE {})
             \cup (IF 3 \in F.sizes THEN three ELSE {})
      ordered == (IF F.ord \in {"asc", "both"} THEN asc ELSE {})
                 \cup (IF F.ord \in {"desc", "both"} THEN {Rev(l) : l \in asc} ELSE {})
  IN ordered \cup (IF F.dup THEN {l \o <<l[1]>> : l \in ordered} ELSE {})

DocsOf == [i \in 1..Len(Fams) |-> Docs(Fams[i])]
ListsOf == [i \in 1..Len(Fams) |-> Lists(Fams[i])]

-----------------------------------------------------------------------------
Init == \E i \in 1..Len(Fams) : \E d \in DocsOf[i] : cs = [fam |-> i, doc |-> d, sels |-> <<>>]
Next == /\ cs.sels = <<>>
        /\ \E l \in ListsOf[cs.fam] : cs' = [cs EXCEPT !.sels = l]
Spec == Init /\ [][Next]_cs

-----------------------------------------------------------------------------
(* (iii) invariants.  Every property is stated over the values shared by one evaluation (TLC caches LET
   definitions), and checked through the single invariant AllInv; Named() makes TLC print which one failed. *)
Chosen == cs.sels # <<>>
Named(name, cond) == IF cond THEN TRUE ELSE Assert(FALSE, name)

\* the parser gives back the key names the user meant (escaped dots)
ParseOK(list) == \A i \in 1..Len(list) :
                   LET p == list[i] IN ParseSel(Unparse(p)) = [j \in 1..Len(p) |-> KeyChars(p[j])]

\* ParseNestedFields = Norm, without repeats
NormOK(n, P) == /\ SeqSet(n) = Norm(P)
                /\ \A i, j \in 1..Len(n) : i # j => n[i] # n[j]
                /\ n # <<>>

\* the declarative functions are the statement
DeclIsStatement(P, d) == RemoveIsExact(P, d) /\ KeepIsExact(P, d)
Untouched(k, r, d) == SubDoc(k, d) /\ SubDoc(r, d)
Idempotent(k, r, P, d) == k = Keep(Norm(P), d) /\ r = Remove(Norm(P), d)

\* residual: with an order-preserving delete the two algorithms ARE the declarative functions
ImplExact(k, r, ek, er) == ek = k /\ er = r
\* Do for an event of the given kind whose Root holds d: `res` is what the algorithm makes of d
DocKinds == {"regular", "child", "child_parent"}
DoResult(kind, res, d) == IF M_AllDocumentKindsFiltered \/ kind = "regular" THEN res ELSE d
\* the result does not depend on the kind of the event that carries the document
KindIndependent(k, r, ek, er, d) == \A kind \in DocKinds : DoResult(kind, ek, d) = k /\ DoResult(kind, er, d) = r
\* faithful: as the code is (D_SwapDelete), they are the declarative functions up to the order of members
ImplFaithful(k, r, mk, mr) == /\ Canon(mk) = Canon(k)
                              /\ Canon(mr) = Canon(r)
                              /\ (~D_SwapDelete => mk = k /\ mr = r)
\* the plugin instance is reused for the next event: every depth buffer is empty again after Do
BuffersClean(run) == BufsEmpty(run.bufs)

\* lemma: the length of the list does not matter - selectors that start with a name the document does not have
PAD1 == 11
PAD2 == 12
PadIrrelevant(k, r, P, d) == /\ Keep(P \cup {<<PAD1>>, <<PAD2, 1>>}, d) = k
                             /\ Remove(P \cup {<<PAD1>>, <<PAD2, 1>>}, d) = r

\* lemma: names matter only through equality.  Two permutations of the names 1..5 (the marker names stay).
Rho(n, k) == IF k \notin 1..5 THEN k
             ELSE IF n = 1 THEN (CASE k = 1 -> 4 [] k = 4 -> 1 [] k = 2 -> 5 [] k = 5 -> 2 [] k = 3 -> 3)
             ELSE (k % 5) + 1
RECURSIVE Ren(_, _)
Ren(n, v) == IF v.f = <<>> THEN v
             ELSE [v EXCEPT !.f = [i \in 1..Len(v.f) |-> <<(IF IsObj(v) THEN Rho(n, v.f[i][1]) ELSE v.f[i][1]), Ren(n, v.f[i][2])>>]]
RenPath(n, p) == [i \in 1..Len(p) |-> Rho(n, p[i])]
RenList(n, l) == [i \in 1..Len(l) |-> RenPath(n, l[i])]
RenameInvariant(k, r, mk, mr, list, d) ==
  \A n \in {1, 2} :
    LET P2 == {RenPath(n, p) : p \in SeqSet(list)}
        d2 == Ren(n, d)
    IN /\ Keep(P2, d2) = Ren(n, k)
       /\ Remove(P2, d2) = Ren(n, r)
       /\ (n = 1 => /\ ImplKeep(D_SwapDelete, RenList(n, list), d2) = Ren(n, mk)
                     /\ ImplRemove(D_SwapDelete, RenList(n, list), d2) = Ren(n, mr))

\* lemma: one never-selected member or two of them at the same place - Keep / Remove commute with the widening
RECURSIVE Widen2(_)
RECURSIVE Widen2Fields(_)
Widen2Fields(fs) == IF fs = <<>> THEN <<>>
                    ELSE (IF Head(fs)[1] = JUNK THEN << <<JUNK, Head(fs)[2]>>, <<JUNK2, Head(fs)[2]>> >>
                          ELSE << <<Head(fs)[1], Widen2(Head(fs)[2])>> >>) \o Widen2Fields(Tail(fs))
Widen2(v) == IF IsObj(v) THEN Obj(Widen2Fields(v.f)) ELSE v
WidthIndependent(k, r, P, d) == HasJunk(d) => /\ Keep(P, Widen2(d)) = Widen2(k)
                                              /\ Remove(P, Widen2(d)) = Widen2(r)

-----------------------------------------------------------------------------
(* (iv) export: leaf -> its code; object -> <<0, k1, v1, k2, v2, ...>>; array -> <<1, e1, e2, ...>> *)
RECURSIVE Enc(_)
RECURSIVE EncFields(_, _)
EncFields(isObj, fs) == IF fs = <<>> THEN <<>>
                        ELSE (IF isObj THEN <<Head(fs)[1], Enc(Head(fs)[2])>> ELSE <<Enc(Head(fs)[2])>>)
                             \o EncFields(isObj, Tail(fs))
Enc(v) == IF v.t = 0 THEN v.v ELSE <<(IF IsObj(v) THEN 0 ELSE 1)>> \o EncFields(IsObj(v), v.f)

\* <<family, document, selector list, expected keep, expected remove, model keep, model remove>>;
\* the last two are what the transcription predicts under D_SwapDelete, 0 when equal to the expectation
ExportRec(d, list, k, r, mk, mr) ==
  <<cs.fam, Enc(d), list, Enc(k), Enc(r), IF mk = k THEN 0 ELSE Enc(mk), IF mr = r THEN 0 ELSE Enc(mr)>>

AllInv ==
  Chosen =>
    LET d == cs.doc
        list == cs.sels
        P == SeqSet(list)
        k == Keep(P, d)
        r == Remove(P, d)
        run == KeepRun(D_SwapDelete, list, d)
        mk == run.node
        mr == ImplRemove(D_SwapDelete, list, d)
        ek == ImplKeep(FALSE, list, d)
        er == ImplRemove(FALSE, list, d)
    IN /\ Named("ParseOK", ParseOK(list))
       /\ Named("NormOK", NormOK(ImplNorm(list), P))
       /\ Named("DeclIsStatement", DeclIsStatement(P, d))
       /\ Named("Untouched", Untouched(k, r, d))
       /\ Named("Idempotent", Idempotent(k, r, P, d))
       /\ Named("ImplExact", ImplExact(k, r, ek, er))
       /\ Named("KindIndependent", KindIndependent(k, r, ek, er, d))
       /\ Named("ImplFaithful", ImplFaithful(k, r, mk, mr))
       /\ Named("BuffersClean", BuffersClean(run))
       /\ Named("WidthIndependent", WidthIndependent(k, r, P, d))
       /\ Named("PadIrrelevant", PadIrrelevant(k, r, P, d))
       /\ Named("RenameInvariant", RenameInvariant(k, r, mk, mr, list, d))
       /\ PrintT("C18 " \o ToJson(ExportRec(d, list, k, r, mk, mr)))

\* the property the spec mutant ~M_DepthBuffersDisjoint must violate (plain invariant, so TLC prints the case)
MutantInv == Chosen => ImplKeep(FALSE, cs.sels, cs.doc) = Keep(SeqSet(cs.sels), cs.doc)
-----------------------------------------------------------------------------
(* two plugin instances (processors) started from one Config, running concurrently *)

\* the buffer operations of one traverseFieldsTree run, in program order (independent of the buffer contents):
\*   push  : fieldsDepthSlice[d-1] = append(fieldsDepthSlice[d-1], k)
\*   flush : the delete loop over fieldsDepthSlice[d-1] on the object at `path` (del = FALSE: the `if` is not taken)
\*   reset : fieldsDepthSlice[d-1] = fieldsDepthSlice[d-1][:0]
BufOp(op, d, k, path, del) == [op |-> op, d |-> d, k |-> k, path |-> path, del |-> del]
RECURSIVE TravOps(_, _, _, _)
RECURSIVE TravOpsLoop(_, _, _, _, _, _, _)
TravOpsLoop(Q, f, i, depth, path, ops, pres) ==
  IF i > Len(f) THEN [ops |-> ops, pres |-> pres]
  ELSE LET k == f[i][1]
           push == BufOp("push", depth + 1, k, <<>>, FALSE)
       IN IF NameFound(k, Q)
            THEN IF Sub(Q, k) = {}
                   THEN TravOpsLoop(Q, f, i + 1, depth, path, ops, TRUE)
                   ELSE LET c == TravOps(Sub(Q, k), f[i][2], depth + 1, Append(path, k))
                        IN IF c.ret THEN TravOpsLoop(Q, f, i + 1, depth, path, ops \o c.ops, TRUE)
                           ELSE TravOpsLoop(Q, f, i + 1, depth, path, Append(ops \o c.ops, push), pres)
            ELSE TravOpsLoop(Q, f, i + 1, depth, path, Append(ops, push), pres)
TravOps(Q, node, depth, path) ==
  IF Q = {} THEN [ops |-> <<>>, ret |-> TRUE]
  ELSE IF ~IsObj(node) THEN [ops |-> <<>>, ret |-> FALSE]
  ELSE LET r == TravOpsLoop(Q, node.f, 1, depth, path, <<>>, FALSE)
       IN [ops |-> r.ops \o << BufOp("flush", depth + 1, 0, path, depth = 0 \/ r.pres),
                               BufOp("reset", depth + 1, 0, <<>>, FALSE) >>,
           ret |-> r.pres]

\* delete the names from the object at `path` of v (order-preserving delete: the residual algorithm)
RECURSIVE DelAt(_, _, _)
DelAt(v, path, names) ==
  IF ~IsObj(v) THEN v
  ELSE IF path = <<>> THEN Obj(DelAll(FALSE, v.f, names))
  ELSE LET i == IndexOfKey(v.f, path[1]) IN
       IF i = 0 THEN v ELSE Obj([v.f EXCEPT ![i] = <<path[1], DelAt(v.f[i][2], Tail(path), names)>>])

\* state of two instances: docs[inst]; per instance and depth the slice (n elements of the array it points into, or,
\* after an append beyond Cap, a private array `own`); arr[owner][depth] the backing arrays allocated at Start
InstOwner(inst) == IF M_BuffersPerInstance THEN inst ELSE 1
InstInit(dA, dB, depthMax) ==
  [docs |-> <<dA, dB>>,
   n    |-> [i \in 1..2 |-> [d \in 1..depthMax |-> 0]],
   priv |-> [i \in 1..2 |-> [d \in 1..depthMax |-> FALSE]],
   own  |-> [i \in 1..2 |-> [d \in 1..depthMax |-> <<>>]],
   arr  |-> [i \in 1..2 |-> [d \in 1..depthMax |-> Zeros(Cap)]]]
InstRead(S, inst, d) == IF S.priv[inst][d] THEN S.own[inst][d]
                        ELSE SubSeq(S.arr[InstOwner(inst)][d], 1, S.n[inst][d])
InstStep(S, inst, o) ==
  CASE o.op = "push" ->
         IF S.priv[inst][o.d] THEN [S EXCEPT !.own[inst][o.d] = Append(@, o.k)]
         ELSE IF S.n[inst][o.d] < Cap
                THEN [S EXCEPT !.arr[InstOwner(inst)][o.d][S.n[inst][o.d] + 1] = o.k, !.n[inst][o.d] = @ + 1]
                ELSE [S EXCEPT !.priv[inst][o.d] = TRUE, !.own[inst][o.d] = Append(InstRead(S, inst, o.d), o.k)]
    [] o.op = "flush" ->
         IF o.del THEN [S EXCEPT !.docs[inst] = DelAt(@, o.path, InstRead(S, inst, o.d))] ELSE S
    [] o.op = "reset" ->
         IF S.priv[inst][o.d] THEN [S EXCEPT !.own[inst][o.d] = <<>>] ELSE [S EXCEPT !.n[inst][o.d] = 0]
RECURSIVE InstRun(_, _, _, _)
InstRun(S, opsA, opsB, sch) ==
  IF sch = <<>> THEN S
  ELSE IF Head(sch) = 1 THEN InstRun(InstStep(S, 1, Head(opsA)), Tail(opsA), opsB, Tail(sch))
  ELSE InstRun(InstStep(S, 2, Head(opsB)), opsA, Tail(opsB), Tail(sch))
RECURSIVE Merges(_, _)
Merges(n, m) == IF n = 0 /\ m = 0 THEN {<<>>}
                ELSE (IF n > 0 THEN {<<1>> \o x : x \in Merges(n - 1, m)} ELSE {})
                     \cup (IF m > 0 THEN {<<2>> \o x : x \in Merges(n, m - 1)} ELSE {})

\* cases of the two-instance model: two documents of the family, one selector list
InitInst == \E i \in 1..Len(Fams) : \E d \in DocsOf[i] : \E d2 \in DocsOf[i] :
              cs = [fam |-> i, doc |-> d, doc2 |-> d2, sels |-> <<>>]
SpecInst == InitInst /\ [][Next]_cs

\* however the buffer operations of the two instances interleave, each gets the declarative Keep of ITS document
InstInv ==
  Chosen =>
    LET list == cs.sels
        P == SeqSet(list)
        paths == ImplNorm(list)
        oa == TravOps(SeqSet(paths), cs.doc, 0, <<>>).ops
        ob == TravOps(SeqSet(paths), cs.doc2, 0, <<>>).ops
        S0 == InstInit(cs.doc, cs.doc2, MaxLen(paths))
        alone == InstRun(S0, oa, <<>>, [i \in 1..Len(oa) |-> 1])
    IN /\ Named("OpsAreTheTraversal", alone.docs[1] = ImplKeep(FALSE, list, cs.doc))
       /\ \A sch \in Merges(Len(oa), Len(ob)) :
            LET R == InstRun(S0, oa, ob, sch) IN R.docs[1] = Keep(P, cs.doc) /\ R.docs[2] = Keep(P, cs.doc2)

\* the property the spec mutant ~M_RemovePerSelector must violate (content, not only order)
MutantScanInv == Chosen => Canon(ImplRemove(TRUE, cs.sels, cs.doc)) = Canon(Remove(SeqSet(cs.sels), cs.doc))
\* the property the spec mutant ~M_AllDocumentKindsFiltered must violate
MutantKindInv == Chosen => KindIndependent(Keep(SeqSet(cs.sels), cs.doc), Remove(SeqSet(cs.sels), cs.doc),
                                           ImplKeep(FALSE, cs.sels, cs.doc), ImplRemove(FALSE, cs.sels, cs.doc), cs.doc)

-----------------------------------------------------------------------------
(* scopes.  Names: 1 = a, 2 = b, 3 = "a.b", 4 = "a.b.a", 5 = "b.a".  A family is documents x selector lists. *)
AllLeaves == {1, 2, 3, 4, 5, 6}
Fam(keys, K, N, leaves, pkeys, plen, sizes, ord, dup) ==
  [keys |-> keys, K |-> K, N |-> N, leaves |-> leaves, pkeys |-> pkeys, plen |-> plen, sizes |-> sizes, ord |-> ord, dup |-> dup]

QuickFams == <<
  \* 1: three names, up to 3 members at the root, 3 in the document, depth 3; 1-2 selectors of length <= 3, long first
  Fam({1, 2, 3}, <<3, 2, 2>>, 3, {1}, {1, 2, 3}, 3, {1, 2}, "desc", FALSE),
  \* 2: three names, 4 members, two selectors of length <= 2 (nested vs dotted name, siblings at one depth)
  Fam({1, 2, 3}, <<2, 2, 2>>, 4, {1}, {1, 2, 3}, 2, {2}, "asc", FALSE),
  \* 3: names a, b; branching documents up to 5 members; exactly 3 selectors of length <= 3
  Fam({1, 2}, <<2, 2, 2>>, 5, {1}, {1, 2}, 3, {3}, "asc", FALSE),
  \* 4, 5: every leaf kind at every position of tiny documents (paths through scalars / arrays / empty objects)
  Fam({1, 2, 3}, <<2, 1>>, 2, AllLeaves, {1, 2, 3}, 3, {1}, "asc", TRUE),
  Fam({1, 2, 3}, <<2, 1>>, 2, AllLeaves, {1, 2, 3}, 2, {2}, "desc", FALSE),
  \* 6, 7: wide objects over four names (two of them dotted): order of survivors, flat and nested selectors
  Fam({1, 2, 3, 4}, <<4, 2>>, 4, {1}, {1, 2, 3, 4}, 1, {1, 2, 3}, "both", FALSE),
  Fam({1, 2, 3, 4}, <<3, 2>>, 4, {1}, {1, 3, 4}, 2, {1, 2}, "asc", FALSE),
  \* 8: flat objects with up to 5 members (three dotted names), 1-3 one-element selectors: order after several deletions
  Fam({1, 2, 3, 4, 5}, <<5>>, 5, {1}, {1, 2, 3, 4, 5}, 1, {1, 2, 3}, "both", FALSE),
  \* 9, 10: WIDE: documents with the marker member (widened by the harness) before / after / inside nested objects
  Fam({1, 2, JUNK}, <<3, 2>>, 5, {1}, {1, 2}, 2, {1, 2}, "asc", FALSE),
  Fam({1, 2, JUNK}, <<2, 2, 2>>, 5, {1}, {1, 2}, 3, {1}, "asc", FALSE)
>>

ThoroughFams == <<
  Fam({1, 2, 3}, <<3, 2, 2>>, 4, {1}, {1, 2, 3}, 3, {1, 2}, "desc", FALSE),
  Fam({1, 2, 3}, <<2, 2, 2>>, 5, {1}, {1, 2, 3}, 2, {2}, "asc", FALSE),
  Fam({1, 2}, <<2, 2, 2>>, 5, {1}, {1, 2}, 3, {3}, "both", FALSE),
  Fam({1, 2, 3}, <<2, 1>>, 2, AllLeaves, {1, 2, 3}, 3, {1, 2}, "asc", TRUE),
  Fam({1, 2, 3, 4}, <<4, 2>>, 4, {1}, {1, 2, 3, 4}, 2, {1, 2}, "both", FALSE),
  Fam({1, 2, 3, 4}, <<4, 2>>, 4, {1}, {1, 2, 3, 4}, 2, {3}, "asc", FALSE),
  \* three selectors over three names on the smallest documents (normalisation, parse, trie shapes)
  Fam({1, 2, 3}, <<2, 2, 2>>, 3, {1}, {1, 2, 3}, 3, {3}, "desc", FALSE),
  Fam({1, 2, 3, 4, 5}, <<5>>, 5, {1}, {1, 2, 3, 4, 5}, 1, {1, 2, 3}, "both", FALSE),
  Fam({1, 2, JUNK}, <<3, 3, 2>>, 5, {1}, {1, 2}, 3, {1, 2}, "asc", FALSE)
>>

\* scope of the spec mutant "delete while scanning by index": flat documents, two root selectors
ScanFams == << Fam({1, 2, 3}, <<3>>, 3, {1}, {1, 2, 3}, 1, {2}, "asc", FALSE) >>

\* scope of the two-instance model and of its mutant (Cap = 2)
InstFams == << Fam({1, 2}, <<2, 2>>, 3, {1}, {1, 2}, 2, {1}, "asc", FALSE) >>

\* scope of the spec mutant "shared backing array" (Cap = 2): 4 members at the root, a nested object after them
MutantFams == << Fam({1, 2, 3, 4}, <<4, 2>>, 5, {1}, {1, 2, 3, 4}, 2, {1}, "asc", FALSE) >>
=============================================================================
