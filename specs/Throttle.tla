------------------------------ MODULE Throttle ------------------------------
(* C16 -- the throttle action's in-memory limiter (plugin/action/throttle: throttle.go
   Plugin.isAllowed, in_memory_limiter.go isAllowed/getDistrData, buckets.go rebuildBuckets,
   distribution.go parseLimitDistribution), transcribed step by step, together with the
   declarative statement of the listed property:

     per throttle key and bucket interval the events let through (count, or total size) stay within
     the limit of the key's rule; an event timed outside the retained window counts against the
     newest bucket; with a limit distribution every listed value stays within its share and the
     total within the sum of the shares; no event is rejected while its key's bucket is under its
     limit; keys never share a budget.

   Time is an integer in units of bucket_interval (bucket id = time).  One behaviour = one CASE
   (buckets_count, limit kind, distribution on/off, limit per key, event alphabet) plus a history
   of cs.N events (key, clock advance before the event, event-time offset from the clock, size,
   distribution value).  The case and the history are state variables, so every history is a
   distinct state and is exported (Export) with the expected decision of every step for replay
   against the real inMemoryLimiter and the real Plugin.Do.

   The explored space is a union of SLICES (QuickSlices / ThoroughSlices below); a slice fixes the
   number of keys, the history length and the alphabets, so that each mechanism (ring rotation and
   re-mapping; two keys; size kind; distribution and stealing; ...) is explored exhaustively in a
   scope of its own instead of in one unaffordable product.

   Named deviations of the code from an ideal throttle, kept as they are:
     * counters count ARRIVALS, not passes: a rejected event still occupies budget (add, then
       compare).  For kind "size" a small event can therefore be rejected although the passed
       total plus its size would still fit.  The property does not decide that step ("open").
     * bucketsMeta.minID = 0 doubles as "not initialised"; bucket ids of wall-clock times are far
       from 0 (Base below), so the sentinel is transcribed literally and never collides.
     * the retained window is anchored at the newest clock reading the key's limiter has SEEN
       (rebuild runs only when an event of that key arrives), not at a global clock.
     * limiter expiry: limitersMap.maintenance (action Maintain, every maintenanceInterval) stamps
       the map with a new generation = the wall clock, WHETHER OR NOT the map is empty (mechanism
       M_GenAdvancesWhenEmpty), and forgets every limiter whose own generation -- refreshed by
       getOrAdd on every use -- is limiter_expiration or more behind.  An IDLE key thus loses its
       counters (and may pass a second limit in a still running bucket: outside the statement's
       retained window, accepted); a key that keeps arriving never does (BusyKeyWithinLimit).
       Expiry is off (cs.E = 0) in the replayed slices -- the step-by-step replay uses a long
       limiter_expiration -- and on in ExpirySlices; the real maintenance loop is exercised by the
       harness' real-time expiry family.
     * negative limit = unlimited is outside the statement (limits >= 0) and not modelled.

   Mut selects a spec mutant (a mechanism of the anchored code disabled); "none" is the faithful
   transcription.  The check runs TLC on every mutant and expects an invariant violation, which
   shows that the invariants below are not vacuous.                                              *)
EXTENDS Integers, Sequences, FiniteSets, TLC, Json

CONSTANTS Slices,    \* the slices to explore (<- QuickSlices | ThoroughSlices | MutantSlices | ...)
          Mut        \* "none" | "lt" | "nozero" | "wipeprev" | "rot1" | "rotdif" | "noremap" | "future" | "shared" | "steal" | "nogen" | "orphan" | "emptyskip" | "permvals" | "keytrunc"

Base == 100          \* bucket id of the first clock reading (any value far from 0)

VARIABLES cs,        \* the case: [sl, NK, N, C, kind, dist, lim, steps, offs, ws, E]
          hist,      \* history: one record per event, see Arrive
          now,       \* wall clock (bucket units)
          lims,      \* per key: the limiter  [minID, maxID, cnt]  (cnt[idx][share], idx 0-based as b.b)
          passed,    \* history per key: <<bucket id, share>> -> passed events/size  (charged share)
          arrived,   \* history per key: <<bucket id, share>> -> arrived events/size (charged share)
          gm,        \* concurrent getOrAdd model (SpecMap below); constant <<>> under Spec
          rs,        \* rule selection model (SpecRule below); constant <<>> under Spec
          ks,        \* limiter key model (SpecKey below); constant <<>> under Spec
          ex         \* limiters map: [tick = wall clock in maintenance intervals, cur = map generation
                     \*   (curGen: the tick of the last stamping), gen[k] = limiter's generation (-1: no
                     \*   limiter), last[k] = tick of k's last event (-1: none), busy[k] = since its first
                     \*   event k had an event in every maintenance interval (history)]

vars == <<cs, hist, now, lims, passed, arrived, ex, gm, rs, ks>>

-----------------------------------------------------------------------------
(* slices.  nk keys; n events; counts = buckets_count values; limits per key; kinds 0 = count,
   1 = size; weights = event sizes (kind size); dists 0 = none, 1 = ratios 0.5/0.25 + default share;
   clock advance before an event: sb (absolute) or C + r for r in sr or backwards by s in back;
   event time = clock - p for p in op with p <= C (p = C is the first bucket outside the window), or
   clock + f for f in of *)
Sl(id, nk, n, counts, limits, kinds, weights, dists, sb, sr, back, op, of) ==
  [id |-> id, nk |-> nk, n |-> n, counts |-> counts, limits |-> limits, kinds |-> kinds,
   weights |-> weights, dists |-> dists, sb |-> sb, sr |-> sr, back |-> back, op |-> op, of |-> of,
   exps |-> {0}]          \* limiter_expiration in maintenance intervals; 0 = expiry off

QuickSlices == {
  Sl("ring",  1, 3, {1, 2, 3}, {0, 1, 2}, {0}, {1},    {0}, {0, 1, 2}, {0, 1}, {}, {0, 1, 2, 3}, {1}),
  Sl("keys",  2, 3, {2},       {1, 2},    {0}, {1},    {0}, {0, 1},    {0},    {}, {0, 1, 2},    {}),
  Sl("size",  1, 3, {2},       {1, 2, 3}, {1}, {1, 2}, {0}, {0, 1, 2}, {},     {}, {0, 1, 2},    {}),
  Sl("dist",  1, 4, {1},       {1, 2, 4}, {0}, {1},    {1}, {0, 1},    {},     {}, {0, 1},       {}),
  Sl("dsize", 1, 4, {1},       {2, 4},    {1}, {1, 2}, {1}, {0, 1},    {},     {}, {0},          {}),
  \* distributed buckets have their own ring code: partial rotation, then late events in retained buckets
  Sl("drot",  1, 3, {2, 3},    {2, 4},    {0}, {1},    {1}, {0, 1},    {},     {}, {0, 1, 2},    {}) }

ThoroughSlices == {
  Sl("ring",  1, 4, {1, 2, 3}, {0, 1, 2}, {0}, {1},    {0}, {0, 1, 2}, {0, 1}, {}, {0, 1, 2, 3}, {1}),
  Sl("far",   1, 3, {2, 4},    {1},       {0}, {1},    {0}, {0, 1, 3}, {0, 2}, {}, {0, 1, 2, 3, 4}, {1, 4}),
  Sl("keys",  2, 4, {1, 2},    {1, 2},    {0}, {1},    {0}, {0, 1},    {0},    {}, {0, 1, 2},    {}),
  Sl("keys0", 2, 3, {2},       {0, 1, 2}, {0}, {1},    {0}, {0, 1},    {0},    {}, {0, 1, 2},    {1}),
  Sl("size",  1, 4, {1, 2},    {1, 2, 3}, {1}, {1, 2}, {0}, {0, 1, 2}, {},     {}, {0, 1, 2},    {}),
  Sl("dist",  1, 5, {1},       {1, 2, 4}, {0}, {1},    {1}, {0, 1},    {},     {}, {0, 1},       {}),
  Sl("dist2", 1, 4, {2},       {2, 3, 4}, {0}, {1},    {1}, {0, 2},    {},     {}, {0, 1},       {}),
  Sl("drot",  1, 4, {2, 3},    {2},       {0}, {1},    {1}, {0, 1},    {},     {}, {0, 1, 2},    {}),
  Sl("drot3", 1, 3, {2, 3},    {2, 4},    {0}, {1},    {1}, {0, 1, 2}, {},     {}, {0, 1, 2},    {1}),
  Sl("dsrot", 1, 3, {2},       {2, 4},    {1}, {1, 2}, {1}, {0, 1},    {},     {}, {0, 1},       {}),
  Sl("dsize", 1, 5, {1},       {2, 4},    {1}, {1, 2}, {1}, {0, 1},    {},     {}, {0},          {}),
  Sl("dkeys", 2, 4, {1},       {2},       {0}, {1},    {1}, {0, 1},    {},     {}, {0},          {}) }

(* a non-monotone clock is outside the statement's quantifier ("clock advances"); explored at design
   level, and replayed for MODEL-DRIFT warnings only *)
BackSlices == {
  Sl("back",  1, 4, {2},       {1},       {0}, {1},    {0}, {0, 1, 2}, {},     {1}, {0, 1, 2},   {1}) }

(* expiry on: events of two keys interleaved with maintenance rounds (design level; the real
   maintenance loop runs on the wall clock and is exercised by the harness' real-time family) *)
ExpirySlices == {
  [Sl("exp",  2, 6, {1},       {1},       {0}, {1},    {0}, {0, 1},    {},     {}, {0},          {}) EXCEPT !.exps = {2, 3}] }

(* small scopes in which every spec mutant must violate an invariant *)
MutantSlices == {
  Sl("mring", 1, 3, {1, 3},    {1},       {0}, {1},    {0}, {0, 1, 2}, {0, 1}, {}, {0, 1, 2, 3}, {1}),
  Sl("mkeys", 2, 2, {1},       {1},       {0}, {1},    {0}, {0},       {},     {}, {0},          {}),
  Sl("mdsz",  1, 2, {1},       {2},       {1}, {1, 2}, {1}, {0},       {},     {}, {0},          {}) }

-----------------------------------------------------------------------------
(* helpers *)
MinI(a, b) == IF a < b THEN a ELSE b
MaxI(a, b) == IF a > b THEN a ELSE b
RECURSIVE SumSeq(_)
SumSeq(s) == IF s = <<>> THEN 0 ELSE Head(s) + SumSeq(Tail(s))
Get(f, x) == IF x \in DOMAIN f THEN f[x] ELSE 0
Bump(f, x, d) == IF x \in DOMAIN f THEN [f EXCEPT ![x] = @ + d] ELSE f @@ (x :> d)
Last(s) == s[Len(s)]
Keys == 1..cs.NK

(* distribution.go parseLimitDistribution: per-value limit = round(ratio * limit); the default share's
   ratio is round((1 - sum) * 100) / 100.  Ratios in percent; math.Round = half away from zero. *)
ListedPct == <<50, 25>>
NListed(dist) == IF dist = 0 THEN 0 ELSE Len(ListedPct)
Shares(dist) == 0..NListed(dist)                 \* 0 = default share (or the only counter)
RoundPct(p, L) == (2 * p * L + 100) \div 200
DefPct == 100 - SumSeq(ListedPct)
ShareLimit(L, dist, sh) ==
  IF dist = 0 THEN L
  ELSE IF sh = 0 THEN RoundPct(DefPct, L) ELSE RoundPct(ListedPct[sh], L)
SumLimit(L, dist) == SumSeq([i \in 1..(NListed(dist) + 1) |-> ShareLimit(L, dist, i - 1)])

-----------------------------------------------------------------------------
(* the implementation, as pure step functions so that the same text serves the action and the
   single-key re-run of KeysIndependent *)

NewLimiter(C, dist) ==            \* newInMemoryLimiter / newBuckets
  [minID |-> 0, maxID |-> 0, cnt |-> [i \in 0..(C - 1) |-> [s \in Shares(dist) |-> 0]]]

(* resetFn(n): b.b = append(b.b[n:], b.b[:n]...); reset the last n *)
Rotate(cnt, n, C) ==
  [i \in 0..(C - 1) |->
     IF i < C - n /\ ~(Mut = "wipeprev" /\ i = C - n - 1) THEN cnt[i + n]
     ELSE IF Mut = "nozero" THEN cnt[i + n - C]
     ELSE [s \in DOMAIN cnt[i] |-> 0]]

(* buckets.go rebuildBuckets(meta, resetFn, currentTs, ts) -> bucket id *)
Rebuild(st, C, cur, ts) ==
  LET s1 == IF st.minID = 0 THEN [st EXCEPT !.maxID = cur, !.minID = cur - C + 1] ELSE st
      maxID == s1.minID + C - 1
      s2 == IF cur > maxID
              THEN LET dif == cur - maxID
                       n == CASE Mut = "rot1" -> 1
                              [] Mut = "rotdif" -> MinI(dif + 1, C)
                              [] OTHER -> MinI(dif, C)
                   IN [s1 EXCEPT !.cnt = Rotate(s1.cnt, n, C), !.minID = s1.minID + dif, !.maxID = cur]
              ELSE s1
      id == CASE Mut = "noremap" /\ ts < s2.minID -> s2.minID
              [] Mut = "future" /\ ts > s2.maxID -> s2.minID
              [] ts < s2.minID \/ ts > s2.maxID -> s2.maxID
              [] OTHER -> ts
  IN [st |-> s2, id |-> id]

(* in_memory_limiter.go getDistrData: the loop over the listed distributions *)
RECURSIVE StealLoop(_, _, _, _, _, _, _)
StealLoop(i, n, row, w, L, dist, acc) ==
  IF i > n THEN acc
  ELSE LET curDiff == ShareLimit(L, dist, i) - (row[i] + w)
       IN IF curDiff > acc.maxDiff
            THEN StealLoop(i + 1, n, row, w, L, dist, [maxDiff |-> curDiff, idx |-> i, limit |-> ShareLimit(L, dist, i)])
            ELSE StealLoop(i + 1, n, row, w, L, dist, acc)

GetDistrData(row, w, v, L, dist) ==
  IF v > 0 THEN [idx |-> v, limit |-> ShareLimit(L, dist, v)]
  ELSE IF row[0] + w <= ShareLimit(L, dist, 0) THEN [idx |-> 0, limit |-> ShareLimit(L, dist, 0)]
  ELSE LET r == StealLoop(1, NListed(dist), row, w, L, dist,
                          [maxDiff |-> IF Mut = "steal" THEN -3 ELSE -1, idx |-> 0, limit |-> ShareLimit(L, dist, 0)])
       IN [idx |-> r.idx, limit |-> r.limit]

(* inMemoryLimiter.isAllowed(event, ts) under l.mu: one critical section *)
IsAllowed(st, C, dist, L, cur, ts, w, v) ==
  LET rb == Rebuild(st, C, cur, ts)
      index == rb.id - rb.st.minID
      dd == IF dist # 0 THEN GetDistrData(rb.st.cnt[index], w, v, L, dist)
            ELSE [idx |-> 0, limit |-> L]
      cnt2 == [rb.st.cnt EXCEPT ![index][dd.idx] = @ + w]                  \* add ...
      ok == IF Mut = "lt" THEN cnt2[index][dd.idx] < dd.limit
            ELSE cnt2[index][dd.idx] <= dd.limit                         \* ... then compare
  IN [st |-> [rb.st EXCEPT !.cnt = cnt2], id |-> rb.id, sh |-> dd.idx, ok |-> ok]

-----------------------------------------------------------------------------
(* the declarative side, over the history only *)

(* newest clock reading seen by key k, the present one included *)
Hi(h, k, cur) ==
  LET own == SelectSeq(h, LAMBDA e : e.k = k)
  IN IF own = <<>> THEN cur ELSE MaxI(cur, Last(own).hi)

(* bucket an event of key k with time ts is charged to: its own if inside the retained window
   (the buckets_count newest intervals), otherwise the newest *)
Charged(h, k, cur, ts, C) ==
  LET hi == Hi(h, k, cur) IN IF ts >= hi - C + 1 /\ ts <= hi THEN ts ELSE hi

(* arrived / passed weight of key k in bucket b with distribution VALUE v (0 = any unlisted value) *)
WSum(s) == SumSeq([i \in 1..Len(s) |-> s[i].w])
ArrV(h, k, b, v) == WSum(SelectSeq(h, LAMBDA e : e.k = k /\ e.b = b /\ e.v = v))
PasV(h, k, b, v) == WSum(SelectSeq(h, LAMBDA e : e.k = k /\ e.b = b /\ e.v = v /\ e.ok))
PasAll(h, k, b, dist) == SumSeq([i \in 1..(NListed(dist) + 1) |-> PasV(h, k, b, i - 1)])

(* What the statement demands of the decision for the next event, given the history so far.
   An unlisted value may be charged to any share (the default share "steals"), but only an event
   that PASSED can have been charged to a listed share; so a listed share is known to have room if
   it has room even when every passed unlisted event was charged to it.  Rejected events of the
   same value do occupy budget (arrivals are counted, see the deviations above).
   1 = must pass, 0 = must be rejected, 2 = the statement leaves it open. *)
MustPass(h, k, b, w, v, L, dist) ==
  IF dist = 0 THEN ArrV(h, k, b, 0) + w <= L
  ELSE IF v > 0 THEN ArrV(h, k, b, v) + PasV(h, k, b, 0) + w <= ShareLimit(L, dist, v)
  ELSE \/ ArrV(h, k, b, 0) + w <= ShareLimit(L, dist, 0)
       \/ \E j \in 1..NListed(dist) : ArrV(h, k, b, j) + PasV(h, k, b, 0) + w <= ShareLimit(L, dist, j)
MustReject(h, k, b, w, v, L, dist) ==
  IF dist = 0 THEN PasV(h, k, b, 0) + w > L
  ELSE \/ v > 0 /\ PasV(h, k, b, v) + w > ShareLimit(L, dist, v)
       \/ PasAll(h, k, b, dist) + w > SumLimit(L, dist)
Must(h, k, b, w, v, L, dist) ==
  IF MustPass(h, k, b, w, v, L, dist) THEN 1 ELSE IF MustReject(h, k, b, w, v, L, dist) THEN 0 ELSE 2

-----------------------------------------------------------------------------
Init ==
  /\ \E sl \in Slices : \E C \in sl.counts : \E kind \in sl.kinds : \E dist \in sl.dists :
       \E lim \in [1..sl.nk -> sl.limits] : \E E \in sl.exps :
        cs = [sl |-> sl.id, E |-> E, NK |-> sl.nk, N |-> sl.n, C |-> C, kind |-> kind, dist |-> dist, lim |-> lim,
              steps |-> sl.sb \cup {C + r : r \in sl.sr} \cup {0 - s : s \in sl.back},
              offs |-> {0 - p : p \in {q \in sl.op : q <= C}} \cup sl.of,
              ws |-> IF kind = 1 THEN sl.weights ELSE {1}]
  /\ hist = <<>>
  /\ now = Base
  /\ lims = [k \in Keys |-> NewLimiter(cs.C, cs.dist)]
  /\ passed = [k \in Keys |-> <<>>]
  /\ arrived = [k \in Keys |-> <<>>]
  /\ ex = [tick |-> 0, cur |-> 0, gen |-> [k \in Keys |-> -1], last |-> [k \in Keys |-> -1],
           busy |-> [k \in Keys |-> TRUE]]
  /\ gm = <<>> /\ rs = <<>> /\ ks = <<>>

(* the clock advances by step, then an event of key k with time now+off, size w and distribution
   value v reaches Plugin.isAllowed: first matching rule -> limitersMap.getOrAdd(rule prefix + key)
   -> that limiter's isAllowed; getOrAdd stamps the limiter with the map's generation.
   (\E x \in {e} : ... makes TLC evaluate e once.) *)
Arrive(k, step, off, w, v) ==
  LET cur == now + step
      ts == cur + off
      lk == IF Mut = "shared" THEN 1 ELSE k
  IN \E r \in {IsAllowed(lims[lk], cs.C, cs.dist, cs.lim[k], cur, ts, w, v)} :
     \E b \in {Charged(hist, k, cur, ts, cs.C)} :
       /\ now' = cur
       /\ lims' = [lims EXCEPT ![lk] = r.st]
       /\ hist' = Append(hist, [k |-> k, now |-> cur, ts |-> ts, w |-> w, v |-> v,
                                hi |-> Hi(hist, k, cur), b |-> b,
                                must |-> Must(hist, k, b, w, v, cs.lim[k], cs.dist),
                                id |-> r.id, sh |-> r.sh, ok |-> r.ok])
       /\ arrived' = [arrived EXCEPT ![k] = Bump(@, <<r.id, r.sh>>, w)]
       /\ passed' = [passed EXCEPT ![k] = IF r.ok THEN Bump(@, <<r.id, r.sh>>, w) ELSE @]
       /\ ex' = [ex EXCEPT !.gen[k] = IF Mut = "nogen" /\ @ >= 0 THEN @ ELSE ex.cur, !.last[k] = ex.tick]
       /\ UNCHANGED <<cs, gm, rs, ks>>

(* limitersMap.maintenance, one round under l.mu: curGen := now; delete every limiter with
   now - gen >= limitersExp.  (Recorded in hist with key 0 so that schedules stay distinct.) *)
M_GenAdvancesWhenEmpty == Mut # "emptyskip"
Maintain ==
  LET t2 == ex.tick + 1
      skip == ~M_GenAdvancesWhenEmpty /\ \A k \in Keys : ex.gen[k] = -1     \* mutant: "nothing to clean up"
      gone == IF skip THEN {} ELSE {k \in Keys : ex.gen[k] >= 0 /\ t2 - ex.gen[k] >= cs.E}
  IN /\ cs.E > 0
     /\ lims' = [k \in Keys |-> IF k \in gone THEN NewLimiter(cs.C, cs.dist) ELSE lims[k]]
     /\ ex' = [tick |-> t2,
               cur |-> IF skip THEN ex.cur ELSE t2,
               gen |-> [k \in Keys |-> IF k \in gone THEN -1 ELSE ex.gen[k]],
               last |-> ex.last,
               busy |-> [k \in Keys |-> ex.busy[k] /\ (ex.last[k] = -1 \/ ex.last[k] = ex.tick)]]
     /\ hist' = Append(hist, [k |-> 0, now |-> now, ts |-> now, w |-> 0, v |-> 0, hi |-> 0, b |-> 0,
                              must |-> 2, id |-> 0, sh |-> 0, ok |-> TRUE])
     /\ UNCHANGED <<cs, now, passed, arrived, gm, rs, ks>>

Next ==
  /\ Len(hist) < cs.N
  /\ \/ \E k \in Keys : \E step \in cs.steps : \E off \in cs.offs : \E w \in cs.ws : \E v \in Shares(cs.dist) :
          Arrive(k, step, off, w, v)
     \/ Maintain

Spec == Init /\ [][Next]_vars

-----------------------------------------------------------------------------
(* invariants *)
SL(k, sh) == ShareLimit(cs.lim[k], cs.dist, sh)

TypeOK ==
  /\ Len(hist) <= cs.N
  /\ \A k \in Keys : DOMAIN lims[k].cnt = 0..(cs.C - 1)

(* the ring and its ids: maxID - minID + 1 = buckets_count, maxID = newest clock reading seen *)
RingConsistent ==
  \A k \in Keys : lims[k].minID # 0 =>
     /\ lims[k].maxID = lims[k].minID + cs.C - 1
     /\ lims[k].maxID = Hi(hist, k, 0)

(* a retained counter holds exactly the arrivals charged to its bucket id and share *)
CountersAreArrivals ==
  \A k \in Keys : lims[k].minID # 0 =>
     \A i \in 0..(cs.C - 1) : \A s \in Shares(cs.dist) :
        lims[k].cnt[i][s] = Get(arrived[k], <<lims[k].minID + i, s>>)

(* DESIGN C16, by charged share *)
NeverOverLimit ==
  \A k \in Keys : \A x \in DOMAIN passed[k] : passed[k][x] <= SL(k, x[2])

TotalWithinSum ==
  \A k \in Keys : \A b \in {x[1] : x \in DOMAIN passed[k]} :
     SumSeq([i \in 1..(NListed(cs.dist) + 1) |-> Get(passed[k], <<b, i - 1>>)]) <= SumLimit(cs.lim[k], cs.dist)

(* checked for the event just decided; every prefix of every history is a state *)
NoEarlyReject ==
  hist # <<>> =>
    LET e == Last(hist) IN
      ~e.ok =>
        /\ Get(arrived[e.k], <<e.id, e.sh>>) > SL(e.k, e.sh)
        /\ (cs.dist # 0 /\ e.v = 0) =>
              /\ e.sh = 0
              /\ \A j \in 1..NListed(cs.dist) : Get(arrived[e.k], <<e.id, j>>) + e.w > SL(e.k, j)

(* an event whose time is outside [minID, maxID] is charged to maxID; inside, to its own bucket:
   the implementation's bucket id is the declaratively charged one *)
Remap == \A i \in 1..Len(hist) : hist[i].id = hist[i].b

(* expiry on: a key that keeps arriving (from its first event on, an event in every maintenance
   interval -- however long the map was empty before) never loses its
   counters, so it stays within the limit per bucket and share whatever the maintenance schedule *)
BusyKeyWithinLimit ==
  \A k \in Keys : ex.busy[k] => \A x \in DOMAIN passed[k] : passed[k][x] <= SL(k, x[2])

(* a limiter is forgotten only after limiter_expiration without use *)
EvictedOnlyIdle ==
  \A k \in Keys : (ex.last[k] >= 0 /\ ex.gen[k] = -1) => ex.tick - ex.last[k] >= cs.E

(* the statement itself, by distribution VALUE, for the bucket just touched *)
ValueWithinShare ==
  hist # <<>> =>
    LET e == Last(hist) IN
      /\ \A v \in Shares(cs.dist) : (v > 0 \/ cs.dist = 0) => PasV(hist, e.k, e.b, v) <= SL(e.k, v)
      /\ PasAll(hist, e.k, e.b, cs.dist) <= SumLimit(cs.lim[e.k], cs.dist)

(* the transcription takes the decision the statement demands wherever it demands one *)
MustRespected ==
  hist # <<>> =>
    LET e == Last(hist) IN (e.must = 1 => e.ok) /\ (e.must = 0 => ~e.ok)

(* the decisions for key k are a function of the sub-history of key k: re-running the limiter on
   k's events alone (same clock readings, same event times) gives the same decisions *)
RECURSIVE RunAlone(_, _, _)
RunAlone(own, st, k) ==
  IF own = <<>> THEN <<>>
  ELSE LET e == Head(own)
           r == IsAllowed(st, cs.C, cs.dist, cs.lim[k], e.now, e.ts, e.w, e.v)
       IN <<r.ok>> \o RunAlone(Tail(own), r.st, k)

KeysIndependent ==
  \A k \in Keys :
     LET own == SelectSeq(hist, LAMBDA e : e.k = k)
     IN [i \in 1..Len(own) |-> own[i].ok] = RunAlone(own, NewLimiter(cs.C, cs.dist), k)

-----------------------------------------------------------------------------
(* SpecMap -- limitersMap.getOrAdd under concurrency.  The processors of one pipeline each own a
   Plugin instance, all instances share the pipeline's limitersMap (throttle.go Start:
   limiters[p.pipeline]).  getOrAdd is a two-phase lookup; its steps, per caller:
     GFast  under l.mu.RLock : key present -> that limiter, else a miss (lock released!)
     GSlow  under l.mu.Lock  : re-check; present -> THE STORED limiter (mechanism
                               M_ReturnStoredLimiter); absent -> build, insert, return it
     GUse   under the limiter's own mutex : isAllowed -- add, then compare
   Several callers can miss in GFast for a brand-new key before any of them reaches GSlow.  With the
   mechanism off (Mut = "orphan": the loser returns a limiter it built itself) every loser checks its
   event against a private empty limiter and one key gets several budgets.
   Frozen clock, one bucket, count kind, limit GL; each of GP processors handles GE events, each for
   any of GK keys.  Variables of the sequential part are constant here. *)
M_ReturnStoredLimiter == Mut # "orphan"
GP == 3
GE == 2
GK == 2
GL == 1
GProcs == 1..GP

InitMap ==
  /\ cs = [sl |-> "map", NK |-> 0, N |-> 0, C |-> 1, kind |-> 0, dist |-> 0, lim |-> <<>>,
            steps |-> {}, offs |-> {}, ws |-> {}, E |-> 0]
  /\ hist = <<>> /\ now = Base /\ lims = <<>> /\ passed = <<>> /\ arrived = <<>> /\ ex = <<>> /\ rs = <<>> /\ ks = <<>>
  /\ gm = [map |-> <<>>,                          \* l.lims : key -> limiter id
           cnt |-> <<>>,                          \* limiter id -> bucket counter
           next |-> 1,                            \* next limiter id
           pk |-> [k \in 1..GK |-> 0],            \* history: passed per key (one bucket)
           ak |-> [k \in 1..GK |-> 0],            \* history: arrived per key
           early |-> FALSE,                       \* history: some event rejected with arrivals <= limit
           pc |-> [p \in GProcs |-> "idle"], key |-> [p \in GProcs |-> 0], lim |-> [p \in GProcs |-> 0],
           done |-> [p \in GProcs |-> 0]]

GStart(p, k) ==
  /\ gm.pc[p] = "idle" /\ gm.done[p] < GE
  /\ gm' = [gm EXCEPT !.pc[p] = "fast", !.key[p] = k]

GFast(p) ==
  /\ gm.pc[p] = "fast"
  /\ gm' = IF gm.key[p] \in DOMAIN gm.map
             THEN [gm EXCEPT !.pc[p] = "use", !.lim[p] = gm.map[gm.key[p]]]
             ELSE [gm EXCEPT !.pc[p] = "slow"]

GSlow(p) ==
  /\ gm.pc[p] = "slow"
  /\ LET k == gm.key[p] IN
       gm' = IF k \in DOMAIN gm.map
               THEN IF M_ReturnStoredLimiter
                      THEN [gm EXCEPT !.pc[p] = "use", !.lim[p] = gm.map[k]]
                      ELSE [gm EXCEPT !.pc[p] = "use", !.lim[p] = gm.next, !.next = @ + 1,
                                      !.cnt = @ @@ (gm.next :> 0)]
               ELSE [gm EXCEPT !.pc[p] = "use", !.lim[p] = gm.next, !.next = @ + 1,
                               !.cnt = @ @@ (gm.next :> 0), !.map = @ @@ (k :> gm.next)]

GUse(p) ==
  /\ gm.pc[p] = "use"
  /\ LET k == gm.key[p]
         c == gm.cnt[gm.lim[p]] + 1
         ok == c <= GL
     IN gm' = [gm EXCEPT !.cnt[gm.lim[p]] = c, !.pc[p] = "idle", !.done[p] = @ + 1,
                         !.ak[k] = @ + 1, !.pk[k] = IF ok THEN @ + 1 ELSE @,
                         !.early = @ \/ (~ok /\ gm.ak[k] + 1 <= GL)]

NextMap ==
  /\ \E p \in GProcs : (\E k \in 1..GK : GStart(p, k)) \/ GFast(p) \/ GSlow(p) \/ GUse(p)
  /\ UNCHANGED <<cs, hist, now, lims, passed, arrived, ex, rs, ks>>

SpecMap == InitMap /\ [][NextMap]_vars

(* one key, one budget per bucket, however many processors meet at a brand-new key *)
MapNeverOverLimit == \A k \in 1..GK : gm.pk[k] <= GL
MapNoEarlyReject == ~gm.early
(* every caller works on the limiter stored for its key *)
MapOneLimiterPerKey ==
  \A p \in GProcs : gm.pc[p] = "use" => (gm.key[p] \in DOMAIN gm.map /\ gm.lim[p] = gm.map[gm.key[p]])

-----------------------------------------------------------------------------
(* SpecRule -- "the limit selected by the first matching rule" (rule.go newRule / isMatch, throttle.go
   Plugin.isAllowed's loop over p.rules).  A rule's conditions are a map field -> value; newRule keeps
   the field names SORTED in r.fields and the values IN THE SAME ORDER in r.values (mechanism
   M_ValuesFollowKeys; Go iterates a map in random order, so the order has to be re-established);
   isMatch: every r.fields[i] of the event equals r.values[i].  Rules are tried in configuration order,
   the default rule (no conditions) is last.
   Declarative: a rule matches iff every (field, value) pair of ITS OWN condition map holds for the
   event; the limit that governs the event is that of the first matching rule.
   Scope: 2 rules + default, 0..3 conditions each over 3 fields x 2 values, events with every field
   absent / value 1 / value 2 (all of / some of / none of a rule's conditions hold). *)
M_ValuesFollowKeys == Mut # "permvals"
RFields == 1..3
RConds == [RFields -> 0..2]        \* 0 = no condition on the field
REvents == [RFields -> 0..2]       \* 0 = field absent

RKeys(c) == SelectSeq(<<1, 2, 3>>, LAMBDA f : c[f] # 0)                  \* sort.Strings(keys)
RVals(c) == [i \in 1..Len(RKeys(c)) |-> c[RKeys(c)[i]]]                  \* values[i] = conditions[keys[i]]
RPerms(n) == {p \in [1..n -> 1..n] : \A i, j \in 1..n : p[i] = p[j] => i = j}
RValsImpl(c) == IF M_ValuesFollowKeys THEN {RVals(c)}
                ELSE {[i \in 1..Len(RKeys(c)) |-> RVals(c)[p[i]]] : p \in RPerms(Len(RKeys(c)))}
RIsMatch(keys, vals, e) == \A i \in 1..Len(keys) : e[keys[i]] = vals[i]
RDeclMatch(c, e) == \A f \in RFields : c[f] # 0 => e[f] = c[f]
RDeclSel(rules, e) == IF RDeclMatch(rules[1], e) THEN 1 ELSE IF RDeclMatch(rules[2], e) THEN 2 ELSE 3

InitRule ==
  /\ cs = [sl |-> "rules", NK |-> 0, N |-> 0, C |-> 1, kind |-> 0, dist |-> 0, lim |-> <<>>,
            steps |-> {}, offs |-> {}, ws |-> {}, E |-> 0]
  /\ hist = <<>> /\ now = Base /\ lims = <<>> /\ passed = <<>> /\ arrived = <<>> /\ ex = <<>> /\ gm = <<>> /\ ks = <<>>
  /\ \E c1 \in RConds : \E c2 \in RConds : \E e \in REvents : rs = [rules |-> <<c1, c2>>, ev |-> e, sel |-> 0]

(* Start builds the rules (newRule), then the event runs through Plugin.isAllowed's loop *)
NextRule ==
  /\ rs.sel = 0
  /\ \E v1 \in RValsImpl(rs.rules[1]) : \E v2 \in RValsImpl(rs.rules[2]) :
       rs' = [rs EXCEPT !.sel = IF RIsMatch(RKeys(rs.rules[1]), v1, rs.ev) THEN 1
                                ELSE IF RIsMatch(RKeys(rs.rules[2]), v2, rs.ev) THEN 2 ELSE 3]
  /\ UNCHANGED <<cs, hist, now, lims, passed, arrived, ex, gm, ks>>

SpecRule == InitRule /\ [][NextRule]_vars

FirstMatchingRuleGoverns == rs.sel # 0 => rs.sel = RDeclSel(rs.rules, rs.ev)

ExportRule == rs.sel # 0 =>
  PrintT(ToJson([r |-> [i \in 1..2 |-> [f \in 1..3 |-> rs.rules[i][f]]], e |-> [f \in 1..3 |-> rs.ev[f]],
                 want |-> RDeclSel(rs.rules, rs.ev)]))

-----------------------------------------------------------------------------
(* SpecKey -- which limiter an event is checked against (limiters_map.go getOrAdd: the map key is the
   rule's byteIdxPart followed by ALL bytes of the throttle key, whatever their number).  An event's
   identity is (rule index, throttle key bytes); KeyOf must be injective on identities (mechanism
   M_FullKey), so that every identity has a limiter -- a budget -- of its own.  Mutant "keytrunc": the
   key is built in a fixed buffer of KW bytes and cut off.
   Scope: two distinct identities out of {rule 1, rule 2} x byte strings over {1, 2} of length 0..3
   (equal, prefix-of, differing only in the last byte, differing only in the rule), limit 1 each,
   KN events in one frozen bucket in any order. *)
M_FullKey == Mut # "keytrunc"
KW == 3
KN == 3
KBytes == UNION {[1..n -> 1..2] : n \in 0..3}
KIds == {<<r, b>> : r \in 1..2, b \in KBytes}
KeyOf(id) == LET full == <<id[1]>> \o id[2]                   \* append(byteIdxPart, throttleKey...)
             IN IF M_FullKey \/ Len(full) <= KW THEN full ELSE SubSeq(full, 1, KW)

InitKey ==
  /\ cs = [sl |-> "keys", NK |-> 0, N |-> 0, C |-> 1, kind |-> 0, dist |-> 0, lim |-> <<>>,
            steps |-> {}, offs |-> {}, ws |-> {}, E |-> 0]
  /\ hist = <<>> /\ now = Base /\ lims = <<>> /\ passed = <<>> /\ arrived = <<>> /\ ex = <<>> /\ gm = <<>> /\ rs = <<>>
  /\ \E a \in KIds : \E b \in KIds \ {a} :
       ks = [ids |-> <<a, b>>, cnt |-> <<>>, arr |-> <<0, 0>>, pas |-> <<0, 0>>, n |-> 0]

(* an event of identity i: getOrAdd(KeyOf) -> that limiter's add-then-compare, limit 1 *)
KeyEvent(i) ==
  /\ ks.n < KN
  /\ LET key == KeyOf(ks.ids[i])
         c == Get(ks.cnt, key) + 1
     IN ks' = [ks EXCEPT !.cnt = Bump(@, key, 1), !.arr[i] = @ + 1, !.pas[i] = IF c <= 1 THEN @ + 1 ELSE @, !.n = @ + 1]
  /\ UNCHANGED <<cs, hist, now, lims, passed, arrived, ex, gm, rs>>

SpecKey == InitKey /\ [][\E i \in 1..2 : KeyEvent(i)]_vars

KeyOfInjective == KeyOf(ks.ids[1]) # KeyOf(ks.ids[2])
(* every identity gets exactly its own budget: min(limit, arrivals) of ITS events pass *)
KeyOwnBudget == \A i \in 1..2 : ks.pas[i] = (IF ks.arr[i] >= 1 THEN 1 ELSE 0)

-----------------------------------------------------------------------------
(* export of every explored history with the decision the transcription takes (ok) and what the
   statement demands (must: 1 pass, 0 reject, 2 open) at every step; times relative to Base.
   event row = <<key, clock, event time, size, distribution value, ok, must, charged bucket>> *)
ExportRec ==
  [s |-> cs.sl, C |-> cs.C, k |-> cs.kind, d |-> cs.dist, l |-> [k \in 1..cs.NK |-> cs.lim[k]],
   e |-> [i \in 1..Len(hist) |->
             <<hist[i].k, hist[i].now - Base, hist[i].ts - Base, hist[i].w, hist[i].v,
               IF hist[i].ok THEN 1 ELSE 0, hist[i].must, hist[i].b - Base>>]]

Export == Len(hist) = cs.N => PrintT(ToJson(ExportRec))

=============================================================================
