SPECIFICATION Spec
CONSTANTS
  Alphabet = {97, 90, 53, 95, 45, 46, 38, 32, 233, 1089, 20013, 120792}
  UniLetters = {97, 90, 233, 1089, 20013}
  UniDigits = {53, 120792}
  MaxLen = 2
  M_NameBytesAsciiOnly = TRUE
INVARIANTS NameIsSafeAscii NameIsExpected
CHECK_DEADLOCK FALSE
