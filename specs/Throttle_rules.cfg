SPECIFICATION SpecRule
CONSTANTS
  Slices <- MutantSlices
  Mut = "none"
INVARIANTS FirstMatchingRuleGoverns ExportRule
CHECK_DEADLOCK FALSE
