SPECIFICATION Spec
CONSTANTS
  Slices <- BackSlices
  Mut = "none"
INVARIANTS TypeOK RingConsistent CountersAreArrivals NeverOverLimit TotalWithinSum NoEarlyReject Remap ValueWithinShare MustRespected KeysIndependent Export
CHECK_DEADLOCK FALSE
