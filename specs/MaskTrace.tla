------------------------------ MODULE MaskTrace ------------------------------
(* C17, direction T (code -> spec): every record logged by the Go driver from the REAL mask plugin
   (harness/overlay/plugin/action/mask/zz_verif_c17_test.go) is judged by the functional specification
   of Mask.tla.  One state per record; `Chains` independent walks through the file so that TLC's workers
   share the work.  The invariant Verdict never fails: for every record on which some predicate of the
   specification is false it prints one JSON line naming the false predicates (all of them -- a listed
   finding cannot hide another violation), which the check turns into violation records.              *)
EXTENDS Mask

CONSTANT Chains

Records == ndJsonDeserialize("c17_records.ndjson")
N == Len(Records)

VARIABLE ti

TraceInit ==
  /\ ti \in 1..Min(Chains, N)
  /\ cs = <<>> /\ pc = "trace" /\ mi = 0 /\ gi = 0 /\ prevFinish = 0 /\ curStart = 0 /\ curFinish = 0
  /\ buf = <<>> /\ pbounds = <<>>
TraceNext == ti + Chains <= N /\ ti' = ti + Chains /\ UNCHANGED vars
TraceSpec == TraceInit /\ [][TraceNext]_<<ti, vars>>

Names(pairs) == LET bad == SelectSeq(pairs, LAMBDA x : ~x[2]) IN [k \in 1..Len(bad) |-> bad[k][1]]

(* ---- "L": one leaf through Plugin.Do ---- *)
CaseOf(r) == [val |-> r.val, cw |-> r.cw, T |-> r.T, G |-> r.G, mode |-> r.mode, mc |-> r.mc, word |-> r.word]
Has(keys, x) == \E i \in 1..Len(keys) : keys[i] = x

LeafAssumptions(r) == LET c == CaseOf(r) IN TableWellFormed(c) /\ AlphabetsApart(c)

LeafFails(r) ==
  LET c == CaseOf(r)
      S == SelSeq(c.T, c.G)
      H == HiddenOf(S, Len(c.val))
      matched == c.T # <<>>
  IN IF r.res = "panic"
       THEN Names(<< <<"EffectiveGroups", r.G = EffectiveGroups(r.gc)>>, <<"NoPanic", FALSE>> >>)
     ELSE Names(<<
       <<"EffectiveGroups", r.G = EffectiveGroups(r.gc)>>,
       <<"Untouched", matched \/ (r.out = r.val /\ r.ok = r.lk)>>,
       <<"OutsideKept", matched => OutsideKeptP(c, S, H, r.out)>>,
       <<"SecretGone", matched => SecretGoneP(c, H, r.out)>>,
       <<"ExactWhenDisjointAscending", matched => ExactP(c, S, r.out)>>,
       <<"Kind", matched => r.ok \in {"s", r.lk} /\ (r.out # r.val => r.ok = "s")>>,
       \* empty values are not processed at all (nothing to hide); whether an empty-matching regexp "matched"
       \* an empty value is left open
       <<"Applied", r.val # <<>> => /\ Applied(c, Has(r.keys, "ap")) /\ Applied(c, Has(r.keys, "am"))
                                   /\ Applied(c, r.met = 1) /\ r.met \in {0, 1} /\ Applied(c, r.mmet > 0)>>,
       <<"Keys", /\ Len(r.keys) >= 1 /\ r.keys[1] = "k"
                 /\ \A i \in 2..Len(r.keys) : r.keys[i] \in {"ap", "am"}
                 /\ \A i \in 1..Len(r.keys) : \A j \in (i + 1)..Len(r.keys) : r.keys[i] # r.keys[j]>>
     >>)

LeafVerdict(r) ==
  IF ~LeafAssumptions(r) THEN PrintT(ToJson([id |-> r.id, assumption |-> TRUE]))
  ELSE LET f == LeafFails(r) IN
       f # <<>> =>
         LET c == CaseOf(r) IN
         PrintT(ToJson([id |-> r.id, fail |-> f, situation |-> PanicSituation(c),
                        as_modelled |-> (r.res = "panic" /\ r.pc = "slice bounds out of range" /\ r.pb = PanicBounds(c)),
                        da |-> DisjointAscending(SelSeq(c.T, c.G))]))

(* ---- "E": one event (tree) through Plugin.Do ---- *)
EventAssumptions(ev) ==
  /\ Len(ev.masks) \in {1, 2}
  /\ \A l \in 1..Len(ev.before) :
       LET b == ev.before[l] IN
       b.t \in {"s", "n"} =>
         /\ Len(b.mi) = Len(ev.masks)
         /\ \A i \in 1..Len(ev.masks) :
              ev.masks[i].hasRe =>
                /\ TableWellFormed(MaskCase(ev.masks[i], b.v, b.cw, b.mi[i].Tb))
                /\ AlphabetsApart(MaskCase(ev.masks[i], b.v, b.cw, b.mi[i].Tb))
                \* a chain is judged only where the first mask's replacement cannot be mistaken for a replacement
                \* of the second
                /\ (i = 2 /\ ev.masks[1].hasRe =>
                      /\ TableWellFormed(MaskCase(ev.masks[2], b.mi[2].mid, b.mi[2].cwm, b.mi[2].Tm))
                      /\ AlphabetsApart(MaskCase(ev.masks[2], b.mi[2].mid, b.mi[2].cwm, b.mi[2].Tm)))

EventFails(ev0, sem) ==
  LET ev == WithSem(ev0, sem) IN
  IF ev.res = "panic" THEN <<"NoPanic">>
  ELSE IF ~TreeShape(ev) THEN <<"TreeShape">>
  ELSE Names(<< <<"TreeScope", TreeScope(ev)>>, <<"TreeMasked", TreeMasked(ev)>>, <<"TreeApplied", TreeApplied(ev)>> >>)

\* the event is judged with the masks that never match removed (Mask.tla, "number and index of masks")
EventVerdict(ev1) ==
  IF ~OthersSilent(ev1) THEN PrintT(ToJson([id |-> ev1.id, assumption |-> TRUE]))
  ELSE LET ev == ProjectMasks(ev1) IN
  IF ~EventAssumptions(ev) THEN PrintT(ToJson([id |-> ev.id, assumption |-> TRUE]))
  ELSE LET f == EventFails(ev, "decl") \o (IF ev1.res = "ok" /\ ~SilentUnmarked(ev1) THEN <<"SilentUnmarked">> ELSE <<>>) IN
       f # <<>> =>
         \* is what the code did exactly what the named deviation D16 predicts?
         LET d16 == ev.res = "ok" /\ EventFails(ev, "coded") = <<>> /\ SilentUnmarked(ev1) IN
         PrintT(ToJson([id |-> ev.id, fail |-> f,
                        situation |-> (IF d16 THEN "list_marks_not_inherited" ELSE "event"),
                        as_modelled |-> d16, da |-> FALSE]))

Verdict == LET r == Records[ti] IN IF r.k = "L" THEN LeafVerdict(r) ELSE EventVerdict(r)
=============================================================================
