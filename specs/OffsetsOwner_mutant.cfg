SPECIFICATION Spec
CONSTANTS
  M_OneWriterPerFile = FALSE
  MaxCommits = 2
INVARIANTS RoundTripOwn NeverForeign
CHECK_DEADLOCK FALSE
