\* residual / ideal configuration: all deviations switched off; the statement must then hold in every state
SPECIFICATION Spec
CONSTANTS
  MaxLen = 4
  Ls = {0, 6, 9}
  SPs = {0, 4}
  MaxExotic = 1
  D12_EmptyLogPanics = FALSE
  D16_TimeoutDropsPartials = FALSE
  D17_SkipSurvivesTimeout = FALSE
  D20_BackslashNIsEnd = FALSE
INVARIANTS TypeOK NoPanic CutInRange BufBounded TimeoutOnlyWhileCollapsed StatementOK ResidualOK DevSwitched
CHECK_DEADLOCK FALSE
