SPECIFICATION Spec
CONSTANTS
  MaxId = 40
  TraceFile = "trace.ndjson"
INVARIANT Report
CHECK_DEADLOCK FALSE
