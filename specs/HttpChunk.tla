----------------------------- MODULE HttpChunk -----------------------------
(* C11 -- the HTTP input's body reader (plugin/input/http/http.go: serveBulk, processBulk,
   processChunk, newReadBuff/newEventBuffs, getSourceID/putSourceID), transcribed step by step,
   together with the declarative statement of what the pipeline must be handed:

      Expected(body) == SplitOnNL(body)      the newline-separated lines of the body, in order,
                                             a final unterminated line included, nothing after a
                                             trailing newline;
      OKOnlyAfterAllLines                    a 200 is written only after every expected line was handed over;
      NoMixing                               what is handed over under one source id between two calls of a
                                             request belongs to that request; concurrently served requests
                                             hold different source ids; no foreign / stale byte in any call.

   One behaviour = one CASE = a tuple of requests, each (body, split of the body into reads, flavour of
   the end of the stream, optional empty reads).  Mode "serial": request i+1 starts after request i
   returned (successive requests re-using the pooled buffers; deterministic, exported for replay against
   the real plugin).  Mode "conc": the requests interleave freely at the granularity of the shared
   operations (sync.Pool Get/Put, source-id free list under p.mu, controller.In).

   Buffers have IDENTITY: readBuff / eventBuff are slice headers over backing arrays (memR, memE); a request
   OWNS an array from the pool Get (or allocation) until its explicit Put step; the pools hold ids.  The In
   call of the final flush is NOT atomic (Flush = the call, InLast = the pipeline copies the bytes and In
   returns): Pipeline.In may block under back pressure before it copies.  BufOwned / PendingStable state that
   the final flush's In happens-before the Puts (mechanism M_PutAfterLastIn).

   The END OF THE STREAM is a dimension of the case: only io.EOF ends a body cleanly; io.ErrUnexpectedEOF (a body
   shorter than announced, a truncated gzip stream) and any other error mean the body is incomplete: no 200
   (OKOnlyAfterAllLines, NoOKOnError; switch ueof_is_eof).
   Mode "gz": gzip requests decompress through pooled *gzip.Reader OBJECTS (zr, zobj, poolZ): owned from the pool Get
   to the deferred Put, dropped when Reset fails on a bad header; the case is the three-step sequence good request,
   bad-header request, two overlapping requests (PoolHoldsEachObjectOnce, ReaderIsMine; switch gz_double_put).
   Mode "hdr": one request x Content-Type x the plugin's `meta` option: the lines handed over are a function of the body
   bytes alone (mechanism M_BodyOnlyReadByBulk; switch meta_drains_form).
   Mode "mes": one request x the pipeline's max_event_size: the bytes handed to In are the line's bytes whatever the
   limit is -- the limit belongs to Pipeline.In (mechanism M_CarryUnbounded; switch carry_capped).
   Mode "gzone": one gzip request whose COMPRESSED size (the announced Content-Length) is a dimension of its own:
   the decompressed stream handed to processBulk is the whole body whatever its ratio to that size
   (mechanism M_GzipStreamUnbounded; switch gz_limit_clean_eof).

   Named abstractions (nothing else is idealised):
     * gzip compression itself is the identity: what is modelled is the stateful pooled reader (Reset points it to a
       body, Read delivers that body's bytes from the object's position) and the size of the compressed payload;
     * capacity / re-allocation on append is not modelled: append always writes in place (the worst case for
       sharing; in the faithful code contents beyond len are never read);
     * the byte scan inside processChunk is one recursive operator (PCLoop), one TLA+ step per Read and
       one per processChunk call; the In calls made inside the read loop are atomic and appended together
       (justified by BufOwned: during its read loop nobody else can write to a request's buffers);
     * sync.Pool: Get returns a pooled item (serial: always the last one put; conc: any, or none).
   Mutant switches (Mutant # "none") are NOT deviations of the code; they exist to show that the
   invariants discriminate (checks/C11.py expects TLC to reject each of them).  put_before_last_in is the
   switch of mechanism M_PutAfterLastIn (Puts right after the read loop, before the tail is handed over). *)
EXTENDS Integers, Sequences, FiniteSets, TLC, Json

CONSTANTS Mode,          \* "serial" | "conc" | "gz" | "gzone" | "mes" | "hdr"
          MaxLen,        \* serial: bound on the body length of a single-request case
          SeqLen,        \* serial: bound on the first body's length of a two-request case (second is shorter)
          ConcLen,       \* conc: bound on the body length of each of the two requests
          GzLen,         \* gz: bound on the body length of the two overlapping gzip requests; gzone: of the one request
          Symbols,       \* non-newline symbols (positive integers); 0 is the newline
          Mutant         \* "none" = faithful transcription

NL == 0
FRESH == -1              \* a byte of a freshly made buffer that was never written

VARIABLES cs,            \* the case: sequence of requests [body, sizes, end, zr, gz, bad]
          pc,            \* per request: idle getZ getR getE getSid read chunk flush inlast putSid putE putR status putZ done
          rbuf, rn,      \* per request: readBuff (id of its backing array), n of the last Read
          eb,            \* per request: eventBuff slice header [id, len]   (id of the backing array)
          pend,          \* per request: the slice [id, len] handed to an In call that has not copied it yet (id 0 = none)
          memR, memE,    \* the backing arrays: id -> content (stale bytes beyond len are kept)
          nR, nE,        \* number of arrays allocated so far
          sid,           \* per request: source id held (-1 = none)
          k, off,        \* per request: index of the next scripted read, bytes consumed so far
          res,           \* per request: "" | "ok" | "err"   (processBulk's result)
          poolR, poolE,  \* p.readBuffs, p.eventBuffs  (sequences of pooled buffers)
          zr,            \* per request: the *gzip.Reader it holds (id, 0 = none)
          zobj,          \* the gzip reader objects: id -> [src, pos]  (whose body it was Reset to, bytes delivered)
          poolZ, nZ,     \* p.gzipReaderPool (sequence of ids: an object put twice is in it twice), objects made so far
          freeSids, sidSeq,   \* p.sourceIDs (free list, LIFO), p.sourceSeq
          slog,          \* history: per source id, the In calls  <<[req, data]>>
          ncalls,        \* history: per request, number of In calls made
          status, statusAt    \* per request: HTTP status written (0 = none), ncalls at that moment

gzVars == <<zr, zobj, poolZ, nZ>>
vars == <<cs, pc, rbuf, rn, eb, pend, memR, memE, nR, nE, sid, k, off, res, poolR, poolE, freeSids, sidSeq, slog, ncalls, status, statusAt, gzVars>>

-----------------------------------------------------------------------------
(* helpers *)
IndexNL(s) == IF \E i \in 1..Len(s) : s[i] = NL
              THEN CHOOSE i \in 1..Len(s) : s[i] = NL /\ \A j \in 1..(i-1) : s[j] # NL
              ELSE 0
RECURSIVE Flatten(_)
Flatten(ss) == IF ss = <<>> THEN <<>> ELSE Head(ss) \o Flatten(Tail(ss))
IsPrefix(a, b) == Len(a) <= Len(b) /\ SubSeq(b, 1, Len(a)) = a
Max(a, b) == IF a > b THEN a ELSE b
Min(a, b) == IF a < b THEN a ELSE b
RB == Max(Max(MaxLen, SeqLen), Max(Max(ConcLen, GzLen), 1))        \* model length of the read buffer (>= any body)

(* all compositions of n into positive parts = all ways the transport can split n bytes into reads *)
Comps[n \in 0..RB] == IF n = 0 THEN {<<>>}
                      ELSE UNION {{<<j>> \o c : c \in Comps[n - j]} : j \in 1..n}

(* ------------------------------------------------------------------------ *)
(* DECLARATIVE ORACLE                                                        *)
RECURSIVE SplitOnNL(_)
SplitOnNL(s) == IF s = <<>> THEN <<>>                   \* nothing left: no (spurious) empty last line
                ELSE LET p == IndexNL(s)
                     IN IF p = 0 THEN <<s>>             \* final unterminated line
                        ELSE <<SubSeq(s, 1, p - 1)>> \o SplitOnNL(SubSeq(s, p + 1, Len(s)))
Expected(body) == SplitOnNL(body)

\* the oracle itself, characterised without recursion (checked as invariant OracleSane)
JoinNL(ls) == Flatten([i \in 1..Len(ls) |-> IF i < Len(ls) THEN ls[i] \o <<NL>> ELSE ls[i]])
OracleOK(body) ==
  LET e == Expected(body) IN
    /\ \A i \in 1..Len(e) : \A j \in 1..Len(e[i]) : e[i][j] # NL
    /\ body = IF body # <<>> /\ body[Len(body)] = NL THEN JoinNL(e) \o <<NL>> ELSE JoinNL(e)
    /\ Len(e) = Cardinality({i \in 1..Len(body) : body[i] = NL})
                + (IF body # <<>> /\ body[Len(body)] # NL THEN 1 ELSE 0)

(* ------------------------------------------------------------------------ *)
(* CASES                                                                     *)
AllEnds == {"with", "after", "err", "ueof", "ueofd"}
ErrEnds == {"err", "ueof", "ueofd"}          \* the body was NOT delivered completely: only io.EOF ends a body cleanly
\* "with":  last data read returns (n, io.EOF), every later read (0, io.EOF)
\* "after": every data read returns (n, nil), then (0, io.EOF)
\* "err":   every data read returns (n, nil), then (0, some other error)
\* "ueof":  every data read returns (n, nil), then (0, io.ErrUnexpectedEOF)   -- the body was cut short (what net/http
\*          reports for a body shorter than its Content-Length, what gzip reports for a truncated stream)
\* "ueofd": the last data read returns (n, io.ErrUnexpectedEOF), every later read (0, io.ErrUnexpectedEOF)
\* zr:      a (0, nil) read before every other read
EndsFor(n, ends) == IF n = 0 THEN ends \ {"with", "ueofd"} ELSE ends   \* (n,err) on the last data read needs a data read

Req(b, c, e, z) == [body |-> b, sizes |-> c, end |-> e, zr |-> z, gz |-> FALSE, bad |-> FALSE, clen |-> 0, mes |-> 0, ctype |-> "none", meta |-> FALSE]
\* a request with Content-Encoding: gzip; bad = its payload does not start with a valid gzip header.
\* (named abstraction: compression itself is the identity; what is modelled of gzip is the stateful, pooled
\*  reader object: Reset points it to a body, Read delivers that body's bytes from the object's position)
ReqG(b, c, bad) == [body |-> b, sizes |-> c, end |-> "after", zr |-> FALSE, gz |-> TRUE, bad |-> bad, clen |-> 0, mes |-> 0, ctype |-> "none", meta |-> FALSE]
\* ... whose COMPRESSED payload has cl bytes, announced as Content-Length (0 = not announced).  The ratio between the
\* decompressed body and cl is arbitrary (1 .. Len(b)): very repetitive logs inflate hundreds of times.
\* Mechanism M_GzipStreamUnbounded: the stream handed to processBulk is the WHOLE decompressed body whatever that ratio.
ReqGC(b, c, cl) == [body |-> b, sizes |-> c, end |-> "after", zr |-> FALSE, gz |-> TRUE, bad |-> FALSE, clen |-> cl, mes |-> 0, ctype |-> "none", meta |-> FALSE]
\* a request served by a pipeline whose settings say max_event_size = m (0 = unlimited).  The limit belongs to
\* Pipeline.In (which drops or cuts over-long events and counts them), not to the http input:
\* mechanism M_CarryUnbounded: the bytes handed to In are the line's bytes whatever max_event_size is.
ReqM(b, c, e, m) == [body |-> b, sizes |-> c, end |-> e, zr |-> FALSE, gz |-> FALSE, bad |-> FALSE, clen |-> 0, mes |-> m, ctype |-> "none", meta |-> FALSE]
MesSet == 0..4
\* a request with a Content-Type header, served by a plugin with / without the `meta` option (templates over the
\* request's params, headers, remote address).  Mechanism M_BodyOnlyReadByBulk: nothing before processBulk consumes
\* r.Body, so the lines handed over are a function of the body bytes alone.
CTypes == {"none", "json", "text", "form", "multipart"}
ReqH(b, c, e, ct, mt) == [body |-> b, sizes |-> c, end |-> e, zr |-> FALSE, gz |-> FALSE, bad |-> FALSE, clen |-> 0, mes |-> 0,
                          ctype |-> ct, meta |-> mt]
\* mutant meta_drains_form: rendering the meta parses the form, which reads a urlencoded body to its end
Drained(r) == Mutant = "meta_drains_form" /\ r.meta /\ r.ctype = "form"
LimitR == 2      \* mutant gz_limit_clean_eof: the decompressed stream ends, with a clean EOF, after clen * LimitR bytes
Bodies(n, syms) == [1..n -> syms \cup {NL}]
MinSym == CHOOSE x \in Symbols : \A y \in Symbols : x <= y

\* serial: one request (all flavours), or two successive requests, the second body shorter than the first
\* conc:   two requests over disjoint alphabets
\* gz:     the three-step sequence: a good gzip request, a gzip request with a bad header, then two overlapping
\*         gzip requests over disjoint alphabets (requests 1, 2 run one after the other; 3 and 4 interleave)
\* hdr:    one request x Content-Type x meta configured or not
\* mes:    one request x the pipeline's max_event_size (0 = unlimited, 1..4)
\* gzone:  one gzip request, every body x split x compressed size (Content-Length) from 0 (not announced) to Len(body)
\* (written with quantifiers so that TLC enumerates the cases instead of building one big set)
CaseInit ==
  IF Mode = "serial"
    THEN \/ \E n \in 0..MaxLen : \E b \in Bodies(n, Symbols) : \E c \in Comps[n] :
              \E e \in EndsFor(n, AllEnds) : \E z \in (IF e \in ErrEnds THEN {FALSE} ELSE BOOLEAN) :
                cs = << Req(b, c, e, z) >>
         \/ \E n \in 1..SeqLen : \E b \in Bodies(n, Symbols) : \E c \in Comps[n] :
              \E e \in EndsFor(n, {"with", "after", "err", "ueof"}) :
              \E n2 \in 0..(n - 1) : \E b2 \in Bodies(n2, Symbols) : \E c2 \in Comps[n2] :
                \E e2 \in {"after"} :      \* (the EOF flavours are covered by the single requests and by the first request)
                  cs = << Req(b, c, e, FALSE), Req(b2, c2, e2, FALSE) >>
    ELSE IF Mode = "conc"
    THEN \E n \in 0..ConcLen : \E b \in Bodies(n, {MinSym}) : \E c \in Comps[n] : \E e \in EndsFor(n, {"after", "err"}) :
           \E n2 \in 0..ConcLen : \E b2 \in Bodies(n2, Symbols \ {MinSym}) : \E c2 \in Comps[n2] :
             \E e2 \in EndsFor(n2, {"with", "after"}) :
               cs = << Req(b, c, e, FALSE), Req(b2, c2, e2, FALSE) >>
    ELSE IF Mode = "hdr"
    THEN \E n \in 0..MaxLen : \E b \in Bodies(n, Symbols) : \E c \in Comps[n] : \E e \in EndsFor(n, {"with", "after"}) :
           \E ct \in CTypes : \E mt \in BOOLEAN : cs = << ReqH(b, c, e, ct, mt) >>
    ELSE IF Mode = "mes"
    THEN \E n \in 0..MaxLen : \E b \in Bodies(n, Symbols) : \E c \in Comps[n] : \E e \in EndsFor(n, {"with", "after"}) :
           \E m \in MesSet : cs = << ReqM(b, c, e, m) >>
    ELSE IF Mode = "gzone"
    THEN \E n \in 0..GzLen : \E b \in Bodies(n, Symbols) : \E c \in Comps[n] : \E cl \in 0..n :
           cs = << ReqGC(b, c, cl) >>
    ELSE \E n \in 0..GzLen : \E b \in Bodies(n, {MinSym}) : \E c \in Comps[n] :
           \E n2 \in 0..GzLen : \E b2 \in Bodies(n2, Symbols \ {MinSym}) : \E c2 \in Comps[n2] :
             cs = << ReqG(<<MinSym>>, <<1>>, FALSE), ReqG(<<>>, <<>>, TRUE), ReqG(b, c, FALSE), ReqG(b2, c2, FALSE) >>

\* the reads the transport performs for request r:  <<[n, e]>>,  e \in {"nil","eof","ueof","err"}
Script(r) ==
  LET c == Len(r.sizes)
      Z == IF r.zr THEN << [n |-> 0, e |-> "nil"] >> ELSE <<>>
      item(j) == [n |-> r.sizes[j], e |-> IF j = c /\ r.end = "with" THEN "eof"
                                          ELSE IF j = c /\ r.end = "ueofd" THEN "ueof" ELSE "nil"]
  IN Flatten([j \in 1..c |-> Z \o <<item(j)>>])
     \o (IF r.end \in {"with", "ueofd"} THEN <<>> ELSE Z)
     \o << [n |-> 0, e |-> IF r.end = "err" THEN "err" ELSE IF r.end \in {"ueof", "ueofd"} THEN "ueof" ELSE "eof"] >>

\* which read results end the body cleanly: io.EOF only (mutant ueof_is_eof: io.ErrUnexpectedEOF too)
EofLike(e) == e = "eof" \/ (Mutant = "ueof_is_eof" /\ e = "ueof")

-----------------------------------------------------------------------------
(* slices *)
Live(e) == SubSeq(e.arr, 1, e.len)
AppendBuf(e, xs) ==                              \* append(e, xs...) writing into the backing array
  [arr |-> Live(e) \o xs \o SubSeq(e.arr, e.len + Len(xs) + 1, Len(e.arr)), len |-> e.len + Len(xs)]

(* processChunk(sourceID, readBuff = chunk, eventBuff = e, isLastChunk) -- the scanning loop.
   pos, nlPos are 0-based as in the code; chunk[pos+1] is readBuff[pos].                                 *)
RECURSIVE PCLoop(_, _, _, _, _)
PCLoop(chunk, pos, nlPos, e, out) ==
  IF ~(pos < Len(chunk)) THEN [nlPos |-> nlPos, eb |-> e, out |-> out]
  ELSE IF chunk[pos + 1] # NL THEN PCLoop(chunk, pos + 1, nlPos, e, out)
  ELSE IF e.len # 0 /\ Mutant # "drop_carry"
         THEN LET e2 == AppendBuf(e, SubSeq(chunk, nlPos + 1, pos))        \* append(eventBuff, readBuff[nlPos:pos]...)
              IN PCLoop(chunk, pos + 1, pos + 1, [e2 EXCEPT !.len = 0], Append(out, Live(e2)))   \* In(eventBuff); eventBuff[:0]
         ELSE PCLoop(chunk, pos + 1, pos + 1, [e EXCEPT !.len = 0], Append(out, SubSeq(chunk, nlPos + 1, pos)))  \* In(readBuff[nlPos:pos])

\* lim = the pipeline's max_event_size; the code does not look at it.  Mutant carry_capped: the carry-over keeps at
\* most lim bytes ("the pipeline drops or cuts longer events anyway").
ProcessChunk(chunk, e, isLast, lim) ==
  LET r == PCLoop(chunk, 0, 0, e, <<>>)
      whole == SubSeq(chunk, r.nlPos + 1, Len(chunk))                       \* readBuff[nlPos:]
      rest == IF Mutant = "carry_capped" /\ lim > 0 /\ ~isLast
                THEN SubSeq(whole, 1, Min(Len(whole), Max(lim - r.eb.len, 0)))
                ELSE whole
      e2 == AppendBuf(r.eb, rest)
  IN IF isLast THEN [eb |-> [e2 EXCEPT !.len = 0], out |-> Append(r.out, Live(e2))]
               ELSE [eb |-> e2, out |-> r.out]

-----------------------------------------------------------------------------
Reqs == 1..Len(cs)
BufIds == 1..Len(cs)                     \* every request allocates at most one buffer of each kind

\* the request's eventBuff as a value [arr, len] (its slice header [id, len] over the shared backing array)
EB(i) == [arr |-> memE[eb[i].id], len |-> eb[i].len]
RBuf(i) == memR[rbuf[i]]

Init ==
  /\ CaseInit
  /\ pc = [i \in Reqs |-> "idle"]
  /\ rbuf = [i \in Reqs |-> 0] /\ rn = [i \in Reqs |-> 0]
  /\ eb = [i \in Reqs |-> [id |-> 0, len |-> 0]]
  /\ pend = [i \in Reqs |-> [id |-> 0, len |-> 0]]
  /\ memR = [b \in BufIds |-> <<>>] /\ memE = [b \in BufIds |-> <<>>] /\ nR = 0 /\ nE = 0
  /\ sid = [i \in Reqs |-> -1]
  /\ k = [i \in Reqs |-> 1] /\ off = [i \in Reqs |-> 0]
  /\ res = [i \in Reqs |-> ""]
  /\ poolR = <<>> /\ poolE = <<>> /\ freeSids = <<>> /\ sidSeq = 0
  /\ slog = [s \in 0..(Len(cs) - 1) |-> <<>>]
  /\ ncalls = [i \in Reqs |-> 0]
  /\ status = [i \in Reqs |-> 0] /\ statusAt = [i \in Reqs |-> 0]
  /\ zr = [i \in Reqs |-> 0] /\ zobj = [z \in BufIds |-> [src |-> 0, pos |-> 0]] /\ poolZ = <<>> /\ nZ = 0

RemoveAt(s, j) == SubSeq(s, 1, j - 1) \o SubSeq(s, j + 1, Len(s))
\* which pooled item a Get may return: serial = the one put last (or none if empty); conc = any, or none
\* (gz: the buffer pools behave as in serial -- their nondeterminism is explored by conc --, the gzip reader pool: any, or none)
PoolChoices(pool) == IF Mode \in {"serial", "gz", "gzone", "mes", "hdr"} THEN (IF pool = <<>> THEN {0} ELSE {Len(pool)}) ELSE 0..Len(pool)
PoolChoicesZ(pool) == 0..Len(pool)

\* order of the steps after the read loop.
\* code:    [EOF] flush (In of the tail) -> putSid -> putE -> putR -> status     [err] putSid -> putE -> putR -> status
\* mutant put_before_last_in (mechanism M_PutAfterLastIn disabled: buffers go back to the pools right after the loop):
\*          [EOF] putE -> putR -> flush (In of the tail) -> putSid -> status     [err] putE -> putR -> putSid -> status
PBL == Mutant = "put_before_last_in"
AfterLoop(i) == IF PBL THEN "putE" ELSE "flush"
AfterLoopErr(i) == IF PBL THEN "putE" ELSE "putSid"
AfterFlush(i) == "putSid"
AfterPutSid(i) == IF PBL THEN "status" ELSE "putE"
AfterPutR(i, r) == IF PBL THEN (IF r = "err" THEN "putSid" ELSE "flush") ELSE "status"

(* ServeHTTP -> serveBulk -> processBulk entered *)
Start(i) ==
  /\ pc[i] = "idle"
  /\ IF Mode = "serial" /\ i > 1 THEN pc[i - 1] = "done"
     ELSE IF Mode = "gz" /\ i \in {2, 3} THEN pc[i - 1] = "done"
     ELSE IF Mode = "gz" /\ i = 4 THEN pc[2] = "done"
     ELSE TRUE
  /\ pc' = [pc EXCEPT ![i] = IF cs[i].gz THEN "getZ" ELSE "getR"]
  /\ UNCHANGED <<cs, rbuf, rn, eb, pend, memR, memE, nR, nE, sid, k, off, res, poolR, poolE, freeSids, sidSeq, slog, ncalls, status, statusAt, gzVars>>

(* serveBulk, Content-Encoding: gzip:   zr, err := p.acquireGzipReader(reader); on error 400 and return;
   defer p.putGzipReader(zr).
   acquireGzipReader: pool Get; nothing pooled -> gzip.NewReader(r) (no object on a bad header); a pooled object ->
   Reset(r); when Reset fails the object is DROPPED (returned with the error, never Put).  From the Get on the
   request OWNS the object, until the deferred Put after the response was written.
   mutant gz_double_put: the failed-Reset path Puts the object in acquireGzipReader AND the deferred Put runs.   *)
GetZ(i) ==
  /\ pc[i] = "getZ"
  /\ \E j \in PoolChoicesZ(poolZ) :
       IF j = 0
         THEN IF cs[i].bad
                THEN /\ res' = [res EXCEPT ![i] = "err"] /\ pc' = [pc EXCEPT ![i] = "status"]
                     /\ UNCHANGED <<zr, zobj, poolZ, nZ>>
                ELSE /\ nZ' = nZ + 1 /\ zr' = [zr EXCEPT ![i] = nZ + 1]
                     /\ zobj' = [zobj EXCEPT ![nZ + 1] = [src |-> i, pos |-> 0]]
                     /\ pc' = [pc EXCEPT ![i] = "getR"]
                     /\ UNCHANGED <<poolZ, res>>
         ELSE LET z == poolZ[j] IN
              IF cs[i].bad
                THEN /\ res' = [res EXCEPT ![i] = "err"] /\ pc' = [pc EXCEPT ![i] = "status"]
                     /\ IF Mutant = "gz_double_put"
                          THEN zr' = [zr EXCEPT ![i] = z] /\ poolZ' = Append(RemoveAt(poolZ, j), z)
                          ELSE poolZ' = RemoveAt(poolZ, j) /\ UNCHANGED zr
                     /\ UNCHANGED <<zobj, nZ>>
                ELSE /\ zr' = [zr EXCEPT ![i] = z] /\ poolZ' = RemoveAt(poolZ, j)
                     /\ zobj' = [zobj EXCEPT ![z] = [src |-> i, pos |-> 0]]
                     /\ pc' = [pc EXCEPT ![i] = "getR"]
                     /\ UNCHANGED <<nZ, res>>
  /\ UNCHANGED <<cs, rbuf, rn, eb, pend, memR, memE, nR, nE, sid, k, off, poolR, poolE, freeSids, sidSeq, slog, ncalls, status, statusAt>>

(* deferred p.putGzipReader(zr), after the response was written: ownership of the object ends here *)
PutZ(i) ==
  /\ pc[i] = "putZ"
  /\ poolZ' = Append(poolZ, zr[i])
  /\ zr' = [zr EXCEPT ![i] = 0]
  /\ pc' = [pc EXCEPT ![i] = "done"]
  /\ UNCHANGED <<cs, rbuf, rn, eb, pend, memR, memE, nR, nE, sid, k, off, res, poolR, poolE, freeSids, sidSeq, slog, ncalls, status, statusAt, zobj, nZ>>

(* readBuff := p.newReadBuff()      -- from now on the request OWNS this buffer, until readBuffs.Put *)
GetR(i) ==
  /\ pc[i] = "getR"
  /\ \E j \in PoolChoices(poolR) :
       IF j = 0 THEN /\ rbuf' = [rbuf EXCEPT ![i] = nR + 1] /\ nR' = nR + 1
                     /\ memR' = [memR EXCEPT ![nR + 1] = [x \in 1..RB |-> FRESH]]
                     /\ UNCHANGED poolR
                ELSE /\ rbuf' = [rbuf EXCEPT ![i] = poolR[j]] /\ poolR' = RemoveAt(poolR, j)
                     /\ UNCHANGED <<nR, memR>>
  /\ pc' = [pc EXCEPT ![i] = "getE"]
  /\ UNCHANGED <<cs, rn, eb, pend, memE, nE, sid, k, off, res, poolE, freeSids, sidSeq, slog, ncalls, status, statusAt, gzVars>>

(* eventBuff := p.newEventBuffs()   -- pooled buffer re-sliced to [:0]; owned until eventBuffs.Put *)
GetE(i) ==
  /\ pc[i] = "getE"
  /\ \E j \in PoolChoices(poolE) :
       IF j = 0 THEN /\ eb' = [eb EXCEPT ![i] = [id |-> nE + 1, len |-> 0]] /\ nE' = nE + 1
                     /\ UNCHANGED poolE
                ELSE /\ eb' = [eb EXCEPT ![i] = [id |-> poolE[j].id,
                                                 len |-> IF Mutant = "no_reslice_on_get" THEN poolE[j].len ELSE 0]]
                     /\ poolE' = RemoveAt(poolE, j)
                     /\ UNCHANGED nE
  /\ pc' = [pc EXCEPT ![i] = "getSid"]
  /\ UNCHANGED <<cs, rbuf, rn, pend, memR, memE, nR, sid, k, off, res, poolR, freeSids, sidSeq, slog, ncalls, status, statusAt, gzVars>>

(* sourceID := p.getSourceID()   (under p.mu) *)
GetSid(i) ==
  /\ pc[i] = "getSid"
  /\ IF freeSids = <<>>
       THEN /\ sid' = [sid EXCEPT ![i] = sidSeq] /\ sidSeq' = sidSeq + 1
            /\ freeSids' = IF Mutant = "sid_early_release" THEN <<sidSeq>> ELSE <<>>
       ELSE /\ sid' = [sid EXCEPT ![i] = freeSids[Len(freeSids)]]
            /\ freeSids' = IF Mutant = "sid_early_release" THEN freeSids ELSE SubSeq(freeSids, 1, Len(freeSids) - 1)
            /\ UNCHANGED sidSeq
  /\ pc' = [pc EXCEPT ![i] = "read"]
  /\ UNCHANGED <<cs, rbuf, rn, eb, pend, memR, memE, nR, nE, k, off, res, poolR, poolE, slog, ncalls, status, statusAt, gzVars>>

(* n, err := r.Read(readBuff) and the three-way branch after it:
     n == 0 && err == io.EOF -> break;   err != nil && err != io.EOF -> return err (the n bytes are dropped);
     otherwise processChunk(readBuff[:n]).
   A gzip request reads through ITS reader object: the bytes of the body the object was last Reset to.          *)
Read(i) ==
  /\ pc[i] = "read"
  /\ IF cs[i].gz
       THEN LET o == zobj[zr[i]]
                whole == Len(cs[o.src].body) - o.pos
                avail == IF Mutant = "gz_limit_clean_eof" /\ cs[i].clen > 0
                           THEN Min(whole, Max(0, cs[i].clen * LimitR - off[i]))     \* io.LimitReader: clean EOF at the limit
                           ELSE whole
                want == IF k[i] <= Len(cs[i].sizes) THEN cs[i].sizes[k[i]] ELSE 1
                m == Min(want, avail)
            IN IF avail = 0
                 THEN /\ pc' = [pc EXCEPT ![i] = AfterLoop(i)]
                      /\ UNCHANGED <<memR, rn, k, off, res, zobj>>
                 ELSE /\ memR' = [memR EXCEPT ![rbuf[i]] = SubSeq(cs[o.src].body, o.pos + 1, o.pos + m) \o SubSeq(@, m + 1, RB)]
                      /\ rn' = [rn EXCEPT ![i] = m]
                      /\ off' = [off EXCEPT ![i] = off[i] + m]
                      /\ k' = [k EXCEPT ![i] = k[i] + 1]
                      /\ zobj' = [zobj EXCEPT ![zr[i]].pos = o.pos + m]
                      /\ pc' = [pc EXCEPT ![i] = "chunk"]
                      /\ UNCHANGED res
       ELSE LET s == Script(cs[i])[k[i]] IN
            IF Drained(cs[i]) \/ (s.n = 0 /\ EofLike(s.e))
              THEN /\ pc' = [pc EXCEPT ![i] = AfterLoop(i)]                         \* break
                   /\ UNCHANGED <<memR, rn, k, off, res, zobj>>
            ELSE IF s.e # "nil" /\ ~EofLike(s.e)
              THEN /\ pc' = [pc EXCEPT ![i] = AfterLoopErr(i)] /\ res' = [res EXCEPT ![i] = "err"]   \* return err
                   /\ UNCHANGED <<memR, rn, k, off, zobj>>
              ELSE /\ memR' = [memR EXCEPT ![rbuf[i]] = SubSeq(cs[i].body, off[i] + 1, off[i] + s.n) \o SubSeq(@, s.n + 1, RB)]
                   /\ rn' = [rn EXCEPT ![i] = s.n]
                   /\ off' = [off EXCEPT ![i] = off[i] + s.n]
                   /\ k' = [k EXCEPT ![i] = IF k[i] < Len(Script(cs[i])) THEN k[i] + 1 ELSE k[i]]
                   /\ pc' = [pc EXCEPT ![i] = "chunk"]
                   /\ UNCHANGED <<res, zobj>>
  /\ UNCHANGED <<cs, rbuf, eb, pend, memE, nR, nE, sid, poolR, poolE, freeSids, sidSeq, slog, ncalls, status, statusAt, zr, poolZ, nZ>>

Emit(i, out) ==
  /\ slog' = [slog EXCEPT ![sid[i]] = @ \o [j \in 1..Len(out) |-> [req |-> i, data |-> out[j]]]]
  /\ ncalls' = [ncalls EXCEPT ![i] = @ + Len(out)]

(* eventBuff = p.processChunk(sourceID, readBuff[:n], eventBuff, false, meta)
   The In calls made here hand over slices of readBuff / eventBuff; they are recorded with the bytes the slices
   hold at the call (named abstraction: these In calls are atomic -- justified by BufOwned: while the request is
   in its read loop nobody else can write to its buffers).                                                     *)
Chunk(i) ==
  /\ pc[i] = "chunk"
  /\ LET r == ProcessChunk(SubSeq(RBuf(i), 1, rn[i]), EB(i), FALSE, cs[i].mes) IN
       /\ memE' = [memE EXCEPT ![eb[i].id] = r.eb.arr]
       /\ eb' = [eb EXCEPT ![i].len = r.eb.len]
       /\ Emit(i, r.out)
  /\ pc' = [pc EXCEPT ![i] = "read"]
  /\ UNCHANGED <<cs, rbuf, rn, pend, memR, nR, nE, sid, k, off, res, poolR, poolE, freeSids, sidSeq, status, statusAt, gzVars>>

(* if len(eventBuff) > 0 { processChunk(sourceID, readBuff[:0], eventBuff, true, meta) }; return nil
   processChunk with an empty chunk and isLastChunk: In(append(eventBuff, readBuff[0:0]...)) = In(eventBuff).
   This In is NOT atomic: controller.In may block (back pressure: no free event) BEFORE it copies the bytes.
   Flush = the call (the slice [id, len] is handed over), InLast = the pipeline copies the bytes, In returns.   *)
Flush(i) ==
  /\ pc[i] = "flush"
  /\ IF (eb[i].len > 0 /\ Mutant # "no_final_flush") \/ Mutant = "flush_always"
       THEN /\ pend' = [pend EXCEPT ![i] = eb[i]]
            /\ pc' = [pc EXCEPT ![i] = "inlast"]
            /\ UNCHANGED res
       ELSE /\ res' = [res EXCEPT ![i] = "ok"]
            /\ pc' = [pc EXCEPT ![i] = AfterFlush(i)]
            /\ UNCHANGED pend
  /\ IF Mutant = "early_status"        \* mutant: status written before the carry-over is flushed
       THEN status' = [status EXCEPT ![i] = 200] /\ statusAt' = [statusAt EXCEPT ![i] = ncalls[i]]
       ELSE UNCHANGED <<status, statusAt>>
  /\ UNCHANGED <<cs, rbuf, rn, eb, memR, memE, nR, nE, sid, k, off, poolR, poolE, freeSids, sidSeq, slog, ncalls, gzVars>>

InLast(i) ==
  /\ pc[i] = "inlast"
  /\ Emit(i, << SubSeq(memE[pend[i].id], 1, pend[i].len) >>)       \* the bytes the buffer holds NOW
  /\ pend' = [pend EXCEPT ![i] = [id |-> 0, len |-> 0]]
  /\ eb' = [eb EXCEPT ![i].len = 0]                                  \* eventBuff = eventBuff[:0]
  /\ res' = [res EXCEPT ![i] = "ok"]
  /\ pc' = [pc EXCEPT ![i] = AfterFlush(i)]
  /\ UNCHANGED <<cs, rbuf, rn, memR, memE, nR, nE, sid, k, off, poolR, poolE, freeSids, sidSeq, status, statusAt, gzVars>>

(* deferred, in LIFO order: p.putSourceID(sourceID); p.eventBuffs.Put(&eventBuff); p.readBuffs.Put(&readBuff) *)
PutSid(i) ==
  /\ pc[i] = "putSid"
  /\ freeSids' = IF Mutant = "sid_early_release" THEN freeSids ELSE Append(freeSids, sid[i])
  /\ sid' = [sid EXCEPT ![i] = -1]
  /\ pc' = [pc EXCEPT ![i] = AfterPutSid(i)]
  /\ UNCHANGED <<cs, rbuf, rn, eb, pend, memR, memE, nR, nE, k, off, res, poolR, poolE, sidSeq, slog, ncalls, status, statusAt, gzVars>>

(* p.eventBuffs.Put(&eventBuff): ownership of the buffer ends here *)
PutE(i) ==
  /\ pc[i] = "putE"
  /\ poolE' = Append(poolE, eb[i])
  /\ pc' = [pc EXCEPT ![i] = "putR"]
  /\ UNCHANGED <<cs, rbuf, rn, eb, pend, memR, memE, nR, nE, sid, k, off, res, poolR, freeSids, sidSeq, slog, ncalls, status, statusAt, gzVars>>

(* p.readBuffs.Put(&readBuff): ownership of the buffer ends here *)
PutR(i) ==
  /\ pc[i] = "putR"
  /\ poolR' = Append(poolR, rbuf[i])
  /\ pc' = [pc EXCEPT ![i] = AfterPutR(i, res[i])]
  /\ UNCHANGED <<cs, rbuf, rn, eb, pend, memR, memE, nR, nE, sid, k, off, res, poolE, freeSids, sidSeq, slog, ncalls, status, statusAt, gzVars>>

(* serveBulk after processBulk returned: http.Error(400) on error, else w.Write(result) = 200 *)
Status(i) ==
  /\ pc[i] = "status"
  /\ IF status[i] = 0
       THEN /\ status' = [status EXCEPT ![i] = IF res[i] = "ok" THEN 200 ELSE 400]
            /\ statusAt' = [statusAt EXCEPT ![i] = ncalls[i]]
       ELSE UNCHANGED <<status, statusAt>>
  /\ pc' = [pc EXCEPT ![i] = IF zr[i] # 0 THEN "putZ" ELSE "done"]
  /\ UNCHANGED <<cs, rbuf, rn, eb, pend, memR, memE, nR, nE, sid, k, off, res, poolR, poolE, freeSids, sidSeq, slog, ncalls, gzVars>>

Next == \E i \in Reqs : Start(i) \/ GetZ(i) \/ PutZ(i) \/ GetR(i) \/ GetE(i) \/ GetSid(i) \/ Read(i) \/ Chunk(i) \/ Flush(i) \/ InLast(i)
                        \/ PutSid(i) \/ PutE(i) \/ PutR(i) \/ Status(i)

Spec == Init /\ [][Next]_vars

-----------------------------------------------------------------------------
(* properties *)
PCs == {"idle", "getZ", "putZ", "getR", "getE", "getSid", "read", "chunk", "flush", "inlast", "putSid", "putE", "putR", "status", "done"}
TypeOK == /\ \A i \in Reqs : pc[i] \in PCs /\ status[i] \in {0, 200, 400}
          /\ Len(poolR) <= Len(cs) /\ Len(poolE) <= Len(cs) /\ sidSeq <= Len(cs) /\ nR <= Len(cs) /\ nE <= Len(cs) /\ nZ <= Len(cs) /\ Len(poolZ) <= Len(cs) + 1

OracleSane == (\A i \in Reqs : pc[i] = "idle") => \A i \in Reqs : OracleOK(cs[i].body)

\* the data of the In calls of request i, in order (calls of one request under one sid are in order;
\* a request uses one sid, so its calls are the projection of that sid's log)
ReqData(i) ==
  LET all == Flatten([s \in 1..Len(cs) |-> SelectSeq(slog[s - 1], LAMBDA e : e.req = i)])
  IN [j \in 1..Len(all) |-> all[j].data]

\* processBulk is past its last In
Finished(i) == res[i] # "" /\ pc[i] \notin {"flush", "inlast"}

\* C11 (1): when processBulk is through without error the events are exactly the lines of the body
LinesExact == \A i \in Reqs : Finished(i) /\ res[i] = "ok" => ReqData(i) = Expected(cs[i].body)

\* at every moment what was handed over is a prefix of the expected lines (no dup, no reorder, no foreign line)
LinesPrefix == \A i \in Reqs : IsPrefix(ReqData(i), Expected(cs[i].body))

\* the inductive reason: between reads, the calls are the complete lines of the consumed prefix and the
\* carry-over is what follows its last newline
CarryIsTail ==
  \A i \in Reqs : pc[i] = "read" =>
    LET consumed == SubSeq(cs[i].body, 1, off[i])
        nls == {j \in 1..off[i] : consumed[j] = NL}
        lastNL == IF nls = {} THEN 0 ELSE CHOOSE j \in nls : \A m \in nls : m <= j
    IN /\ Live(EB(i)) = SubSeq(consumed, lastNL + 1, off[i])
       /\ ReqData(i) = Expected(SubSeq(consumed, 1, lastNL))

\* C11 (2): 200 only after every line of the body has been handed over; never on a reader error
OKOnlyAfterAllLines ==
  \A i \in Reqs : status[i] = 200 =>
     /\ cs[i].end \notin ErrEnds /\ ~cs[i].bad
     /\ statusAt[i] = Len(Expected(cs[i].body))
     /\ IsPrefix(Expected(cs[i].body), ReqData(i))
NoOKOnError == \A i \in Reqs : pc[i] = "done" /\ (cs[i].end \in ErrEnds \/ cs[i].bad) => status[i] = 400
\* a complete, well-formed body is acknowledged (sanity of the model; not part of the statement)
GoodGets200 == \A i \in Reqs : pc[i] = "done" /\ cs[i].end \notin ErrEnds /\ ~cs[i].bad => status[i] = 200

\* C11 (3): concurrently served requests hold different source ids ...
SidExclusive == \A i, j \in Reqs : i # j /\ sid[i] # -1 /\ sid[j] # -1 => sid[i] # sid[j]
\* ... so under one source id the calls of two requests never interleave ...
NoMixing ==
  \A s \in DOMAIN slog :
    \A a, b, c \in 1..Len(slog[s]) : a < b /\ b < c /\ slog[s][a].req = slog[s][c].req => slog[s][b].req = slog[s][a].req
\* ... and no call carries a byte that is not a byte of its own body (stale pooled bytes, other bodies)
NoForeignBytes ==
  \A s \in DOMAIN slog : \A a \in 1..Len(slog[s]) :
    LET e == slog[s][a] IN \A j \in 1..Len(e.data) : \E m \in 1..Len(cs[e.req].body) : cs[e.req].body[m] = e.data[j]

\* Buffer ownership (mechanism M_PutAfterLastIn): a request that is still going to touch its buffers -- in particular
\* one whose last In has been called but has not copied the bytes yet (pc = "inlast") -- owns them: they are neither
\* back in a pool nor in the hands of another such request.  The final flush's In happens-before the Puts.
UsesE(i) == pc[i] \in {"getSid", "read", "chunk", "flush", "inlast"}
UsesR(i) == pc[i] \in {"getE", "getSid", "read", "chunk", "flush", "inlast"}
BufOwned ==
  /\ \A i \in Reqs : UsesE(i) => /\ \A j \in 1..Len(poolE) : poolE[j].id # eb[i].id
                                 /\ \A j \in Reqs : j # i /\ UsesE(j) => eb[j].id # eb[i].id
  /\ \A i \in Reqs : UsesR(i) => /\ \A j \in 1..Len(poolR) : poolR[j] # rbuf[i]
                                 /\ \A j \in Reqs : j # i /\ UsesR(j) => rbuf[j] # rbuf[i]
\* the observable half of it: while an In is pending, the bytes it was given do not change
PendingStable == \A i \in Reqs : pc[i] = "inlast" =>
                    LET e == Expected(cs[i].body)
                    IN e # <<>> /\ SubSeq(memE[pend[i].id], 1, pend[i].len) = e[Len(e)]

\* A pooled object is owned by at most one request from Get to Put, and the pool holds each object at most once:
\* every Get is followed by at most one Put on every path (exactly one on the good path, none when Reset failed).
PoolHoldsEachObjectOnce ==
  /\ \A a, b \in 1..Len(poolZ) : a # b => poolZ[a] # poolZ[b]
  /\ \A i \in Reqs : zr[i] # 0 => \A a \in 1..Len(poolZ) : poolZ[a] # zr[i]
  /\ \A i, j \in Reqs : i # j /\ zr[i] # 0 /\ zr[j] # 0 => zr[i] # zr[j]
\* the reader a request decompresses through is pointed at its own body
ReaderIsMine == \A i \in Reqs : pc[i] \in {"getR", "getE", "getSid", "read", "chunk"} /\ zr[i] # 0 => zobj[zr[i]].src = i

AllDone == \A i \in Reqs : pc[i] = "done"
\* everything taken is given back
Balanced == AllDone => /\ Len(freeSids) = sidSeq /\ Len(poolE) = nE /\ Len(poolR) = nR
                       /\ \A i \in Reqs : eb[i].len = 0 \/ res[i] = "err"

-----------------------------------------------------------------------------
(* export of every explored serial case with the declaratively expected lines, for replay *)
ExportRec ==
  [reqs |-> [i \in Reqs |-> [body |-> cs[i].body, sizes |-> cs[i].sizes, end |-> cs[i].end, zr |-> cs[i].zr,
                             exp |-> Expected(cs[i].body),
                             mcalls |-> ReqData(i), mstatus |-> status[i]]]]
Export == (Mode = "serial" /\ AllDone) => PrintT(ToJson(ExportRec))

=============================================================================
