\* spec mutant: the current template index is shared by all plugin instances (the inner join config with the first instance's
\* closures is kept in the shared Config). TLC must find StreamsIndependent violated.
SPECIFICATION Spec
CONSTANTS
  MaxLenI = 2
  M_TemplateStatePerInstance = FALSE
INVARIANTS TypeOK StreamsIndependent
CHECK_DEADLOCK FALSE
