--------------------------- MODULE DeadQueueScope ---------------------------
(* C09, scope of a dead queue -- how file.d builds the output side of its pipelines (fd/file.d.go: startPipelines ->
   addPipeline -> setupOutput -> getStaticInfo) and what that means for the routing of a given-up batch.

   The plugin registry holds ONE PluginStaticInfo per plugin type; getStaticInfo fetches the POINTER to the entry of the
   output's type (`info`) and, when the output has a `deadqueue` section, the pointer to the entry of the dead queue's
   type (`deadqueueInfo`); it returns a COPY of `info` carrying the pipeline's own config and, if any, DeadQueueInfo.
   All pipelines are constructed one after another (map iteration order: any order), then all are started; a dead
   queue is started with deadQueueInfo.Config as it is at that time.

   The routing decision of a pipeline (does a given-up batch go to a dead queue, and to which) must be a function of ITS
   OWN configuration, whatever was constructed before or after it.

   Shape of the `deadqueue` section of a pipeline's output (cfgs[p]):
     "none"  no section          "empty"  deadqueue: {}          "type"  deadqueue: {type: X}   (all options default)
     a config name (DqConfigs)   deadqueue: {type: X, name: <config>}
   The code sets a dead queue up iff the section is a non-empty map (`len(deadqueueMap) > 0`, evaluated on the section
   AS WRITTEN, before the type key is deleted for decoding); an empty section is silently the same as none -- that is
   what the code does today, stated here and checked on the real code.  So "declared" = the section names a type.

   Mechanism switches (TRUE = as in the code):
     M_LenCheckedBeforeTypeRemoved   the length check sees the section as written.  FALSE = the type key is deleted
                         first (Del mutates the very map len() inspects): a type-only section looks empty and the
                         dead queue is silently dropped -- never set up, no error.
     M_DeadQueueOnCopy   `infoCopy.DeadQueueInfo = deadqueueInfo`.  FALSE = `info.DeadQueueInfo = deadqueueInfo`: stored on
                         the shared registry entry, so every pipeline constructed LATER with the same output type
                         inherits it through the copy.
   Named deviation (TRUE = as in the code):
     D_DqConfigOnRegistryEntry   `deadqueueInfo.Config = config` is written through the shared pointer: all pipelines whose
                         dead queues have the same TYPE share one Config -- the one of the pipeline constructed last.
                         FALSE = the ideal (a copy per pipeline).                                                *)
EXTENDS Integers, Sequences, FiniteSets, TLC, Json

CONSTANTS MaxPipelines,    \* 2..MaxPipelines pipelines, all with the same output type and dead-queue type
          DqConfigs,       \* dead-queue configurations, e.g. {"a", "b"}; "none" = no deadqueue section
          M_DeadQueueOnCopy, M_LenCheckedBeforeTypeRemoved, D_DqConfigOnRegistryEntry

VARIABLES cfgs,            \* the case: per pipeline its deadqueue section ("none" or a config)
          order,           \* the case: construction order (a permutation of the pipelines)
          step,            \* pipelines constructed so far
          regOutDq,        \* registry entry of the output type: DeadQueueInfo set on it?  (only the mutant writes it)
          regDqConfig,     \* registry entry of the dead-queue type: its Config field
          hasDq,           \* per constructed pipeline: the returned copy carries a DeadQueueInfo
          ownDqConfig,     \* per constructed pipeline: the config a private copy would hold (ideal)
          started          \* all constructed and started

vars == <<cfgs, order, step, regOutDq, regDqConfig, hasDq, ownDqConfig, started>>

Shapes      == {"none", "empty", "type"} \cup DqConfigs
Keys(c)     == CASE c = "none" -> {} [] c = "empty" -> {} [] c = "type" -> {"type"} [] OTHER -> {"type", "name"}
IsMap(c)    == c # "none"
Declares(c) == "type" \in Keys(c)                 \* the section names a dead queue
\* getStaticInfo: `if deadqueueMap != nil { if len(deadqueueMap) > 0 { ...set up... } }`
SetsUp(c)   == IsMap(c) /\ (IF M_LenCheckedBeforeTypeRemoved THEN Keys(c) ELSE Keys(c) \ {"type"}) # {}
\* the config the dead queue is started with: the named one, or all defaults for a type-only section
ConfigOf(c) == IF c = "type" THEN "default" ELSE c

Perms(S) == {f \in [1..Cardinality(S) -> S] : \A i, j \in 1..Cardinality(S) : f[i] = f[j] => i = j}

Init ==
  /\ \E n \in 2..MaxPipelines :
       /\ cfgs \in [1..n -> Shapes]
       /\ order \in Perms(1..n)
  /\ step = 0 /\ regOutDq = FALSE /\ regDqConfig = "unset"
  /\ hasDq = [p \in {} |-> FALSE] /\ ownDqConfig = [p \in {} |-> "none"]
  /\ started = FALSE

(* getStaticInfo for the output of pipeline p = order[step + 1] *)
Construct ==
  /\ step < Len(order)
  /\ LET p == order[step + 1]
         declares == SetsUp(cfgs[p])
         \* the registry entry after the deadqueue section was processed
         outDq == IF declares /\ ~M_DeadQueueOnCopy THEN TRUE ELSE regOutDq
     IN /\ regOutDq' = outDq
        /\ regDqConfig' = IF declares THEN ConfigOf(cfgs[p]) ELSE regDqConfig  \* deadqueueInfo.Config = config
        \* infoCopy := *info; with the mechanism the DeadQueueInfo is put on the copy only
        /\ hasDq' = [q \in DOMAIN hasDq \cup {p} |-> IF q = p THEN (outDq \/ (declares /\ M_DeadQueueOnCopy)) ELSE hasDq[q]]
        /\ ownDqConfig' = [q \in DOMAIN ownDqConfig \cup {p} |-> IF q = p THEN ConfigOf(cfgs[p]) ELSE ownDqConfig[q]]
  /\ step' = step + 1
  /\ UNCHANGED <<cfgs, order, started>>

StartAll ==
  /\ step = Len(order) /\ ~started
  /\ started' = TRUE
  /\ UNCHANGED <<cfgs, order, step, regOutDq, regDqConfig, hasDq, ownDqConfig>>

Next == Construct \/ StartAll
Spec == Init /\ [][Next]_vars

-----------------------------------------------------------------------------
\* what a given-up batch of pipeline p meets once everything is started
RoutesToDq(p)  == hasDq[p]
DqConfigOf(p)  == IF D_DqConfigOnRegistryEntry THEN regDqConfig ELSE ownDqConfig[p]

\* a pipeline has a dead queue exactly if ITS configuration declares one
DeadQueueIffDeclared == \A p \in DOMAIN hasDq : RoutesToDq(p) <=> Declares(cfgs[p])

\* ... and it is the one it declared (STRICT; fails under the named deviation)
DeadQueueIsOwn == started => \A p \in DOMAIN hasDq : Declares(cfgs[p]) => DqConfigOf(p) = ConfigOf(cfgs[p])

\* what the code really guarantees under the deviation: every dead queue runs with the config of the pipeline that
\* declared a dead queue and was constructed last
LastDeclared == LET idx == {i \in 1..Len(order) : Declares(cfgs[order[i]])} IN
                IF idx = {} THEN "unset" ELSE ConfigOf(cfgs[order[CHOOSE i \in idx : \A j \in idx : j <= i]])
DeadQueueIsOwnModuloDeviation ==
  started => \A p \in DOMAIN hasDq : Declares(cfgs[p]) =>
     DqConfigOf(p) = (IF D_DqConfigOnRegistryEntry THEN LastDeclared ELSE ConfigOf(cfgs[p]))

ExportRec == [cfgs |-> cfgs, order |-> order,
              declared |-> [p \in DOMAIN cfgs |-> Declares(cfgs[p])],
              model_dq_config |-> [p \in DOMAIN cfgs |-> IF ~Declares(cfgs[p]) THEN "none" ELSE DqConfigOf(p)]]
Export == started => PrintT(ToJson(ExportRec))

=============================================================================
