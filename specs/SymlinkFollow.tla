---------------------------- MODULE SymlinkFollow ----------------------------
(* Files reached through a symbolic link in the watched directory (the k8s layout: /var/log/containers/x.log ->
   /var/log/pods/.../0.log), plugin/input/file: watcher.notify (Lstat), provider.go processNotification / addSymlink /
   refreshSymlink / maintenanceSymlinks / maintenanceJob.

   A rotation BEHIND the link (the target is renamed, a new file is created under the target's name) changes nothing in the
   watched directory: no notification.  What notices it is maintenance:
     maintenanceJob       the job's name no longer resolves to the job's inode: the job is released (its lines were read)
     maintenanceSymlinks  every registered link is resolved again; an inode without a job gets one      (M_LinksReresolved)
   A name is registered as a link only if the watcher saw it WITHOUT following it (Lstat).  The mutant takes the link for a
   regular file (Stat): the first target gets a job, nothing ever resolves the name again.

     FollowsTheLink : right after a maintenance tick the file the link points at has a job
     so a target that stays in place for one maintenance interval is read in the same run.                              *)
EXTENDS Naturals, FiniteSets

CONSTANTS MaxInode, M_LinksReresolved

VARIABLES cur,        \* inode the link resolves to now
          jobs,       \* inodes that have a job
          registered, \* the name is in the provider's table of links
          ticked      \* a maintenance tick has just run (nothing happened since)

vars == <<cur, jobs, registered, ticked>>

\* the notification for the link's name at start-up / creation
Init == /\ cur = 1 /\ jobs = {1} /\ registered = M_LinksReresolved /\ ticked = FALSE

RotateBehind == /\ cur < MaxInode /\ cur' = cur + 1 /\ ticked' = FALSE /\ UNCHANGED <<jobs, registered>>

Tick == /\ jobs' = (IF registered THEN (jobs \cap {cur}) \cup {cur}      \* released if its name resolves elsewhere; link resolved again
                    ELSE jobs \cap {cur})                                 \* released; nobody looks at the name again
        /\ ticked' = TRUE /\ UNCHANGED <<cur, registered>>

Next == RotateBehind \/ Tick
Spec == Init /\ [][Next]_vars

FollowsTheLink == ticked => cur \in jobs
=============================================================================
