------------------------------ MODULE Admission ------------------------------
(* C20 -- admission control at the pipeline entrance.

   PART "size":  Pipeline.checkInputBytes and the admission part of Pipeline.In
   (pipeline/pipeline.go), transcribed, over one CASE = (record, max_event_size, cut_off,
   cut_off field set, decodable bit, already-committed bit), against the declarative statement
   RefusedOnlyIf / CutIsPrefix / WithinLimitUntouched.

   PART "spam":  Antispammer.IsSpam and Antispammer.Maintenance (pipeline/antispam/antispammer.go),
   transcribed over abstract integer time; one behaviour = one arrival/maintenance HISTORY, kept in
   the variable hist, for one configuration sc = (threshold, per-source rule threshold, unban
   iterations, mode).  Declarative history variables (arrivals since the previous maintenance
   round, silent rounds, "may be banned") carry the property; they never read cnt/ts.

   Configurations ("mode"):
     "exc"   : rules = nil, exceptions = [event contains EXC ; NOT (event starts with {"level":")]
     "rules" : rules = [event contains UNL -> unlimited ; source_name = name of source 2 -> T2],
               exceptions as in "exc"                     (both lists configured)
   (class "e" = a record matching one of the exceptions; the replay realises it alternately by a long
    record with EXC and by a record shorter than the inverted rule's value)
   so the threshold of a source is a function of the source (source 2 in mode "rules": T2, else T).

   Named deviations of the code from the statement (TRUE = what the code does):
     D_ResidualAfterUnban        Maintenance leaves the remainder cnt - threshold (in 1..threshold-1)
                                 on the counter of a source it has just unbanned, so fewer than
                                 `threshold` further arrivals ban the source again.
     D_ExceptionsIgnoredWithRules  IsSpam consults the exception list only when rules = nil.
   Mechanism switches (TRUE = the mechanism the code has; FALSE = a specification mutant without it,
   which must violate the named invariant -- the counterexample lies inside the replayed scope):
     M_CapPerSource          Maintenance caps a counter at unban * the SOURCE's threshold (FALSE: the
                             global threshold) -- UnbanWithin.
     M_InvertAfterShortcut   matchrule.Rule.Match negates the result of match(), "shorter than the shortest
                             value -> false" included (FALSE: the shortcut returns before the negation) --
                             MatchAgrees.

     M_LowerCopies           case folding works on a copy of the data (bytes.ToLower); FALSE: the
                             case-insensitive `contains` path lower-cases the caller's bytes in place --
                             DataUnchanged ("records within the limit are never altered": the exception
                             check runs on the very bytes Pipeline.In decodes afterwards).

     M_ErrClearedBeforeDecode  Pipeline.In resets its error variable right before the decode switch, so a
                             failed parse of the CRI timestamp (needed only for the antispam) is not taken for
                             a decoding error (FALSE: the stale error survives) -- CriAdmitted.
     M_SubjectPerException   IsSpam picks the subject (record bytes / source name) anew for every exception of
                             the list (FALSE: once a check_source_name exception was met, the later ones are
                             matched against the source name too) -- ExceptionListExempts.

     M_FirstRuleWins         the loop over the antispam rules ends at the first rule whose condition matches
                             (FALSE: a later matching rule overrides an earlier one) -- RuleListGoverns.
     M_SourceFallsBackToInputId  with source_name_meta_field set but absent from a record's meta, Pipeline.In
                             charges the record to the input's own source id (FALSE: to the empty key, shared by
                             every such source) -- SourceKeyAgrees / NoSharedCounter.

     M_PrecheckOnlyForKnownStream  the "already committed" pre-check of Pipeline.In looks the saved offset up under the
                             stream the decoder reports BEFORE decoding (cri: row.Stream; every other decoder: none,
                             so nothing is found) (FALSE: an unknown stream counts as not_set) -- RefusedOnlyForStatedReasons.

     M_RootResetPerRecord    Pipeline.In empties the pooled event's root before every decoder that only ADDS fields
                             (all but json / protobuf, which replace the root) (FALSE: only for raw and cri, so
                             nginx_error / syslog / csv / postgres records inherit the previous record's fields and
                             cut-off mark) -- DeliveredDependsOnRecordOnly.
     M_ExceptionsFirst       IsSpam consults the exception list before the global threshold 0 ("block") is applied
                             (FALSE: threshold 0 without rules refuses before the exceptions) -- ExemptNeverSpam.

   PART "seq":  two records in a row through ONE pooled event (capacity 1), each oversize-and-cut or within the
   limit, per decoder class: what is delivered for a record depends on that record and the settings alone.

   PART "offs":  the Offsets argument of Pipeline.In: saved per-stream offsets {absent, behind, equal, ahead} for
   not_set / the record's stream / another stream  x  decoder {raw, json without / with a stream field: stream known
   only after decoding; cri: known before}  x  antispam off / on, with an input whose PassEvent says "already
   committed" iff the saved offset of the record's OWN stream is not older than the record (as the file input does).

   PART "rlist":  the rule loop of IsSpam over a LIST of 1..3 rules (condition matches the record or not,
   threshold -1 / 0 / 1..3) and a global threshold: the governing threshold is that of the first matching
   rule, else the global one.

   PART "skey":  the choice of the antispam source in Pipeline.In over short interleavings of records of two
   inputs with / without the meta key: the counter a record is charged to is the meta value if the field is
   configured and present, else the input's source id.

   PART "cri":  the CRI path of Pipeline.In with the error variable threaded through its steps, over
   well-formed lines (time zone Z / numeric offset, stdout / stderr, full / partial) x antispam
   {disabled, threshold 0 + rule, large threshold}: nothing is banned, so every such record is admitted.

   PART "xlist":  the exception loop of IsSpam over a LIST of 1..3 exceptions, each checked against the
   record bytes or the source name, with the abstract bits "its rule matches the record" / "matches the
   source name": exempt iff some exception matches its own subject.

   PART "match":  cfg/matchrule Rule.Match / RuleSet.Match (what decides "a matching exception"),
   transcribed with Prepare's lower-casing, the min/max value-size shortcuts and Invert, against the
   declarative meaning: a rule matches iff Invert # (some value is a prefix / infix / suffix of the
   data, case folded if asked); a set matches iff all (and) / some (or) of its rules do.

   With both D_ switches FALSE the strict invariants (BanOnlyAfterThresholdStrict, ExceptionNeverDropsStrict)
   hold; with TRUE only the versions that excuse exactly the deviation's enabling condition do.   *)
EXTENDS Integers, Sequences, FiniteSets, TLC, Json

CONSTANTS
  Parts,            \* subset of {"size", "spam"}
  Ms, LMax,         \* size: candidate max_event_size values (0 = unlimited), body length bound when M = 0
  NSrc,             \* spam: sources are 1..NSrc
  Dts,              \* time advance before an arrival
  Interval,         \* maintenance interval in the same abstract unit
  Kinds,            \* subset of {"n","e","u","new"}: normal / matches exception / matches unlimited rule / isNewSource
  MaxSteps,
  Ts, WithDisabled,   \* thresholds >= 1, or 0 = block whatever no rule covers; WithDisabled adds the threshold -1 (TLC cfg files have no negative literals)
  T2s, Us, Modes,
  D_ResidualAfterUnban, D_ExceptionsIgnoredWithRules,
  M_CapPerSource, M_InvertAfterShortcut, M_LowerCopies, M_ErrClearedBeforeDecode, M_SubjectPerException,
  M_FirstRuleWins, M_SourceFallsBackToInputId, M_PrecheckOnlyForKnownStream,
  M_RootResetPerRecord, M_ExceptionsFirst,
  SKeyMaxLen,       \* skey: records per interleaving
  MSyms,            \* match: symbols of data and values (1 = a, 2 = b, 3 = A, the upper case of 1)
  MDataMax, MValMax,\* match: length bounds of data / values
  MCi,              \* match: candidate case_insensitive flags
  MPairLens         \* match: two-rule sets use the values a, ab, aba cut to these lengths

NL == 0
B2I(b) == IF b THEN 1 ELSE 0
Srcs == 1..NSrc

VARIABLES part,
          sq,                       \* record-sequence case
          ofs,                      \* offsets case
          rl,                       \* rule-list case
          sk,                       \* source-key case
          cr,                       \* cri case
          xl,                       \* exception-list case
          mt,                       \* match case
          sz,                       \* size case
          sc,                       \* spam configuration [T, T2, U, mode]
          known, cnt, ts, thrOf,    \* Antispammer.sources / counter / timestamp / sourcesThresholds
          now,                      \* abstract clock of event times
          hist,                     \* the history (= the case) with the model's results per step
          win, silent, pb,          \* declarative: arrivals since previous maintenance, silent rounds, may-be-banned
          resid                     \* explanation of D_ResidualAfterUnban: the counter the last maintenance left

vars == <<part, sq, ofs, rl, sk, cr, xl, mt, sz, sc, known, cnt, ts, thrOf, now, hist, win, silent, pb, resid>>

-----------------------------------------------------------------------------
(* ============================ PART size ================================= *)

Min(a, b) == IF a < b THEN a ELSE b
Prefix(s, n) == SubSeq(s, 1, Min(n, Len(s)))

SizeCases ==
  {[L |-> L, nl |-> nl, M |-> M, cut |-> cut, mark |-> mark, undec |-> undec, committed |-> com] :
     M \in Ms, L \in 0..LMax + 2, nl \in BOOLEAN, cut \in BOOLEAN, mark \in BOOLEAN,
     undec \in BOOLEAN, com \in BOOLEAN}
SizeCasesBounded == {c \in SizeCases : c.L <= (IF c.M = 0 THEN LMax ELSE c.M + 2)}

\* the record: body bytes are their own positions 1..L (so a wrong cut position shows), then the newline
Rec(c) == [i \in 1..c.L |-> i] \o (IF c.nl THEN <<NL>> ELSE <<>>)

(* --- transcription: checkInputBytes(bytes) -> (bytes, cutoff, ok) --- *)
CheckInputBytes(bytes, M, cut) ==
  LET length == Len(bytes) IN
  IF length = 0 \/ (bytes[1] = NL /\ length = 1)
    THEN [bytes |-> bytes, cutoff |-> FALSE, ok |-> FALSE]
  ELSE IF M # 0 /\ length > M
    THEN IF ~cut THEN [bytes |-> bytes, cutoff |-> FALSE, ok |-> FALSE]
         ELSE LET wasNewLine == bytes[length] = NL
                  b1 == SubSeq(bytes, 1, M)
              IN [bytes |-> IF wasNewLine THEN Append(b1, NL) ELSE b1, cutoff |-> TRUE, ok |-> TRUE]
  ELSE [bytes |-> bytes, cutoff |-> FALSE, ok |-> TRUE]

(* --- transcription: In (antispam disabled): check, decode, mark, streamEvent/PassEvent --- *)
In(c) ==
  LET chk == CheckInputBytes(Rec(c), c.M, c.cut) IN
  IF ~chk.ok THEN [ret |-> 0, bytes |-> <<>>, marked |-> FALSE]
  ELSE IF c.undec THEN [ret |-> 0, bytes |-> <<>>, marked |-> FALSE]          \* decoder error: event back to pool
  ELSE IF c.committed THEN [ret |-> 0, bytes |-> <<>>, marked |-> FALSE]      \* input.PassEvent = false
  ELSE [ret |-> 1, bytes |-> chk.bytes, marked |-> chk.cutoff /\ c.mark]

(* --- declarative statement --- *)
Empty(r) == r = <<>> \/ r = <<NL>>
Oversize(c) == c.M # 0 /\ Len(Rec(c)) > c.M
EndsNL(r) == r # <<>> /\ r[Len(r)] = NL
\* what reaches the decoder
ExpBytes(c) == IF Oversize(c) /\ c.cut
                 THEN Prefix(Rec(c), c.M) \o (IF EndsNL(Rec(c)) THEN <<NL>> ELSE <<>>)
                 ELSE Rec(c)
ExpMark(c) == Oversize(c) /\ c.cut /\ c.mark
MayRefuse(c) == Empty(Rec(c)) \/ (Oversize(c) /\ ~c.cut) \/ c.undec \/ c.committed

RefusedOnlyIf == part = "size" => (In(sz).ret = 0 => MayRefuse(sz))
CutIsPrefix ==
  part = "size" /\ Oversize(sz) /\ sz.cut /\ ~MayRefuse(sz) =>
     /\ In(sz).ret # 0
     /\ In(sz).bytes = ExpBytes(sz)
     /\ Len(ExpBytes(sz)) = sz.M + (IF sz.nl THEN 1 ELSE 0)
     /\ \A i \in 1..sz.M : ExpBytes(sz)[i] = Rec(sz)[i]
     /\ In(sz).marked = sz.mark
WithinLimitUntouched ==
  part = "size" /\ ~Oversize(sz) /\ ~MayRefuse(sz) =>
     In(sz).ret # 0 /\ In(sz).bytes = Rec(sz) /\ ~In(sz).marked

SizeExport == [part |-> "size", L |-> sz.L, nl |-> sz.nl, M |-> sz.M, cut |-> sz.cut, mark |-> sz.mark,
               undec |-> sz.undec, committed |-> sz.committed,
               rec |-> Rec(sz),
               mayRefuse |-> MayRefuse(sz),
               why |-> IF Empty(Rec(sz)) THEN "empty" ELSE IF Oversize(sz) /\ ~sz.cut THEN "oversize"
                       ELSE IF sz.undec THEN "undecodable" ELSE IF sz.committed THEN "committed" ELSE "",
               over |-> Oversize(sz),
               expBytes |-> ExpBytes(sz), expMark |-> ExpMark(sz),
               mret |-> In(sz).ret]

NoSz == [L |-> 0, nl |-> FALSE, M |-> 0, cut |-> FALSE, mark |-> FALSE, undec |-> FALSE, committed |-> FALSE]

-----------------------------------------------------------------------------
(* ============================ PART seq ================================== *)

\* decoder classes: "json" replaces the root; "raw", "cri" and "adding" (nginx_error, syslog, csv, postgres) add fields to it
SqDecs == {"json", "raw", "cri", "adding"}
SqCases == {[dec |-> d, overs |-> ov] : d \in SqDecs, ov \in [1..2 -> BOOLEAN]}
NoSq == [dec |-> "raw", overs |-> <<FALSE, FALSE>>]
\* the fields record i decodes to are tagged i; 0 is the cut-off mark field
SqOwn(c, i) == {i} \cup (IF c.overs[i] THEN {0} ELSE {})

(* --- transcription: the pooled event's root across two In calls (same event: capacity 1) --- *)
SqRootAfter(c, i, before) ==
  LET reset == IF M_RootResetPerRecord THEN c.dec # "json" ELSE c.dec \in {"raw", "cri"}   \* event.Root.DecodeString("{}")
      r0 == IF reset THEN {} ELSE before
      r1 == IF c.dec = "json" THEN {i} ELSE r0 \cup {i}                 \* DecodeBytes replaces / AddField adds
  IN IF c.overs[i] THEN r1 \cup {0} ELSE r1                        \* if cutoff && field != "": add the mark
SqDelivered(c, i) == IF i = 1 THEN SqRootAfter(c, 1, {}) ELSE SqRootAfter(c, 2, SqRootAfter(c, 1, {}))
DeliveredDependsOnRecordOnly == part = "seq" => \A i \in 1..2 : SqDelivered(sq, i) = SqOwn(sq, i)
SqExport == [part |-> "seq", dec |-> sq.dec, overs |-> sq.overs]

-----------------------------------------------------------------------------
(* ============================ PART offs ================================= *)

OCur == 10                                     \* the record's own offset
OSavedVals == {-1, 5, 10, 20}                   \* -1 = no entry; behind / equal / ahead
OStreams == {"not_set", "stderr", "stdout"}
ODecs == {"raw", "json", "json+stream", "cri"}
OffsCases == {[dec |-> d, anti |-> a, saved |-> sv] : d \in ODecs, a \in BOOLEAN, sv \in [OStreams -> OSavedVals]}
NoOfs == [dec |-> "raw", anti |-> FALSE, saved |-> [x \in OStreams |-> -1]]
\* the stream the record turns out to belong to (stream field of the decoded event, else not_set)
OOwn(c) == IF c.dec \in {"json+stream", "cri"} THEN "stderr" ELSE "not_set"
\* the stream known before decoding: only the cri decoder has one (row.Stream)
OKnown(c) == IF c.dec = "cri" THEN "stderr" ELSE ""

(* --- transcription: the pre-check of In, then streamEvent -> input.PassEvent --- *)
InOffs(c) ==
  LET consult == c.anti                                          \* !row.IsPartial && Antispam.Threshold >= 0
      name == IF M_PrecheckOnlyForKnownStream \/ OKnown(c) # "" THEN OKnown(c) ELSE "not_set"
      streamOffset == IF name \in OStreams THEN c.saved[name] ELSE -1   \* offsets.ByStream(string(row.Stream)): -1 if not found
      own == OOwn(c)
  IN IF consult /\ streamOffset > 0 /\ OCur < streamOffset THEN [ret |-> 0, why |-> "precheck"]
     ELSE IF c.saved[own] # -1 /\ ~(OCur > c.saved[own]) THEN [ret |-> 0, why |-> "PassEvent"]   \* the input's verdict
     ELSE [ret |-> 1, why |-> ""]

\* "recognised by its input as already committed": the saved offset of the record's own stream is not older than the record
OCommitted(c) == c.saved[OOwn(c)] # -1 /\ OCur <= c.saved[OOwn(c)]
RefusedOnlyForStatedReasons == part = "offs" => (InOffs(ofs).ret = 0 => OCommitted(ofs))
OExport == [part |-> "offs", dec |-> ofs.dec, anti |-> ofs.anti, cur |-> OCur,
            notset |-> ofs.saved["not_set"], stderr |-> ofs.saved["stderr"], stdout |-> ofs.saved["stdout"],
            mayRefuse |-> OCommitted(ofs), mret |-> InOffs(ofs).ret]

-----------------------------------------------------------------------------
(* ============================ PART rlist ================================ *)

\* thresholds: -1 (unlimited), 0 (block), 1, 2, 3
RThr == {-1, 0, 1, 2, 3}
RRule == [m : BOOLEAN, thr : RThr]
RLists == UNION {[1..n -> RRule] : n \in 1..3}
RGlobals == {-1, 0, 2}
NoRl == [g |-> 0, rules |-> <<>>]

(* --- transcription: the rule loop of IsSpam (rules != nil); result = what the head of IsSpam decides --- *)
RECURSIVE RLoop(_, _, _)
RLoop(rules, i, threshold) ==
  IF i > Len(rules) THEN [ret |-> "thr", thr |-> threshold]
  ELSE IF ~rules[i].m THEN RLoop(rules, i + 1, threshold)             \* if !rule.DoIfChecker.Check(data) { continue }
  ELSE IF rules[i].thr = -1 THEN [ret |-> "pass", thr |-> -1]         \* case thresholdUnlimited: return false
  ELSE IF rules[i].thr = 0 THEN [ret |-> "block", thr |-> 0]          \* case thresholdBlocked: return true
  ELSE IF M_FirstRuleWins THEN [ret |-> "thr", thr |-> rules[i].thr]  \* threshold = rule.Threshold; break
  ELSE RLoop(rules, i + 1, rules[i].thr)                              \* (mutant: no break)
\* the threshold the record is judged by: -1 never refused, 0 always refused, n >= 1 counted
RGovModel(c) == LET h == RLoop(c.rules, 1, c.g) IN h.thr

\* declarative: the first matching rule governs, else the global threshold
RGov(c) == IF \E i \in DOMAIN c.rules : c.rules[i].m
             THEN c.rules[CHOOSE i \in DOMAIN c.rules : c.rules[i].m /\ \A j \in 1..(i - 1) : ~c.rules[j].m].thr
             ELSE c.g
RuleListGoverns == part = "rlist" => RGovModel(rl) = RGov(rl)
RExport == [part |-> "rlist", g |-> rl.g, rules |-> [i \in DOMAIN rl.rules |-> <<B2I(rl.rules[i].m), rl.rules[i].thr>>],
            gov |-> RGov(rl), mgov |-> RGovModel(rl)]

-----------------------------------------------------------------------------
(* ============================ PART skey ================================= *)

\* one record: which input it comes from and what its meta says under the configured key ("none" = key absent)
SRec == [src : {1, 2}, meta : {"none", "x", "y"}]
SKeyCases == {[field |-> f, recs |-> rs] : f \in BOOLEAN, rs \in UNION {[1..n -> SRec] : n \in 1..SKeyMaxLen}}
NoSk == [field |-> FALSE, recs |-> <<>>]
SKeyThreshold == 2

(* --- transcription: the source selection of Pipeline.In --- *)
SKeyModel(field, r) ==
  IF ~field THEN <<"input", r.src>>                               \* SourceNameMetaField == "": the input's source id
  ELSE IF r.meta # "none" THEN <<"meta", r.meta>>                 \* val, ok := meta[field]; ok: id = name = val, isNewSource = false
  ELSE IF M_SourceFallsBackToInputId THEN <<"input", r.src>>      \* !ok: error logged, the input's source id
  ELSE <<"meta", "">>                                             \* (mutant: the empty value)
\* declarative
SKeyDecl(field, r) == IF field /\ r.meta # "none" THEN <<"meta", r.meta>> ELSE <<"input", r.src>>

SourceKeyAgrees == part = "skey" => \A i \in DOMAIN sk.recs : SKeyModel(sk.field, sk.recs[i]) = SKeyDecl(sk.field, sk.recs[i])
\* distinct inputs without the meta key never share a counter
NoSharedCounter ==
  part = "skey" => \A i, j \in DOMAIN sk.recs :
     sk.recs[i].src # sk.recs[j].src /\ sk.recs[i].meta = "none" /\ sk.recs[j].meta = "none"
        => SKeyModel(sk.field, sk.recs[i]) # SKeyModel(sk.field, sk.recs[j])
\* how many records so far (this one included) were charged to the same counter, declaratively and in the model
SCount(keyOf(_, _), i) == Cardinality({j \in 1..i : keyOf(sk.field, sk.recs[j]) = keyOf(sk.field, sk.recs[i])})
SExport == [part |-> "skey", field |-> sk.field, thr |-> SKeyThreshold,
            recs |-> [i \in DOMAIN sk.recs |->
                        <<sk.recs[i].src, CASE sk.recs[i].meta = "none" -> 0 [] sk.recs[i].meta = "x" -> 1 [] sk.recs[i].meta = "y" -> 2,
                          SCount(SKeyDecl, i), B2I(SCount(SKeyDecl, i) < SKeyThreshold), SCount(SKeyModel, i)>>]]

-----------------------------------------------------------------------------
(* ============================ PART cri ================================== *)

CriCases == {[zone |-> z, stream |-> st, flag |-> f, anti |-> a] :
               z \in {"z", "offset"}, st \in {"stdout", "stderr"}, f \in {"F", "P"},
               a \in {"disabled", "zero+rule", "large"}}
NoCr == [zone |-> "z", stream |-> "stdout", flag |-> "F", anti |-> "disabled"]

(* --- transcription: Pipeline.In, decoder cri, well-formed line, the variable err step by step --- *)
InCri(c) ==
  LET err0 == FALSE                                           \* row, err = decoder.DecodeCRI(bytes): well-formed
      consult == c.flag # "P" /\ c.anti # "disabled"          \* !row.IsPartial && Antispam.Threshold >= 0
      \* eventTime, err = time.Parse("2006-01-02T15:04:05.999999999Z", row.Time): fails on a numeric zone; only logged
      err1 == IF consult THEN c.zone # "z" ELSE err0
      spam == FALSE                                           \* fresh source, threshold not reached / rule lifts the block
      err2 == IF M_ErrClearedBeforeDecode THEN FALSE ELSE err1 \* err = nil
      err3 == err2                                            \* case decoder.CRI: log / time / stream copied, err untouched
  IN IF err0 THEN [ret |-> 0, why |-> "wrong cri format"]
     ELSE IF consult /\ spam THEN [ret |-> 0, why |-> "spam"]
     ELSE IF err3 THEN [ret |-> 0, why |-> "wrong log format"]   \* if err != nil { ... back to pool; return 0 }
     ELSE [ret |-> 1, why |-> ""]

\* the statement: a well-formed, non-empty record from a source that is not banned is admitted; "antispam
\* enabled" is not a reason for refusal, so the verdict does not depend on the antispam setting
CriAdmitted == part = "cri" => InCri(cr).ret = 1
CriVerdictIgnoresAntispam ==
  part = "cri" => \A a \in {"disabled", "zero+rule", "large"} : InCri([cr EXCEPT !.anti = a]).ret = InCri(cr).ret
CriExport == [part |-> "cri", zone |-> cr.zone, stream |-> cr.stream, flag |-> cr.flag, anti |-> cr.anti,
              admit |-> TRUE, mret |-> InCri(cr).ret]

-----------------------------------------------------------------------------
(* ============================ PART xlist ================================ *)

\* one exception: its subject, and whether its rule set matches the record bytes / the source name
XExc == [name : BOOLEAN, mc : BOOLEAN, mn : BOOLEAN]
XLists == UNION {[1..n -> XExc] : n \in 1..3}
XGlobals == {-1, 0, 1, 2}
NoXl == [g |-> 1, rules |-> FALSE, list |-> <<>>]

(* --- transcription: the exception loop of IsSpam (rules == nil) --- *)
RECURSIVE XLoop(_, _, _)
XLoop(list, i, sticky) ==          \* sticky: the subject left over from earlier iterations (mutant only)
  IF i > Len(list) THEN FALSE
  ELSE LET e == list[i]
           \* checkData := event; if e.CheckSourceName { checkData = []byte(name) }
           onName == IF M_SubjectPerException THEN e.name ELSE (sticky \/ e.name)
           m == IF onName THEN e.mn ELSE e.mc      \* e.Match(checkData)
       IN IF m THEN TRUE ELSE XLoop(list, i + 1, onName)
XExemptModel(list) == XLoop(list, 1, FALSE)

\* declarative: exempt iff some exception matches its own subject
XExempt(list) == \E i \in DOMAIN list : IF list[i].name THEN list[i].mn ELSE list[i].mc
ExceptionListExempts == part = "xlist" => XExemptModel(xl.list) = XExempt(xl.list)

(* --- transcription: the head of IsSpam around the loop: is the k-th record of a fresh source refused? --- *)
XSpamModel(c, k) ==
  IF ~c.rules /\ c.g = -1 THEN FALSE                                     \* rules == nil && threshold == -1
  ELSE IF ~M_ExceptionsFirst /\ ~c.rules /\ c.g = 0 THEN TRUE            \* (mutant: threshold 0 settles it first)
  ELSE IF (~c.rules \/ ~D_ExceptionsIgnoredWithRules) /\ XExemptModel(c.list) THEN FALSE
  ELSE IF c.g = -1 THEN FALSE ELSE IF c.g = 0 THEN TRUE ELSE k >= c.g    \* (the configured rule never matches)
\* a matching exception never drops anything, whatever the global threshold (with rules: the known deviation)
ExemptNeverSpam ==
  part = "xlist" /\ XExempt(xl.list) /\ ~(xl.rules /\ D_ExceptionsIgnoredWithRules) => \A k \in 1..3 : ~XSpamModel(xl, k)
XExport == [part |-> "xlist", g |-> xl.g, rules |-> xl.rules,
            excs |-> [i \in DOMAIN xl.list |-> <<B2I(xl.list[i].name), B2I(xl.list[i].mc), B2I(xl.list[i].mn)>>],
            exempt |-> XExempt(xl.list), mex |-> XExemptModel(xl.list),
            mspam |-> [k \in 1..3 |-> B2I(XSpamModel(xl, k))]]

-----------------------------------------------------------------------------
(* ============================ PART match ================================ *)

Strs(S, lo, hi) == UNION {[1..n -> S] : n \in lo..hi}
Lower(str) == [i \in DOMAIN str |-> IF str[i] = 3 THEN 1 ELSE str[i]]
MinOf(S) == CHOOSE x \in S : \A y \in S : x <= y
MaxOf(S) == CHOOSE x \in S : \A y \in S : x >= y
IsPrefixOf(v, d) == Len(v) <= Len(d) /\ SubSeq(d, 1, Len(v)) = v
IsSuffixOf(v, d) == Len(v) <= Len(d) /\ SubSeq(d, Len(d) - Len(v) + 1, Len(d)) = v
IsInfixOf(v, d) == \E o \in 0..(Len(d) - Len(v)) : SubSeq(d, o + 1, o + Len(v)) = v

MModes == {"prefix", "contains", "suffix"}
MValStrs == Strs(MSyms, 1, MValMax)
MValSeqs == {<<v>> : v \in MValStrs} \cup UNION {{<<v, w>> : w \in MValStrs \ {v}} : v \in MValStrs}
MRules == {[vals |-> vs, mode |-> m, ci |-> ci, inv |-> inv] :
             vs \in MValSeqs, m \in MModes, ci \in MCi, inv \in BOOLEAN}
MPairVals == {SubSeq(<<1, 2, 1>>, 1, n) : n \in MPairLens}
MPairRules == {[vals |-> <<v>>, mode |-> m, ci |-> FALSE, inv |-> inv] : v \in MPairVals, m \in MModes, inv \in BOOLEAN}
MData == Strs(MSyms, 0, MDataMax)
\* every single rule x every data, and every pair of (single-valued) rules x and/or x every data
MatchInit ==
  \/ \E r \in MRules, d \in MData : mt = [rules |-> <<r>>, cond |-> "and", data |-> d]
  \/ \E r1 \in MPairRules, r2 \in MPairRules, c \in {"and", "or"}, d \in MData :
        mt = [rules |-> <<r1, r2>>, cond |-> c, data |-> d]

(* --- transcription: Rule.Prepare, Rule.Match, Rule.match --- *)
RulePrepared(r) == IF r.ci THEN [i \in DOMAIN r.vals |-> Lower(r.vals[i])] ELSE r.vals
RuleMatchInner(r, raw, shortcut) ==          \* func (r *Rule) match(raw)
  LET vals == RulePrepared(r)
      minSize == MinOf({Len(vals[i]) : i \in DOMAIN vals})
      maxSize == MaxOf({Len(vals[i]) : i \in DOMAIN vals})
  IN IF shortcut /\ Len(raw) < minSize THEN FALSE
     ELSE IF r.mode = "contains"
       THEN LET data == IF r.ci THEN Lower(raw) ELSE raw
            IN \E i \in DOMAIN vals : Len(data) >= Len(vals[i]) /\ IsInfixOf(vals[i], data)
       ELSE LET cut == IF Len(raw) < maxSize THEN raw
                       ELSE IF r.mode = "prefix" THEN SubSeq(raw, 1, maxSize)
                       ELSE SubSeq(raw, Len(raw) - maxSize + 1, Len(raw))
                cd == IF r.ci THEN Lower(cut) ELSE cut
            IN \E i \in DOMAIN vals :
                 /\ Len(cd) >= Len(vals[i])
                 /\ IF r.mode = "prefix" THEN SubSeq(cd, 1, Len(vals[i])) = vals[i]
                    ELSE SubSeq(cd, Len(cd) - Len(vals[i]) + 1, Len(cd)) = vals[i]
RuleMatch(r, raw) ==                         \* func (r *Rule) Match(raw)
  IF M_InvertAfterShortcut
    THEN LET ok == RuleMatchInner(r, raw, TRUE) IN IF r.inv THEN ~ok ELSE ok
    ELSE \* mutant: the length shortcut sits in Match, ahead of the negation
         IF Len(raw) < MinOf({Len(RulePrepared(r)[i]) : i \in DOMAIN r.vals}) THEN FALSE
         ELSE LET ok == RuleMatchInner(r, raw, FALSE) IN IF r.inv THEN ~ok ELSE ok

\* what evaluating one rule leaves in the caller's bytes (Match reads them only -- unless M_LowerCopies is off)
RuleLeaves(r, raw) ==
  IF ~M_LowerCopies /\ r.mode = "contains" /\ r.ci
       /\ Len(raw) >= MinOf({Len(RulePrepared(r)[i]) : i \in DOMAIN r.vals})
    THEN Lower(raw) ELSE raw

RECURSIVE RuleSetLoop(_, _, _, _)
RuleSetLoop(rules, cond, data, i) ==         \* the loop of func (rs *RuleSet) Match(data); data = the caller's bytes
  IF i > Len(rules) THEN [m |-> cond = "and", data |-> data]
  ELSE LET m == RuleMatch(rules[i], data)
           d1 == RuleLeaves(rules[i], data)
       IN IF m /\ cond = "or" THEN [m |-> TRUE, data |-> d1]
          ELSE IF ~m /\ cond = "and" THEN [m |-> FALSE, data |-> d1]
          ELSE RuleSetLoop(rules, cond, d1, i + 1)
RuleSetEval(c) == IF Len(c.rules) = 0 THEN [m |-> FALSE, data |-> c.data] ELSE RuleSetLoop(c.rules, c.cond, c.data, 1)
RuleSetMatch(c) == RuleSetEval(c).m

(* --- declarative meaning --- *)
Fold(r, str) == IF r.ci THEN Lower(str) ELSE str
RuleHolds(r, d) ==
  \E i \in DOMAIN r.vals :
     LET v == Fold(r, r.vals[i])
         dd == Fold(r, d)
     IN CASE r.mode = "prefix" -> IsPrefixOf(v, dd)
          [] r.mode = "contains" -> IsInfixOf(v, dd)
          [] r.mode = "suffix" -> IsSuffixOf(v, dd)
RuleMeans(r, d) == RuleHolds(r, d) # r.inv
SetMeans(c) == IF c.cond = "and" THEN \A i \in DOMAIN c.rules : RuleMeans(c.rules[i], c.data)
               ELSE \E i \in DOMAIN c.rules : RuleMeans(c.rules[i], c.data)

MatchAgrees == part = "match" => RuleSetMatch(mt) = SetMeans(mt)
\* evaluating a rule set is read-only on the record
DataUnchanged == part = "match" => RuleSetEval(mt).data = mt.data

MatchExport == [part |-> "match", cond |-> mt.cond, data |-> mt.data,
                rules |-> [i \in DOMAIN mt.rules |->
                             [vals |-> mt.rules[i].vals, mode |-> mt.rules[i].mode, ci |-> mt.rules[i].ci, inv |-> mt.rules[i].inv]],
                m |-> SetMeans(mt), mm |-> RuleSetMatch(mt),
                short |-> \E i \in DOMAIN mt.rules : \A j \in DOMAIN mt.rules[i].vals : Len(mt.data) < Len(mt.rules[i].vals[j])]
NoMt == [rules |-> <<>>, cond |-> "and", data |-> <<>>]

-----------------------------------------------------------------------------
(* ============================ PART spam ================================= *)

NoSc == [T |-> 0, T2 |-> 0, U |-> 0, mode |-> "none"]
Zero == [s \in Srcs |-> 0]
AllFalse == [s \in Srcs |-> FALSE]

KindsOf(mode) == IF mode = "rules" THEN Kinds ELSE Kinds \ {"u"}

\* declarative: the threshold the settings give a source; what "disabled" and "matching exception" mean
ThrOf(s) == IF sc.mode = "rules" /\ s = 2 THEN sc.T2 ELSE sc.T
Disabled == sc.mode # "rules" /\ sc.T = -1
Excepted(kind) == kind = "e" \/ (kind = "u" /\ sc.mode = "rules")

(* --- transcription: the head of IsSpam (exceptions or rules -> threshold) --- *)
SpamHead(s, kind) ==
  IF sc.mode # "rules"                                         \* a.rules == nil
    THEN IF kind = "e" THEN [ret |-> "pass", thr |-> 0]        \* exception matched
         ELSE [ret |-> "thr", thr |-> sc.T]
    ELSE IF ~D_ExceptionsIgnoredWithRules /\ kind = "e" THEN [ret |-> "pass", thr |-> 0]
         ELSE IF kind = "u" THEN [ret |-> "pass", thr |-> 0]   \* rule with thresholdUnlimited
         ELSE IF s = 2 THEN [ret |-> "thr", thr |-> sc.T2]     \* first matching rule sets the threshold; break
         ELSE [ret |-> "thr", thr |-> sc.T]                    \* no rule matched: a.threshold

(* --- transcription: IsSpam(id, name, isNewSource, event, timeEvent, meta) --- *)
IsSpam(s, kind, t) ==
  LET h == SpamHead(s, kind)
      thr == h.thr
      has == s \in known
      c0 == IF has THEN cnt[s] ELSE 0
      t0 == IF has THEN ts[s] ELSE t            \* new source: timestamp.Add(timeEvent)
      th0 == IF has THEN thrOf[s] ELSE thr      \* sourcesThresholds[id] = threshold (only on creation)
      untouched == [touch |-> FALSE, ncnt |-> 0, nts |-> 0, nth |-> 0]
  IN IF Disabled THEN [v |-> FALSE] @@ untouched                               \* rules == nil && threshold == -1
     ELSE IF h.ret = "pass" \/ thr = -1 THEN [v |-> FALSE] @@ untouched         \* exception / unlimited
     ELSE IF thr = 0 THEN [v |-> TRUE] @@ untouched                             \* thresholdBlocked
     ELSE IF kind = "new"
       THEN [v |-> FALSE, touch |-> TRUE, ncnt |-> 0, nts |-> t0, nth |-> th0]     \* counter.Swap(0); return false
     ELSE LET diff == t - t0                                                    \* timestamp.Swap(t)
              c1 == IF diff < Interval THEN c0 + 1 ELSE c0                      \* x = Load() / x = Inc()
              x == c1
              c2 == IF x = thr THEN sc.U * thr ELSE c1                          \* ban: Swap(unban * threshold)
          IN [v |-> x >= thr, touch |-> TRUE, ncnt |-> c2, nts |-> t, nth |-> th0]

(* --- transcription: one source's turn in Maintenance --- *)
MaintOne(s) ==
  LET x == cnt[s]
      th == thrOf[s]
  IN IF x = 0 THEN [keep |-> FALSE, ncnt |-> 0]                                  \* delete(a.sources, id)
     ELSE LET isMore == x >= th
              x1 == IF x - th < 0 THEN 0 ELSE x - th
              x2 == IF ~D_ResidualAfterUnban /\ isMore /\ x1 < th THEN 0 ELSE x1   \* (ideal variant only)
              capThr == IF M_CapPerSource THEN th ELSE sc.T                          \* (mutant: global threshold)
              x3 == IF x2 > sc.U * capThr THEN sc.U * capThr ELSE x2
          IN [keep |-> TRUE, ncnt |-> x3]

BannedIn(kn, c, th, s) == s \in kn /\ c[s] >= th[s]
Banned(s) == BannedIn(known, cnt, thrOf, s)

KindCode(k) == CASE k = "n" -> 0 [] k = "e" -> 1 [] k = "u" -> 2 [] k = "new" -> 3

Arrive(s, kind, dt) ==
  /\ part = "spam" /\ Len(hist) < MaxSteps
  /\ LET t == now + dt
         r == IsSpam(s, kind, t)
         known1 == IF r.touch THEN known \cup {s} ELSE known
         cnt1 == IF r.touch THEN [cnt EXCEPT ![s] = r.ncnt] ELSE cnt
         ts1 == IF r.touch THEN [ts EXCEPT ![s] = r.nts] ELSE ts
         th1 == IF r.touch THEN [thrOf EXCEPT ![s] = r.nth] ELSE thrOf
         \* declarative bookkeeping (reads only the history and the settings)
         win1 == [win EXCEPT ![s] = @ + 1]
         thrS == ThrOf(s)
         pb1 == [pb EXCEPT ![s] = @ \/ (thrS >= 1 /\ win1[s] >= thrS)]
         resid1 == IF kind = "new" /\ r.touch THEN [resid EXCEPT ![s] = 0] ELSE resid
         \* threshold 0 = "blocked by the settings": the statement does not determine the verdict
         why == IF Disabled THEN 1 ELSE IF kind = "e" THEN 2 ELSE IF Excepted(kind) THEN 3
                ELSE IF thrS = 0 THEN 0 ELSE IF ~pb1[s] THEN 4 ELSE 0
         step == [op |-> 0, src |-> s, kind |-> KindCode(kind), dt |-> dt,
                  mv |-> B2I(r.v), exp |-> IF why = 0 THEN -1 ELSE 0, why |-> why,
                  win |-> win1[s], thr |-> thrS, resid |-> resid[s],
                  mb |-> [x \in Srcs |-> B2I(BannedIn(known1, cnt1, th1, x))],
                  al |-> [x \in Srcs |-> B2I(pb1[x])],
                  mu |-> [x \in Srcs |-> B2I(silent[x] >= sc.U + 1 /\ x # s)],
                  mc |-> [x \in Srcs |-> IF x \in known1 THEN cnt1[x] ELSE -1]]
     IN /\ known' = known1 /\ cnt' = cnt1 /\ ts' = ts1 /\ thrOf' = th1
        /\ now' = t
        /\ win' = win1 /\ pb' = pb1 /\ silent' = [silent EXCEPT ![s] = 0]
        /\ resid' = resid1
        /\ hist' = Append(hist, step)
  /\ UNCHANGED <<part, sq, ofs, rl, sk, cr, xl, mt, sz, sc>>

Maintain ==
  /\ part = "spam" /\ Len(hist) < MaxSteps
  /\ LET m == [s \in Srcs |-> IF s \in known THEN MaintOne(s) ELSE [keep |-> FALSE, ncnt |-> 0]]
         known1 == {s \in known : m[s].keep}
         cnt1 == [s \in Srcs |-> IF s \in known1 THEN m[s].ncnt ELSE 0]
         ts1 == [s \in Srcs |-> IF s \in known1 THEN ts[s] ELSE 0]
         th1 == [s \in Srcs |-> IF s \in known1 THEN thrOf[s] ELSE 0]
         silent1 == [s \in Srcs |-> silent[s] + 1]
         pb1 == [s \in Srcs |-> pb[s] /\ silent1[s] < sc.U + 1]
         step == [op |-> 1, src |-> 0, kind |-> 0, dt |-> 0, mv |-> 0, exp |-> -1, why |-> 0,
                  win |-> 0, thr |-> 0, resid |-> 0,
                  mb |-> [x \in Srcs |-> B2I(BannedIn(known1, cnt1, th1, x))],
                  al |-> [x \in Srcs |-> B2I(pb1[x])],
                  mu |-> [x \in Srcs |-> B2I(silent1[x] >= sc.U + 1)],
                  mc |-> [x \in Srcs |-> IF x \in known1 THEN cnt1[x] ELSE -1]]
     IN /\ known' = known1 /\ cnt' = cnt1 /\ ts' = ts1 /\ thrOf' = th1
        /\ win' = Zero /\ silent' = silent1 /\ pb' = pb1
        /\ resid' = cnt1
        /\ hist' = Append(hist, step)
  /\ UNCHANGED <<part, sq, ofs, rl, sk, cr, xl, mt, sz, sc, now>>

-----------------------------------------------------------------------------
Init ==
  /\ part \in Parts
  /\ IF part = "rlist" THEN \E g \in RGlobals, rs \in RLists : rl = [g |-> g, rules |-> rs] ELSE rl = NoRl
  /\ IF part = "skey" THEN sk \in SKeyCases ELSE sk = NoSk
  /\ IF part = "offs" THEN ofs \in OffsCases ELSE ofs = NoOfs
  /\ IF part = "cri" THEN cr \in CriCases ELSE cr = NoCr
  /\ IF part = "xlist" THEN \E g \in XGlobals, r \in BOOLEAN, l \in XLists : xl = [g |-> g, rules |-> r, list |-> l] ELSE xl = NoXl
  /\ IF part = "seq" THEN sq \in SqCases ELSE sq = NoSq
  /\ IF part = "size" THEN sz \in SizeCasesBounded /\ sc = NoSc /\ mt = NoMt
     ELSE IF part = "match" THEN MatchInit /\ sz = NoSz /\ sc = NoSc
     ELSE IF part \in {"cri", "xlist", "rlist", "skey", "offs", "seq"} THEN sz = NoSz /\ sc = NoSc /\ mt = NoMt
     ELSE /\ sz = NoSz /\ mt = NoMt
          /\ \E T \in Ts \cup (IF WithDisabled THEN {-1} ELSE {}), U \in Us, mode \in Modes :
               \E T2 \in (IF mode = "rules" /\ NSrc >= 2 THEN T2s ELSE {0}) :
                 sc = [T |-> T, T2 |-> T2, U |-> U, mode |-> mode]
  /\ known = {} /\ cnt = Zero /\ ts = Zero /\ thrOf = Zero /\ now = 0
  /\ hist = <<>>
  /\ win = Zero /\ silent = Zero /\ pb = AllFalse /\ resid = Zero

Next ==
  \/ \E s \in Srcs, dt \in Dts : \E kind \in KindsOf(sc.mode) : Arrive(s, kind, dt)
  \/ Maintain

Spec == Init /\ [][Next]_vars

-----------------------------------------------------------------------------
(* ================== properties of the antispam part ===================== *)
\* (every conjunct speaks about the step just taken; TLC checks it in every reachable state,
\*  hence for every step of every history)

Last == hist[Len(hist)]
HasLast == part = "spam" /\ hist # <<>>
IsArr == Last.op = 0
PrevMb(s) == IF Len(hist) = 1 THEN 0 ELSE hist[Len(hist) - 1].mb[s]
Flip(s) == Last.mb[s] = 1 /\ PrevMb(s) = 0          \* banned(s) became true in the last step

TypeOK ==
  /\ part \in {"size", "spam", "match", "cri", "xlist", "rlist", "skey", "offs", "seq"}
  /\ part = "spam" => /\ \A s \in Srcs : cnt[s] >= 0 /\ (s \notin known => cnt[s] = 0)
                      /\ \A s \in known : cnt[s] <= sc.U * thrOf[s] + MaxSteps

\* a disabled antispam never drops anything
DisabledNeverDrops == HasLast /\ IsArr /\ Disabled => Last.mv = 0

\* a matching exception (or a rule that lifts the limit) never drops anything -- as the statement has it
ExceptionNeverDropsStrict == HasLast /\ IsArr /\ Last.why \in {2, 3} => Last.mv = 0
\* ... and what the code guarantees: the exception list is consulted only when no rules are configured
ExceptionNeverDrops ==
  HasLast /\ IsArr /\ Last.why \in {2, 3}
     /\ ~(D_ExceptionsIgnoredWithRules /\ sc.mode = "rules" /\ Last.why = 2) => Last.mv = 0

\* a record is refused by the antispam only if its source is currently banned
\* (or the settings block it outright: threshold 0)
SpamOnlyIfBanned == HasLast /\ IsArr /\ Last.mv = 1 => Last.mb[Last.src] = 1 \/ Last.thr = 0

\* a source is banned only (by its own arrival and) if at least its threshold of events arrived since
\* the previous maintenance round
BanOnlyAfterThresholdStrict ==
  HasLast => \A s \in Srcs : Flip(s) => IsArr /\ Last.src = s /\ Last.win >= Last.thr
BanOnlyAfterThreshold ==
  HasLast => \A s \in Srcs : Flip(s) =>
     /\ IsArr /\ Last.src = s
     /\ \/ Last.win >= Last.thr
        \/ D_ResidualAfterUnban /\ Last.resid > 0 /\ Last.resid + Last.win >= Last.thr

\* a banned source that falls silent is unbanned within unban iterations + 1 maintenance rounds
UnbanWithin == part = "spam" => \A s \in Srcs : silent[s] >= sc.U + 1 => ~Banned(s)

\* the verdict the statement determines from the history alone: not spam when the source cannot be
\* banned (no round with >= threshold arrivals, or U+1 silent rounds since)
VerdictDeterminedStrict == HasLast /\ IsArr /\ Last.exp = 0 => Last.mv = 0
VerdictDetermined ==
  HasLast /\ IsArr /\ Last.exp = 0
     /\ ~(D_ExceptionsIgnoredWithRules /\ sc.mode = "rules" /\ Last.why = 2)
     => Last.mv = 0

-----------------------------------------------------------------------------
(* export for replay: every size case; every history of maximal length *)
\* one step = flat integer tuple:
\*   <<op(0 arrival,1 maintenance), src, kind(0 n,1 e,2 u,3 new), dt, model verdict, expected verdict (0 = must
\*     not be spam, -1 = not determined), why(1 disabled,2 exception,3 unlimited rule,4 source cannot be banned),
\*     arrivals of src since previous maintenance, threshold of src, counter left by the previous maintenance>>
\*   \o  per source: banned (model), may-be-banned (declarative),
\*        must-be-unbanned (declarative), counter (model, -1 = forgotten)
SpamExport == [part |-> "spam", T |-> sc.T, T2 |-> sc.T2, U |-> sc.U, mode |-> sc.mode, I |-> Interval, n |-> NSrc,
               steps |-> [i \in 1..Len(hist) |->
                  <<hist[i].op, hist[i].src, hist[i].kind, hist[i].dt, hist[i].mv, hist[i].exp, hist[i].why,
                    hist[i].win, hist[i].thr, hist[i].resid>>
                    \o hist[i].mb \o hist[i].al \o hist[i].mu \o hist[i].mc]]

Export ==
  IF part = "size" THEN PrintT(ToJson(SizeExport))
  ELSE IF part = "match" THEN PrintT(ToJson(MatchExport))
  ELSE IF part = "cri" THEN PrintT(ToJson(CriExport))
  ELSE IF part = "xlist" THEN PrintT(ToJson(XExport))
  ELSE IF part = "rlist" THEN PrintT(ToJson(RExport))
  ELSE IF part = "skey" THEN PrintT(ToJson(SExport))
  ELSE IF part = "offs" THEN PrintT(ToJson(OExport))
  ELSE IF part = "seq" THEN PrintT(ToJson(SqExport))
  ELSE IF Len(hist) = MaxSteps THEN PrintT(ToJson(SpamExport))
  ELSE TRUE

=============================================================================
