SPECIFICATION Spec
CONSTANTS
  MaxBatch = 3
  M_ActionLinePerEvent = TRUE
INVARIANTS RoutingOwn Export
CHECK_DEADLOCK FALSE
