SPECIFICATION Spec
CONSTANTS
  MaxLen = 5
  Ls = {0, 6, 9}
  SPs = {0, 4}
  MaxExotic = 1
  D12_EmptyLogPanics = FALSE
  D16_TimeoutDropsPartials = TRUE
  D17_SkipSurvivesTimeout = FALSE
  D20_BackslashNIsEnd = TRUE
INVARIANTS TypeOK NoPanic CutInRange BufBounded TimeoutOnlyWhileCollapsed StatementOK ResidualOK DevSwitched Export
CHECK_DEADLOCK FALSE
