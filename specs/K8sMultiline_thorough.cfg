SPECIFICATION Spec
CONSTANTS
  MaxLen = 5
  Ls = {0, 6, 9}
  SPs = {0, 4}
  MaxExotic = 1
  D12_EmptyLogPanics = TRUE
  D16_TimeoutDropsPartials = TRUE
  D17_SkipSurvivesTimeout = TRUE
  D20_BackslashNIsEnd = TRUE
INVARIANTS TypeOK CutInRange BufBounded TimeoutOnlyWhileCollapsed StatementOK ResidualOK DevSwitched Export
CHECK_DEADLOCK FALSE
