--------------------------- MODULE EventPoolLowMem ---------------------------
(* C04 / C05 -- lowMemoryEventPool (pipeline/event.go) at the granularity of its atomics, its lock
   and its condition variable.

     get:   inUse.Inc(); if <= capacity -> granted
            else inUse.Dec(); slowWaiters.Inc(); L.Lock(); if !eventsAvailable() { Wait() }; L.Unlock();
                 slowWaiters.Dec(); goto again
     back:  inUse.Dec(); getCond.Broadcast()            -- WITHOUT holding L
     heartbeat (every wakeupInterval): if slowWaiters > 0 && COND { Broadcast() }

   sync.Cond.Wait = (add to the notify list, unlock) atomically, sleep, re-lock.  A Broadcast that happens
   after a getter evaluated eventsAvailable() = false and before it is on the notify list is LOST; the only
   rescue is the heartbeat.  HeartbeatWhenAvailable = TRUE is the repaired condition (broadcast when events
   ARE available); FALSE is the condition of the pinned commit (`!eventsAvailable`), named deviation D1,
   under which the lost wake-up is never rescued.                                                        *)
EXTENDS Integers, FiniteSets, Sequences, TLC

CONSTANTS Capacity, Getters, Rounds, HeartbeatWhenAvailable,
          M_HeartbeatLives,   \* the heartbeat goroutine, once started by the first slow-path entry (sync.Once), runs for the life of the pool
          RecordGate    \* TRUE only in the trap configuration: keep the step history (it makes every path a distinct state)

VARIABLES inUse, waiters, lock, wset, pc, left, hb, hbg, gate
vars == <<inUse, waiters, lock, wset, pc, left, hb, hbg, gate>>
\* pc[g]: "idle" | "inc" | "dec" | "winc" | "lock" | "check" | "wait" | "woken" | "unlock" | "hold" | "bdec" | "bcast" | "done"
\* hb: history -- was the last lost wake-up window entered (for the trap property)
\* gate: history -- sequence of protocol steps (exported as a schedule for the gated replay)

Init == /\ inUse = 0 /\ waiters = 0 /\ lock = "none" /\ wset = {}
        /\ pc = [g \in Getters |-> "idle"] /\ left = [g \in Getters |-> Rounds]
        /\ hb = FALSE /\ hbg = "off" /\ gate = <<>>

Avail == inUse < Capacity
Rec(g, x) == IF RecordGate THEN Append(g, x) ELSE g

Start(g) == /\ pc[g] = "idle" /\ left[g] > 0
            /\ pc' = [pc EXCEPT ![g] = "inc"]
            /\ UNCHANGED <<inUse, waiters, lock, wset, left, hb, hbg, gate>>

\* inUse.Inc(): granted iff the new value <= capacity
Inc(g) == /\ pc[g] = "inc"
          /\ inUse' = inUse + 1
          /\ pc' = [pc EXCEPT ![g] = IF inUse + 1 <= Capacity THEN "hold" ELSE "dec"]
          /\ UNCHANGED <<waiters, lock, wset, left, hb, hbg, gate>>

Dec(g) == /\ pc[g] = "dec" /\ inUse' = inUse - 1 /\ pc' = [pc EXCEPT ![g] = "winc"]
          /\ UNCHANGED <<waiters, lock, wset, left, hb, hbg, gate>>

WInc(g) == /\ pc[g] = "winc" /\ waiters' = waiters + 1 /\ pc' = [pc EXCEPT ![g] = "lock"]
           /\ hbg' = IF hbg = "off" THEN "on" ELSE hbg              \* runHeartbeatOnce.Do(go wakeupWaiters): only the first time
           /\ UNCHANGED <<inUse, lock, wset, left, hb, gate>>

Lock(g) == /\ pc[g] = "lock" /\ lock = "none" /\ lock' = g /\ pc' = [pc EXCEPT ![g] = "check"]
           /\ UNCHANGED <<inUse, waiters, wset, left, hb, hbg, gate>>

\* if !eventsAvailable() { Wait() }   -- the evaluation and the registration are two steps
Check(g) == /\ pc[g] = "check"
            /\ pc' = [pc EXCEPT ![g] = IF Avail THEN "unlock" ELSE "wait"]
            /\ gate' = IF Avail THEN gate ELSE Rec(gate, <<"checked_unavailable", g>>)
            /\ UNCHANGED <<inUse, waiters, lock, wset, left, hb, hbg>>

\* Wait(): add to the notify list and unlock, atomically
Wait(g) == /\ pc[g] = "wait"
           /\ wset' = wset \cup {g} /\ lock' = "none"
           /\ pc' = [pc EXCEPT ![g] = "sleep"]
           /\ gate' = Rec(gate, <<"wait_registered", g>>)
           /\ UNCHANGED <<inUse, waiters, left, hb, hbg>>

\* woken by a Broadcast: re-acquire the lock
Relock(g) == /\ pc[g] = "woken" /\ lock = "none" /\ lock' = g /\ pc' = [pc EXCEPT ![g] = "unlock"]
             /\ UNCHANGED <<inUse, waiters, wset, left, hb, hbg, gate>>

Unlock(g) == /\ pc[g] = "unlock" /\ lock' = "none" /\ waiters' = waiters - 1 /\ pc' = [pc EXCEPT ![g] = "inc"]
             /\ UNCHANGED <<inUse, wset, left, hb, hbg, gate>>

\* the holder finishes with the event: back() = Dec, then Broadcast (no lock)
BackDec(g) == /\ pc[g] = "hold" /\ inUse' = inUse - 1 /\ pc' = [pc EXCEPT ![g] = "bcast"]
              /\ gate' = Rec(gate, <<"back_dec", g>>)
              /\ UNCHANGED <<waiters, lock, wset, left, hb, hbg>>

WakeAll(p) == [g \in Getters |-> IF g \in wset THEN "woken" ELSE p[g]]

BackBroadcast(g) ==
  /\ pc[g] = "bcast"
  /\ pc' = [WakeAll(pc) EXCEPT ![g] = IF left[g] > 1 THEN "idle" ELSE "done"]
  /\ left' = [left EXCEPT ![g] = @ - 1]
  /\ wset' = {}
  \* a getter that evaluated "unavailable" but is not yet on the notify list misses this broadcast
  /\ hb' = (RecordGate /\ (hb \/ \E h \in Getters : pc[h] = "wait"))
  /\ gate' = Rec(gate, <<"back_broadcast", g>>)
  /\ UNCHANGED <<inUse, waiters, lock, hbg>>

\* mutant: the heartbeat goroutine returns at a tick at which nobody waits; sync.Once never starts it again
HeartbeatExit == /\ ~M_HeartbeatLives /\ hbg = "on" /\ waiters = 0 /\ hbg' = "dead"
                 /\ UNCHANGED <<inUse, waiters, lock, wset, pc, left, hb, gate>>

Heartbeat ==
  /\ hbg = "on"
  /\ waiters > 0
  /\ (IF HeartbeatWhenAvailable THEN Avail ELSE ~Avail)
  /\ wset # {}
  /\ pc' = WakeAll(pc) /\ wset' = {}
  /\ gate' = Rec(gate, <<"heartbeat", 0>>)
  /\ UNCHANGED <<inUse, waiters, lock, left, hb, hbg>>

GStep(g) == Start(g) \/ Inc(g) \/ Dec(g) \/ WInc(g) \/ Lock(g) \/ Check(g) \/ Wait(g) \/ Relock(g) \/ Unlock(g)
            \/ BackDec(g) \/ BackBroadcast(g)
Next == (\E g \in Getters : GStep(g)) \/ Heartbeat \/ HeartbeatExit
Spec == Init /\ [][Next]_vars
FairSpec == Spec /\ \A g \in Getters : WF_vars(GStep(g)) /\ WF_vars(Heartbeat)

-----------------------------------------------------------------------------
Holders == {g \in Getters : pc[g] = "hold"}
\* C05: granted events never exceed capacity (the transient Inc overshoot is not a grant)
Bounded == Cardinality(Holders) <= Capacity
\* the pool's own inUse() accessor is min(inUse, capacity): never below the number of granted events
CounterSound == inUse >= Cardinality(Holders) /\ inUse <= Capacity + Cardinality(Getters)
MutexOK == lock = "none" \/ pc[lock] \in {"check", "wait", "unlock"}
\* C04 safety form: a state in which somebody sleeps on the condition although nobody can ever wake it
Wedged == /\ wset # {}
          /\ \A g \in Getters : pc[g] \in {"sleep", "done"} \/ (pc[g] = "idle" /\ left[g] = 0)
          /\ ~(hbg = "on" /\ waiters > 0 /\ (IF HeartbeatWhenAvailable THEN Avail ELSE ~Avail))
NoWedge == ~Wedged
\* C04 liveness: every getter finishes all its rounds (each get is eventually granted)
AllDone == <>(\A g \in Getters : pc[g] = "done")
\* trap: the negation of "the lost wake-up window was entered" -- its counterexample is the schedule for the gated replay
NeverLostWakeup == ~hb
VIEW_NoHistory == <<inUse, waiters, lock, wset, pc, left, hbg>>
=============================================================================
