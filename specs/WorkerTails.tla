----------------------------- MODULE WorkerTails -----------------------------
(* One file-input worker goroutine serves several files in turn (worker.work: `for job := range jobsChan`).
   The worker owns ONE accumulation buffer for its whole life; a file that reaches EOF in the middle of a line keeps that
   beginning as its tail until the writer completes the line -- possibly many other files later.

   FileReader.tla specifies what one file must see.  This module specifies the only state the files of one worker share,
   at the granularity that matters: WHO may still read a buffer's bytes.

     acc       -- the worker's accumulation buffer: the bytes it currently holds belong to file accOf (0 = none)
     tail[f]   -- the held-back beginning of a line of file f: "own" = a copy in f's own buffer (job.tail = append(job.tail[:0], accumBuf...)),
                  "acc" = a slice of the worker's buffer
     want[f]   -- number of held-back bytes of f according to FileReader.tla (abstracted to 0 = none, 1 = some)

   Serve(f): the worker takes f, copies f's tail into acc (accumBuf = append(accumBuf[:0], job.tail...)), reads to EOF,
   and stores the new tail.  With M_TailCopied the tail is a copy; without it the tail aliases acc, which the NEXT file
   served by this worker overwrites.                                                                               *)
EXTENDS Naturals, FiniteSets

CONSTANTS Files, M_TailCopied, MaxServes

VARIABLES accOf,     \* whose bytes the worker's buffer holds
          tail,      \* [Files -> [where : {"none", "own", "acc"}, intact : BOOLEAN]]
          served     \* bound

vars == <<accOf, tail, served>>

Init == /\ accOf = 0
        /\ tail = [f \in Files |-> [where |-> "none", intact |-> TRUE]]
        /\ served = 0

\* the worker serves f and f ends (again) in the middle of a line (ends = TRUE) or on a line boundary
Serve(f, ends) ==
  /\ served < MaxServes
  /\ served' = served + 1
  /\ accOf' = f
  /\ tail' = [g \in Files |->
               IF g = f
                 THEN IF ends THEN [where |-> IF M_TailCopied THEN "own" ELSE "acc",
                                    \* the completed part starts from f's old tail: it must have been intact when it was copied in.
                                    \* (a self-copy from an alias of acc is harmless: same bytes, same place)
                                    intact |-> tail[f].intact]
                              ELSE [where |-> "none", intact |-> tail[f].intact]
                 \* every OTHER file whose tail is a slice of the worker's buffer has just been overwritten
                 ELSE IF tail[g].where = "acc" THEN [tail[g] EXCEPT !.intact = FALSE] ELSE tail[g]]

Next == \E f \in Files, ends \in BOOLEAN : Serve(f, ends)
Spec == Init /\ [][Next]_vars

\* C06 (held-back tail clause): what a file holds back is its own unterminated beginning, whatever the worker did for other files
TailsIntact == \A f \in Files : tail[f].intact
TypeOK == accOf \in Files \cup {0} /\ served \in 0..MaxServes
=============================================================================
