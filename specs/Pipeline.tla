------------------------------- MODULE Pipeline -------------------------------
(* Design model of file.d's data path, one action per critical section of the implementation:

     reader:    Pipeline.In = admission, pool.get, stream.put (+ charge)          pipeline.go, stream.go
     processor: joinStream pop / attach / instantGet(+leave) / doActions result /
                blockGet / time-out / Propagate / Router.Out                      processor.go, streamer.go
     batcher:   Add(+seal) / heartbeat flush / worker take / send call, return /
                retry or give up / Router.Fail -> dead queue / commit turn /
                per-event Commit / batch freed                                    batch.go, backoff.go, router.go
     finalize:  input.Commit, stream.commit (monotone max) + tryDetach, pool.back  pipeline.go

   The action chain is [A0: filter, A1: join-like]: an event's class decides what each action
   returns (P pass, D discard at A0, B break at A0, H hold at A1, C collapse into a held run at A1,
   R refused at admission, X refused by the input's own PassEvent after the pool handed out an event, N not matched by A1's selector: A1 is skipped unless it is busy with a run, S (and Y: the last child is held by A1) split at A0: Spawn produces KidsPer child events that run through A1 and to the output
   inside the parent's Do call, then the parent breaks out and follows them to the output as a child-parent event,
   which no send function sees and whose Commit is the one the input is notified of).  Mechanism switches M_* (all TRUE = the code as it is) let TLC produce
   the shortest schedule that distinguishes an implementation with the mechanism from one without;
   D_* switches name behaviour of the real code that deviates from the ideal.

   The listed properties are evaluated through the observable history `obs` (PipelineObs.tla).   *)
EXTENDS PipelineObs, Json

CONSTANTS
  Srcs, Strs,          \* source ids, stream names
  Classes,             \* subset of {"P","D","B","H","C","R"} the lines are drawn from
  NProcs, Capacity, NWorkers, BatchCount, Retry, HasDQ, MaxFails,
  KidsPer, KidBase,        \* split: children per S line (0 = no split); the children of line e carry the ids
                           \* KidBase + KidsPer*(e-1) + 1..KidsPer (the numbering of the harness: KidBase = 20, KidsPer = 2);
                           \* the lines are 1..NL with NL = (MaxId - KidBase) / KidsPer <= KidBase
  M_SeqCommit,             \* commitBatch waits for its turn (commitSeq = batch.seq)
  M_NoNotifyOnDiscard,     \* discard/collapse/hold finalize WITHOUT notifying the input
  M_DetachWhenCommitted,   \* a stream is released only when away = commit
  M_RetryHolds,            \* nothing is committed while the retry loop is pending
  M_DQEmptiesBatch,        \* after the dead-queue hand-over the main batch is emptied
  M_CommitMax,             \* stream.commit keeps the maximum
  M_BusyTakesAll,          \* an action that holds a run receives EVERY event of the stream, also one its selector does not match
  M_SpawnFlushesBusy,      \* processor.Spawn ends by sending a time-out event to every busy action
  M_DiscardResetsBusy,     \* an action that answers ActionDiscard is no longer busy (doActions: tryResetBusy) -- class U: a run of collapsed
                           \* chunks without a held event (the k8s multi-line action) ends that way when its time-out comes
  M_RefusedBackOnce,       \* an event refused by the input's PassEvent is returned to the pool exactly once
  M_TimerFlushesAny        \* the batch heartbeat seals ANY non-empty open batch, also one that holds only split parents

Procs == 1..NProcs
Workers == 1..NWorkers
Sids == Srcs \X Strs

VARIABLES
  lines,     \* [Ev -> [src, stream, cls]] chosen at Init: every assignment is a different system
  rd,        \* number of lines read so far (ids are read in increasing order)
  inUse,     \* pool occupancy
  st,        \* [Sids -> [q, att, det, away, com, cur]]
  seqOf,     \* [Ev -> Nat] sequence number within its stream
  charged,   \* LIFO stack of stream ids
  pr,        \* [Procs -> [pc, sid, ev, act, held, busy]]
  bt,        \* [Batchers -> [cur, free, full, outSeq, commitSeq, lock]]
  wk,        \* [Batchers -> [Workers -> [pc, ids, seq, tries, i]]]
  nfail,     \* failures injected so far
  obs,       \* observable history (PipelineObs)
  sched      \* history: gate-level schedule of this behaviour (for replay into the real code)

vars == <<lines, rd, inUse, st, seqOf, charged, pr, bt, wk, nfail, obs, sched>>
\* VIEW: the schedule history and the ORDER of finished history do not influence future steps or
\* future violation records (those depend on sets of committed ids, not on their order)
view == <<lines, rd, inUse, st, seqOf, charged, pr, bt, wk, nfail,
          obs.viol, obs.fate, {<<obs.commits[i].id, obs.commits[i].by>> : i \in 1..Len(obs.commits)},
          obs.failed, obs.onerr, obs.removed, obs.bdone, obs.att, obs.live, obs.batches,
          [b \in Batchers |-> SelectSeq(obs.added[b], LAMBDA x : x \notin SeqToSet(obs.bcommit[b]))],
          [b \in Batchers |-> SeqToSet(obs.bcommit[b])]>>

NoSid == <<0, "">>
IdleProc == [pc |-> "join", sid |-> NoSid, ev |-> 0, act |-> 0, held |-> 0, busy |-> FALSE, kid |-> 0]
IdleWorker == [pc |-> "idle", ids |-> <<>>, seq |-> 0, tries |-> 0, i |-> 0]
NL == IF KidsPer = 0 THEN MaxId ELSE (MaxId - KidBase) \div KidsPer       \* number of line ids (NL <= KidBase)
NLines == Len(lines)
IsKid(e) == KidsPer > 0 /\ e > KidBase
ParentOf(k) == ((k - KidBase - 1) \div KidsPer) + 1
Kids(e) == [i \in 1..KidsPer |-> KidBase + KidsPer * (e - 1) + i]
\* children pass the join-like action, except the LAST child of a class-Y split, which that action holds
Cls(e) == IF ~IsKid(e) THEN lines[e].cls
          ELSE IF lines[ParentOf(e)].cls = "Y" /\ e = Kids(ParentOf(e))[KidsPer] THEN "H" ELSE "K"
IsParent(e) == KidsPer > 0 /\ e # 0 /\ ~IsKid(e) /\ lines[e].cls \in {"S", "Y"}
LineOf(e) == IF IsKid(e) THEN ParentOf(e) ELSE e
SidOf(e) == <<lines[LineOf(e)].src, lines[LineOf(e)].stream>>
\* the event a processor is working on: its stream's event, or the child of it that is being pushed through
Cur(p) == IF pr[p].kid = 0 THEN pr[p].ev ELSE Kids(pr[p].ev)[pr[p].kid]
HasIter(ids) == \E i \in 1..Len(ids) : ~IsParent(ids[i])
OffOf(e) == e * 10          \* offsets grow with read order

\* everything except the choice of the lines (used by trace validation, where the lines are those of the recorded run)
InitRest ==
  /\ rd = 0 /\ inUse = 0
  /\ st = [s \in Sids |-> [q |-> <<>>, att |-> FALSE, det |-> FALSE, away |-> 0, com |-> 0, cur |-> 0]]
  /\ seqOf = [e \in Ev |-> 0]
  /\ charged = <<>>
  /\ pr = [p \in Procs |-> IdleProc]
  /\ bt = [b \in Batchers |-> [cur |-> <<>>, hasCur |-> FALSE, free |-> NWorkers, full |-> <<>>,
                               outSeq |-> 0, commitSeq |-> 0, lock |-> 0]]
  /\ wk = [b \in Batchers |-> [k \in Workers |-> IdleWorker]]
  /\ nfail = 0
  /\ obs = ObsNew([cap |-> Capacity, batch |-> BatchCount, dqbatch |-> BatchCount, retry |-> Retry, dq |-> HasDQ, gaps |-> KidsPer > 0, retention |-> 0, mult10 |-> 10])
  /\ sched = <<>>

Init ==
  /\ lines \in [1..NL -> [src : Srcs, stream : Strs, cls : Classes]]
  /\ \A e \in 1..NL : e > 1 => lines[e].src >= lines[e - 1].src      \* symmetry: sources in blocks
  /\ InitRest
InitWith(L) == lines = L /\ InitRest
\* the same as an action (trace validation of several recorded runs in one file: a Reset line starts the next run)
ResetWith(L) ==
  /\ lines' = L
  /\ rd' = 0 /\ inUse' = 0
  /\ st' = [s \in Sids |-> [q |-> <<>>, att |-> FALSE, det |-> FALSE, away |-> 0, com |-> 0, cur |-> 0]]
  /\ seqOf' = [e \in Ev |-> 0]
  /\ charged' = <<>>
  /\ pr' = [p \in Procs |-> IdleProc]
  /\ bt' = [b \in Batchers |-> [cur |-> <<>>, hasCur |-> FALSE, free |-> NWorkers, full |-> <<>>,
                                outSeq |-> 0, commitSeq |-> 0, lock |-> 0]]
  /\ wk' = [b \in Batchers |-> [k \in Workers |-> IdleWorker]]
  /\ nfail' = 0
  /\ obs' = ObsNew([cap |-> Capacity, batch |-> BatchCount, dqbatch |-> BatchCount, retry |-> Retry, dq |-> HasDQ, gaps |-> KidsPer > 0,
                    retention |-> 0, mult10 |-> 10])
  /\ sched' = <<>>

-----------------------------------------------------------------------------
(* stream helpers (stream.go) *)

\* stream.commit(event) followed by tryDetach when detaching; returns <<stream', charge?>>
StreamCommit(s, seq) ==
  LET c == IF M_CommitMax THEN (IF seq < s.com THEN s.com ELSE seq) ELSE seq
      s1 == [s EXCEPT !.com = c]
  IN IF s1.det /\ (s1.away = s1.com \/ ~M_DetachWhenCommitted)
       THEN <<[s1 EXCEPT !.att = FALSE, !.det = FALSE], s1.q # <<>>>>
       ELSE <<s1, FALSE>>

\* finalize(event, notifyInput, backEvent) for a regular event e
\* returns the new <<st, charged, inUse, obs>> given the current ones
Finalize(e, notify, back, by, S, Ch, U, O) ==
  LET sid == SidOf(e)
      r == StreamCommit(S[sid], seqOf[e])
  IN <<[S EXCEPT ![sid] = r[1]],
       IF r[2] THEN Append(Ch, sid) ELSE Ch,
       IF back THEN U - 1 ELSE U,
       IF notify THEN OCommit(O, e, by) ELSE O>>

-----------------------------------------------------------------------------
(* reader: Pipeline.In *)
ReadIn ==
  /\ rd < NLines
  /\ LET e == rd + 1
         sid == SidOf(e)
         s == st[sid]
     IN IF lines[e].cls = "R"
          THEN /\ obs' = OIn(obs, e, lines[e].src, lines[e].stream, OffOf(e), e, FALSE)
               /\ UNCHANGED <<inUse, st, seqOf, charged>>
          ELSE IF lines[e].cls = "X"                                  \* the input's own PassEvent refuses: the pooled event goes back, once
          THEN /\ inUse < Capacity
               /\ inUse' = IF M_RefusedBackOnce THEN inUse ELSE inUse - 1
               /\ obs' = OInRet(OOwn(OInCall(obs, e, lines[e].src, lines[e].stream, OffOf(e), e), e, e), e, FALSE)
               /\ UNCHANGED <<st, seqOf, charged>>
          ELSE /\ inUse < Capacity                                    \* pool.get blocks at capacity
               /\ inUse' = inUse + 1
               /\ seqOf' = [seqOf EXCEPT ![e] = s.cur + 1]
               /\ st' = [st EXCEPT ![sid] = [s EXCEPT !.q = Append(@, e), !.cur = @ + 1]]
               /\ charged' = IF s.q = <<>> /\ ~s.att THEN Append(charged, sid) ELSE charged
               /\ obs' = OIn(obs, e, lines[e].src, lines[e].stream, OffOf(e), e, TRUE)
  /\ rd' = rd + 1
  /\ sched' = Append(sched, <<"in", lines[rd + 1].src, rd + 1>>)
  /\ UNCHANGED <<lines, pr, bt, wk, nfail>>

-----------------------------------------------------------------------------
(* processor *)
JoinPop(p) ==
  /\ pr[p].pc = "join" /\ charged # <<>>
  /\ pr' = [pr EXCEPT ![p] = [@ EXCEPT !.pc = "attach", !.sid = charged[Len(charged)]]]
  /\ charged' = SubSeq(charged, 1, Len(charged) - 1)
  /\ UNCHANGED <<lines, rd, inUse, st, seqOf, bt, wk, nfail, obs, sched>>

Attach(p) ==
  /\ pr[p].pc = "attach"
  /\ st' = [st EXCEPT ![pr[p].sid].att = TRUE]
  /\ pr' = [pr EXCEPT ![p].pc = "get"]
  /\ UNCHANGED <<lines, rd, inUse, seqOf, charged, bt, wk, nfail, obs, sched>>

\* stream.get: pop the head, away := its sequence number
Pop(s) == [s EXCEPT !.q = Tail(@), !.away = IF Head(s.q) = 0 THEN @ ELSE seqOf[Head(s.q)]]

InstantGet(p) ==
  /\ pr[p].pc = "get"
  /\ LET sid == pr[p].sid
         s == st[sid]
     IN IF s.q = <<>>
          THEN \* leave(): isDetaching := true; tryDetach()
               /\ st' = [st EXCEPT ![sid] = IF s.away = s.com \/ ~M_DetachWhenCommitted
                                              THEN [s EXCEPT !.att = FALSE, !.det = FALSE]
                                              ELSE [s EXCEPT !.det = TRUE]]
               /\ pr' = [pr EXCEPT ![p] = [@ EXCEPT !.pc = "join", !.sid = NoSid, !.ev = 0]]
          ELSE /\ st' = [st EXCEPT ![sid] = Pop(s)]
               /\ pr' = [pr EXCEPT ![p] = [@ EXCEPT !.pc = "act", !.ev = Head(s.q), !.act = 0]]
  /\ UNCHANGED <<lines, rd, inUse, seqOf, charged, bt, wk, nfail, obs, sched>>

\* blockGet: wait for the next event of the same stream while an action is busy
BlockGet(p) ==
  /\ pr[p].pc = "blockget"
  /\ LET sid == pr[p].sid
         s == st[sid]
     IN /\ s.q # <<>>
        /\ st' = [st EXCEPT ![sid] = Pop(s)]
        /\ pr' = [pr EXCEPT ![p] = [@ EXCEPT !.pc = "act", !.ev = Head(s.q),
                                             \* a time-out is addressed to the last action; here that is A1
                                             !.act = IF Head(s.q) = 0 THEN 1 ELSE 0]]
  /\ UNCHANGED <<lines, rd, inUse, seqOf, charged, bt, wk, nfail, obs, sched>>

\* streamer heartbeat: tryUnblock injects a time-out event into a blocked, empty stream
TimeoutInject(p) ==
  /\ pr[p].pc = "blockget"
  /\ st[pr[p].sid].q = <<>>
  /\ st' = [st EXCEPT ![pr[p].sid].q = <<0>>]
  /\ sched' = Append(sched, <<"timeout", pr[p].sid[1], 0>>)
  /\ UNCHANGED <<lines, rd, inUse, seqOf, charged, pr, bt, wk, nfail, obs>>

\* Batcher.Add(e) as one critical section under mu: getBatch (blocks while no batch is free),
\* append, seal when the count limit is reached.  Returns the new batcher record.
CanAdd(b) == bt[b].hasCur \/ bt[b].free > 0
Added(B, e) ==
  LET B1 == IF B.hasCur THEN B ELSE [B EXCEPT !.hasCur = TRUE, !.free = @ - 1, !.cur = <<>>]
      B2 == [B1 EXCEPT !.cur = Append(@, e)]
  IN IF Len(B2.cur) >= BatchCount
       THEN [B2 EXCEPT !.full = Append(@, [ids |-> B2.cur, seq |-> B2.outSeq]), !.outSeq = @ + 1,
                       !.cur = <<>>, !.hasCur = FALSE]
       ELSE B2

\* A1 must first flush its held run (Propagate -> Router.Out) when a non-continuation arrives
NeedsFlush(p) ==
  /\ pr[p].pc = "act" /\ pr[p].act = 1 /\ pr[p].held # 0
  /\ (IF Cur(p) = 0 THEN TRUE ELSE Cls(Cur(p)) # "C")

Flush(p) ==
  /\ NeedsFlush(p)
  /\ CanAdd("main")
  /\ bt' = [bt EXCEPT !["main"] = Added(@, pr[p].held)]
  /\ obs' = OAdd(OPropagate(obs, pr[p].held), "main", pr[p].held)
  /\ pr' = [pr EXCEPT ![p] = [@ EXCEPT !.held = 0, !.busy = FALSE]]
  /\ UNCHANGED <<lines, rd, inUse, st, seqOf, charged, wk, nfail, sched>>

\* one action of the chain returns its result for the current event
DoAct(p) ==
  /\ pr[p].pc = "act" /\ ~NeedsFlush(p)
  /\ LET e == Cur(p)
         a == pr[p].act
         cls == IF e = 0 THEN "T" ELSE Cls(e)
         res == IF e = 0 THEN (IF a = 0 THEN "pass" ELSE "discard")          \* time-out: A0 passes it on, A1 discards it
                ELSE IF a = 0 THEN (CASE cls = "D" -> "discard" [] cls = "B" -> "break"
                                      [] cls \in {"S", "Y"} /\ KidsPer > 0 -> "spawn" [] OTHER -> "pass")
                ELSE (CASE cls = "H" -> "hold"
                        [] cls = "C" -> IF pr[p].held # 0 THEN "collapse" ELSE "pass"
                        [] cls = "U" -> "collapse"                             \* a chunk: kept by the action itself, nothing is held
                        [] OTHER -> "pass")
         notify == ~M_NoNotifyOnDiscard
     IN /\ sched' = IF e = 0 THEN sched ELSE Append(sched, <<"do", e, a>>)
        /\ CASE res = "pass" /\ a = 0 /\ ~(cls = "N" /\ (~pr[p].busy \/ ~M_BusyTakesAll)) ->
                  /\ pr' = [pr EXCEPT ![p].act = 1]
                  /\ UNCHANGED <<st, charged, inUse, obs>>
             [] res = "pass" /\ a = 0 /\ cls = "N" /\ (~pr[p].busy \/ ~M_BusyTakesAll) ->   \* doActions: !busy && !isMatch -> next action
                  /\ pr' = [pr EXCEPT ![p].pc = "out"]
                  /\ obs' = ODo(obs, e, "pass")
                  /\ UNCHANGED <<st, charged, inUse>>
             [] res = "spawn" ->                                               \* processor.Spawn: the first child enters A1
                  /\ pr' = [pr EXCEPT ![p] = [@ EXCEPT !.kid = 1, !.act = 1]]
                  /\ obs' = OSpawn(obs, e, Kids(e))
                  /\ UNCHANGED <<st, charged, inUse>>
             [] res \in {"pass", "break"} /\ (a = 1 \/ res = "break") ->
                  /\ pr' = [pr EXCEPT ![p].pc = "out"]
                  /\ obs' = ODo(obs, e, res)
                  /\ UNCHANGED <<st, charged, inUse>>
             [] res = "discard" /\ e = 0 ->                                   \* finalize ignores time-out events
                  \* (a held run was flushed before: Flush; what can still be busy here is a run of chunks, which the action drops)
                  /\ LET b2 == IF M_DiscardResetsBusy THEN FALSE ELSE pr[p].busy
                     IN pr' = [pr EXCEPT ![p] = [@ EXCEPT !.busy = b2, !.pc = IF b2 THEN "blockget" ELSE "get", !.ev = 0]]
                  /\ UNCHANGED <<st, charged, inUse, obs>>
             [] res \in {"discard", "collapse"} /\ e # 0 ->
                  LET f == Finalize(e, notify, TRUE, "proc", st, charged, inUse, ODo(obs, e, res)) IN
                  /\ st' = f[1] /\ charged' = f[2] /\ inUse' = f[3] /\ obs' = f[4]
                  /\ pr' = [pr EXCEPT ![p] = [@ EXCEPT !.busy = IF res = "collapse" THEN TRUE ELSE @,
                                                       !.pc = IF res = "collapse" \/ pr[p].busy THEN "blockget" ELSE "get",
                                                       !.ev = 0]]
             [] res = "hold" /\ pr[p].kid # 0 ->                              \* a child is held (finalize ignores children); Spawn goes on
                  /\ obs' = ODo(obs, e, res)
                  /\ pr' = [pr EXCEPT ![p] = IF pr[p].kid < KidsPer THEN [@ EXCEPT !.busy = TRUE, !.held = e, !.kid = @ + 1]
                                                ELSE [@ EXCEPT !.busy = TRUE, !.held = e, !.kid = 0, !.pc = "spawned"]]
                  /\ UNCHANGED <<st, charged, inUse>>
             [] res = "hold" /\ pr[p].kid = 0 ->
                  LET f == Finalize(e, notify, FALSE, "proc", st, charged, inUse, ODo(obs, e, res)) IN
                  /\ st' = f[1] /\ charged' = f[2] /\ inUse' = f[3] /\ obs' = f[4]
                  /\ pr' = [pr EXCEPT ![p] = [@ EXCEPT !.busy = TRUE, !.held = e, !.pc = "blockget", !.ev = 0]]
  /\ UNCHANGED <<lines, rd, seqOf, bt, wk, nfail>>

\* Router.Out -> output.Out -> Batcher.Add
Out(p) ==
  /\ pr[p].pc = "out"
  /\ CanAdd("main")
  /\ bt' = [bt EXCEPT !["main"] = Added(@, Cur(p))]
  /\ obs' = OAdd(obs, "main", Cur(p))
  /\ pr' = [pr EXCEPT ![p] =
              IF pr[p].kid = 0
                THEN \* processSequence: after an event that went to the output the processor goes on with instantGet (dischargeStream),
                     \* whether or not an action is busy.  An event can only pass while an action stays busy by leaving the chain BEFORE
                     \* it (ActionBreak); in file.d only split does that, and processor.Spawn ends by sending a time-out event to every
                     \* busy action, so none is busy then.  Class B (a bare break) is therefore never combined with H/C in the configs.
                     [@ EXCEPT !.pc = "get", !.ev = 0]
              ELSE IF pr[p].kid < KidsPer THEN [@ EXCEPT !.pc = "act", !.act = 1, !.kid = @ + 1]     \* next child
              ELSE [@ EXCEPT !.pc = "spawned", !.kid = 0]]
  /\ UNCHANGED <<lines, rd, inUse, st, seqOf, charged, wk, nfail, sched>>

\* the end of processor.Spawn: every busy action gets a time-out event, so a run that a child started (or continued) is flushed
\* before the parent goes on
SpawnFlush(p) ==
  /\ pr[p].pc = "spawned" /\ pr[p].held # 0 /\ M_SpawnFlushesBusy
  /\ CanAdd("main")
  /\ bt' = [bt EXCEPT !["main"] = Added(@, pr[p].held)]
  /\ obs' = OAdd(OPropagate(obs, pr[p].held), "main", pr[p].held)
  /\ pr' = [pr EXCEPT ![p] = [@ EXCEPT !.held = 0, !.busy = FALSE]]
  /\ UNCHANGED <<lines, rd, inUse, st, seqOf, charged, wk, nfail, sched>>

\* Spawn returned: the split action returns ActionBreak for the parent, which goes to the output after its children
SpawnDone(p) ==
  /\ pr[p].pc = "spawned" /\ (pr[p].held = 0 \/ ~M_SpawnFlushesBusy)
  /\ obs' = ODo(obs, pr[p].ev, "break")
  /\ pr' = [pr EXCEPT ![p].pc = "out"]
  /\ UNCHANGED <<lines, rd, inUse, st, seqOf, charged, bt, wk, nfail, sched>>

-----------------------------------------------------------------------------
(* batcher (b \in Batchers) *)

\* heartbeat: a non-empty open batch older than the flush timeout is sealed
FlushTimer(b) ==
  /\ bt[b].hasCur /\ bt[b].cur # <<>>
  /\ (M_TimerFlushesAny \/ HasIter(bt[b].cur))
  /\ bt' = [bt EXCEPT ![b] = [@ EXCEPT !.full = Append(@, [ids |-> bt[b].cur, seq |-> bt[b].outSeq]),
                                       !.outSeq = @ + 1, !.cur = <<>>, !.hasCur = FALSE]]
  /\ sched' = Append(sched, <<"flush", b, 0>>)
  /\ UNCHANGED <<lines, rd, inUse, st, seqOf, charged, pr, wk, nfail, obs>>

WorkerTake(b, k) ==
  /\ wk[b][k].pc = "idle" /\ bt[b].full # <<>>
  /\ wk' = [wk EXCEPT ![b][k] = [pc |-> IF HasIter(Head(bt[b].full).ids) THEN "send" ELSE "turn",   \* batch.hasIterableEvents
                                  ids |-> Head(bt[b].full).ids, seq |-> Head(bt[b].full).seq,
                                  tries |-> 0, i |-> 0]]
  /\ bt' = [bt EXCEPT ![b].full = Tail(@)]
  /\ UNCHANGED <<lines, rd, inUse, st, seqOf, charged, pr, nfail, obs, sched>>

SendCall(b, k) ==
  /\ wk[b][k].pc = "send"
  /\ wk' = [wk EXCEPT ![b][k].pc = "sending"]
  /\ obs' = OSendCall(obs, b, wk[b][k].seq, wk[b][k].ids, 0)
  /\ UNCHANGED <<lines, rd, inUse, st, seqOf, charged, pr, bt, nfail, sched>>

SendOK(b, k) ==
  /\ wk[b][k].pc = "sending"
  /\ wk' = [wk EXCEPT ![b][k].pc = "turn"]
  /\ obs' = OSendRet(obs, b, wk[b][k].ids, TRUE, 0)
  /\ sched' = Append(sched, <<"send", wk[b][k].ids[1], 1>>)
  /\ UNCHANGED <<lines, rd, inUse, st, seqOf, charged, pr, bt, nfail>>

\* a failed attempt: retry (numTries++) or give up (onRetryError)
SendFail(b, k) ==
  /\ wk[b][k].pc = "sending"
  /\ nfail < MaxFails
  /\ b = "main"                                   \* the dead queue's own sends are kept reliable here
  /\ nfail' = nfail + 1
  /\ obs' = OSendRet(obs, b, wk[b][k].ids, FALSE, 0)
  /\ sched' = Append(sched, <<"send", wk[b][k].ids[1], 0>>)
  /\ wk' = [wk EXCEPT ![b][k].pc = "failed"]
  /\ UNCHANGED <<lines, rd, inUse, st, seqOf, charged, pr, bt>>

RetryOrGiveUp(b, k) ==
  /\ wk[b][k].pc = "failed"
  /\ IF Retry >= 0 /\ wk[b][k].tries > Retry
       THEN /\ obs' = OGiveUp(obs, b, wk[b][k].ids)
            /\ wk' = [wk EXCEPT ![b][k] = [@ EXCEPT !.pc = IF HasDQ THEN "failing" ELSE "turn", !.i = 1]]
       ELSE /\ wk' = [wk EXCEPT ![b][k] = [@ EXCEPT !.pc = IF M_RetryHolds THEN "send" ELSE "turn", !.tries = @ + 1]]
            /\ UNCHANGED obs
  /\ UNCHANGED <<lines, rd, inUse, st, seqOf, charged, pr, bt, nfail, sched>>

\* onError: for each event Router.Fail -> deadQueue.Out -> the dead queue's batcher Add
FailOne(b, k) ==
  /\ wk[b][k].pc = "failing"
  /\ LET w == wk[b][k] IN
       IF w.i <= Len(w.ids)
         THEN /\ CanAdd("dq")
              /\ bt' = [bt EXCEPT !["dq"] = Added(@, w.ids[w.i])]
              /\ obs' = OAdd(OFail(obs, w.ids[w.i]), "dq", w.ids[w.i])
              /\ wk' = [wk EXCEPT ![b][k].i = @ + 1]
         ELSE \* batch.reset(); status = InDeadQueue
              /\ wk' = [wk EXCEPT ![b][k] = [@ EXCEPT !.pc = "turn", !.ids = IF M_DQEmptiesBatch THEN <<>> ELSE @]]
              /\ UNCHANGED <<bt, obs>>
  /\ UNCHANGED <<lines, rd, inUse, st, seqOf, charged, pr, nfail, sched>>

\* commitBatch: wait for the turn under seqMu, then commitSeq++
CommitTurn(b, k) ==
  /\ wk[b][k].pc = "turn"
  /\ bt[b].lock = 0
  /\ (bt[b].commitSeq = wk[b][k].seq \/ ~M_SeqCommit)
  /\ bt' = [bt EXCEPT ![b] = [@ EXCEPT !.commitSeq = @ + 1, !.lock = k]]
  /\ wk' = [wk EXCEPT ![b][k] = [@ EXCEPT !.pc = "commit", !.i = 1]]
  /\ UNCHANGED <<lines, rd, inUse, st, seqOf, charged, pr, nfail, obs, sched>>

\* Controller.Commit(event) = Pipeline.Commit -> finalize(event, true, true)
CommitOne(b, k) ==
  /\ wk[b][k].pc = "commit"
  /\ wk[b][k].i <= Len(wk[b][k].ids)
  /\ LET e == wk[b][k].ids[wk[b][k].i]
         f == Finalize(e, TRUE, TRUE, b, st, charged, inUse, OBatchCommit(obs, b, e, IsParent(e)))
     IN IF IsKid(e)                                   \* finalize returns at once for a child event
          THEN obs' = OBatchCommit(obs, b, e, FALSE) /\ UNCHANGED <<st, charged, inUse>>
          ELSE st' = f[1] /\ charged' = f[2] /\ inUse' = f[3] /\ obs' = f[4]
  /\ wk' = [wk EXCEPT ![b][k].i = @ + 1]
  /\ UNCHANGED <<lines, rd, seqOf, pr, bt, nfail, sched>>

CommitDone(b, k) ==
  /\ wk[b][k].pc = "commit"
  /\ wk[b][k].i > Len(wk[b][k].ids)
  /\ bt' = [bt EXCEPT ![b] = [@ EXCEPT !.free = @ + 1, !.lock = 0]]
  /\ wk' = [wk EXCEPT ![b][k] = IdleWorker]
  /\ UNCHANGED <<lines, rd, inUse, st, seqOf, charged, pr, nfail, obs, sched>>

-----------------------------------------------------------------------------
ProcStep(p) == JoinPop(p) \/ Attach(p) \/ InstantGet(p) \/ BlockGet(p) \/ TimeoutInject(p) \/ Flush(p) \/ DoAct(p) \/ Out(p) \/ SpawnFlush(p) \/ SpawnDone(p)
BatchStep(b, k) == WorkerTake(b, k) \/ SendCall(b, k) \/ SendOK(b, k) \/ SendFail(b, k) \/ RetryOrGiveUp(b, k)
                   \/ FailOne(b, k) \/ CommitTurn(b, k) \/ CommitOne(b, k) \/ CommitDone(b, k)
UsedBatchers == IF HasDQ THEN Batchers ELSE {"main"}

Next ==
  \/ ReadIn
  \/ \E p \in Procs : ProcStep(p)
  \/ \E b \in UsedBatchers : FlushTimer(b) \/ \E k \in Workers : BatchStep(b, k)

Spec == Init /\ [][Next]_vars

(* C04, liveness form: under weak fairness of every goroutine (reader, processors, workers) and of the timers
   (batch heartbeat, stream time-out heartbeat) every behaviour reaches and stays in the quiescent state, i.e.
   every accepted event is finalized, no stream is left unattended, no batch unflushed. *)
Fair == /\ WF_vars(ReadIn)
        /\ \A p \in Procs : WF_vars(ProcStep(p))
        /\ \A b \in UsedBatchers : WF_vars(FlushTimer(b)) /\ \A k \in Workers : WF_vars(BatchStep(b, k))
FairSpec == Spec /\ Fair

-----------------------------------------------------------------------------
(* quiescence: everything read, nothing queued, nobody busy *)
Quiescent ==
  /\ rd = NLines
  /\ \A s \in Sids : st[s].q = <<>>
  /\ \A p \in Procs : pr[p].pc = "join"
  /\ \A b \in UsedBatchers : bt[b].cur = <<>> /\ bt[b].full = <<>> /\ \A k \in Workers : wk[b][k].pc = "idle"

(* D2 (known finding): with a dead queue the two batchers commit independently of each other, so one may
   pass events of the same stream that the other still holds.  The residual properties exclude exactly that. *)
KnownD2(v) == \/ v.kind = "frontier" /\ (v.info = "in_dq" \/ v.by = "dq")
              \/ v.kind = "commit_unacked" /\ v.info = "child_in_dq"
              \/ v.kind = "order" /\ {v.by, v.info} = {"main", "dq"}
Residual(kinds) == \A v \in obs.viol : v.kind \in kinds => KnownD2(v)
C01res == Residual(KindsC01)
C02res == Residual(KindsC02)
D2Absent == \A v \in obs.viol : ~KnownD2(v)      \* expected to FAIL when HasDQ and a batch can be given up

(* properties of the design *)
TypeOK == inUse \in 0..Capacity /\ rd \in 0..MaxId
C01 == Holds(obs, KindsC01)
C02 == Holds(obs, KindsC02)
C05 == Holds(obs, KindsC05) /\ inUse <= Capacity /\ Cardinality(obs.live) = inUse
C08 == Holds(obs, KindsC08)
C09 == Holds(obs, KindsC09)
AtQuiescence == Quiescent => OEnd(obs, inUse, 0).viol = {}
\* exclusive ownership of a stream: at most one processor between attach and leave
OneOwner == \A p, q \in Procs : p # q /\ pr[p].pc \in {"get", "act", "out", "blockget", "spawned"} /\ pr[q].pc \in {"get", "act", "out", "blockget", "spawned"}
                                  => pr[p].sid # pr[q].sid
\* a charged stream is never owned and appears once
ChargedOnce == \A i, j \in 1..Len(charged) : i # j => charged[i] # charged[j]
\* the code's own panics are unreachable ("why attach? processor is already attached", "why get while detaching?")
NoCodePanic == /\ \A p \in Procs : pr[p].pc = "attach" => ~st[pr[p].sid].att /\ ~st[pr[p].sid].det /\ st[pr[p].sid].q # <<>>
               /\ \A p \in Procs : pr[p].pc \in {"get", "blockget"} => ~st[pr[p].sid].det
               /\ \A p \in Procs : pr[p].pc = "blockget" /\ st[pr[p].sid].q = <<>> => st[pr[p].sid].away = st[pr[p].sid].com
\* no wedge (safety form): when nothing can move, the system is quiescent
NoStuck == (~ENABLED Next) => Quiescent
\* an action that answers a time-out with discard while it holds nothing has ended its run: the processor does not go back to
\* waiting on that stream (it would wake up at every time-out for ever and never serve another stream)
TimeoutEndsTheWait ==
  [][\A p \in Procs : (pr[p].pc = "act" /\ pr[p].ev = 0 /\ pr[p].act = 1 /\ pr[p].held = 0 /\ pr'[p].ev = 0 /\ pr'[p].pc # "act")
                         => pr'[p].pc # "blockget"]_vars

EventuallyQuiescent == <>[]Quiescent

(* behaviour export for replay: printed at quiescent states during simulation *)
ExportSched == Quiescent => PrintT(ToJson([lines |-> lines, sched |-> sched]))
=============================================================================
