----------------------------- MODULE GelfFieldName -----------------------------
(* C19, gelf: names of the extra fields -- plugin/output/gelf/gelf.go formatExtraField (used by makeExtraFields for every
   field of the event and by Start for the configured host / short message / full message / timestamp / level field names).

   Code:  encodeBuf = append(encodeBuf, '_');  for _, c := range name  (c is a RUNE)
            isLetter := 'a'..'z' or 'A'..'Z';  isNumber := '0'..'9';  isAllowedChar := '_' '-' '.'
            if none of them { c = '-' };  encodeBuf = append(encodeBuf, byte(c))
   so every rune outside [A-Za-z0-9_.-] -- ASCII punctuation as well as any non-ASCII letter or digit -- becomes ONE '-',
   and byte(c) is only ever applied to an ASCII rune.

   Declarative: the GELF name of a field is '_' followed by the name with every rune outside [A-Za-z0-9_.-] replaced by '-':
   it matches ^_[A-Za-z0-9_.-]*$, hence the message stays a JSON document in UTF-8.

   Mechanism switch (TRUE = as in the code):
     M_NameBytesAsciiOnly   FALSE = letters and digits are recognised with unicode.IsLetter / unicode.IsDigit while the
                            cooperating byte(c) stays: a non-ASCII letter or digit is kept and cut to its low byte
                            (U+00E9 -> 0xE9: invalid UTF-8; U+0441 -> 'A', U+4E2D -> '-', U+1D7D8 -> 0xD8).

   A name is a sequence of code points from Alphabet; Letters / Digits say which of them unicode.IsLetter / IsDigit accept. *)
EXTENDS Integers, Sequences, FiniteSets, TLC, Json

CONSTANTS Alphabet,        \* code points to build names from
          UniLetters,      \* the code points of Alphabet that are letters (unicode.IsLetter)
          UniDigits,       \* the code points of Alphabet that are decimal digits (unicode.IsDigit)
          MaxLen,          \* names of 1..MaxLen runes
          M_NameBytesAsciiOnly

VARIABLES name,            \* the case
          i,               \* position in name (the range loop)
          buf,             \* encodeBuf: bytes 0..255
          pc

vars == <<name, i, buf, pc>>

AsciiLetter(c) == (c >= 97 /\ c <= 122) \/ (c >= 65 /\ c <= 90)
AsciiDigit(c)  == c >= 48 /\ c <= 57
AllowedChar(c) == c \in {95, 45, 46}                       \* _ - .
Safe(c)        == AsciiLetter(c) \/ AsciiDigit(c) \/ AllowedChar(c)

Init ==
  /\ name \in UNION {[1..l -> Alphabet] : l \in 1..MaxLen}
  /\ i = 0 /\ buf = <<>> /\ pc = "start"

Start == pc = "start" /\ buf' = <<95>> /\ i' = 1 /\ pc' = "loop" /\ UNCHANGED name      \* append(encodeBuf, '_')

Step ==
  /\ pc = "loop"
  /\ IF i > Len(name) THEN pc' = "done" /\ UNCHANGED <<i, buf>>
     ELSE LET c == name[i]
              isLetter == IF M_NameBytesAsciiOnly THEN AsciiLetter(c) ELSE c \in UniLetters
              isNumber == IF M_NameBytesAsciiOnly THEN AsciiDigit(c) ELSE c \in UniDigits
              c2 == IF isLetter \/ isNumber \/ AllowedChar(c) THEN c ELSE 45
          IN buf' = Append(buf, c2 % 256) /\ i' = i + 1 /\ pc' = "loop"          \* append(encodeBuf, byte(c))
  /\ UNCHANGED name

Next == Start \/ Step
Spec == Init /\ [][Next]_vars

-----------------------------------------------------------------------------
Expected == <<95>> \o [x \in 1..Len(name) |-> IF Safe(name[x]) THEN name[x] ELSE 45]

\* every byte written is one of [A-Za-z0-9_.-]: the name is ASCII, the document stays valid UTF-8
NameIsSafeAscii == \A x \in DOMAIN buf : Safe(buf[x])
\* and it is the declared name
NameIsExpected == pc = "done" => buf = Expected

Export == pc = "done" => PrintT(ToJson([name |-> name, want |-> Expected]))

=============================================================================
