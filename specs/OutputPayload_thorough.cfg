SPECIFICATION Spec
CONSTANTS
  MaxN1 = 4
  MaxN = 3
  MaxBatches = 3
  Kinds = {"regular", "child", "parent"}
  SizeClasses = {1, 2}
  MaxBig = 1
  SplitModes = {TRUE, FALSE}
  MaxPatBatches = 3
  D14_SingleTooLargeAborts = TRUE
  M_ResetBegin = TRUE
  M_ResetBuf = TRUE
  M_SkipParent = TRUE
  M_ReencodeAfterGiveUp = TRUE
  M_TopicPerEvent = TRUE
  Routes = {"none", "a", "b"}
  RouteKinds = {"regular", "parent"}
  MaxRouteBatches = 3
  Retry = 1
  DeadQueueModes = {TRUE, FALSE}
INVARIANTS TypeOK FramingOK BodyIs SplitBodiesInOrder SplitCoversModuloD14 AckOnlyCovered NoDuplicateAccept GiveUpOnlyAfterRetries RoutingOwn Export
CHECK_DEADLOCK FALSE
