SPECIFICATION Spec
CONSTANTS
  Slices <- QuickSlices
  Mut = "none"
INVARIANTS TypeOK RingConsistent CountersAreArrivals NeverOverLimit TotalWithinSum NoEarlyReject Remap ValueWithinShare MustRespected KeysIndependent Export
CHECK_DEADLOCK FALSE
