\* validation of the records of the real plugin (one state per record)
SPECIFICATION TraceSpec
CONSTANTS
  Chains = 64
  MaxLen = 0
  Chars = {1}
  MaxMatches = 0
  NGs = {1}
  MCs = {0}
  D13 = TRUE
  M_AllMatches = TRUE
INVARIANTS Verdict
CHECK_DEADLOCK FALSE
