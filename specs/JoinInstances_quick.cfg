SPECIFICATION Spec
CONSTANTS
  MaxLenI = 2
  M_TemplateStatePerInstance = TRUE
INVARIANTS TypeOK StreamsIndependent
CHECK_DEADLOCK FALSE
