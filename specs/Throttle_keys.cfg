SPECIFICATION SpecKey
CONSTANTS
  Slices <- MutantSlices
  Mut = "none"
INVARIANTS KeyOfInjective KeyOwnBudget
CHECK_DEADLOCK FALSE
