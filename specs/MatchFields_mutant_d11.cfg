\* spec mutant: the repaired defect D11 switched back on (isMatchAnd asks a regexp condition for a listed value).
\* TLC MUST report a violation of ImplMatchesDecl; its counterexample is a rule that distinguishes the repaired
\* code from the defective one (the check fails with an infrastructure error if the mutant is not rejected).
SPECIFICATION Spec
CONSTANTS
  CharsM = {1, 2}
  MaxPat = 2
  MaxFld = 2
  M_DoIfDecidesAlone = TRUE
  D_AndRegexp = TRUE
INVARIANTS TypeOK ImplMatchesDecl
CHECK_DEADLOCK FALSE
