SPECIFICATION Spec
CONSTANTS
  MaxN = 4
  Answers = {"ok", "too_large", "bad_request", "unavailable", "transport"}
  SplitModes = {TRUE, FALSE}
  M_StatusOfFailingRequest = TRUE
  M_DeadQueueOnlyOnGiveUp = TRUE
INVARIANTS TypeOK NilOnlyIfAcceptedOrRefused RetryableIsReported RangesInOrder FailureEndsAttempt DeadQueueOnlyOnGiveUp
CHECK_DEADLOCK FALSE
