SPECIFICATION FairSpec
CONSTANTS
  Capacity = 1
  Getters = {"g1", "g2", "g3"}
  Rounds = 2
  M_HeartbeatLives = FALSE
  RecordGate = FALSE
  HeartbeatWhenAvailable = TRUE
INVARIANTS Bounded CounterSound MutexOK NoWedge
PROPERTIES AllDone
CHECK_DEADLOCK FALSE
