------------------------------ MODULE EsActionLine ------------------------------
(* C19, elasticsearch: the bulk action line of a document -- plugin/output/elasticsearch/elasticsearch.go out() /
   appendEvent / appendIndexName.  index_format has one '%' per entry of index_values; an entry is "@time" or an event field.

   Code: for EVERY event of the batch appendIndexName builds the action line from index_format and the event's OWN values
   of ALL the listed fields (@time = the plugin's current date).

   Declarative (RoutingOwn): the action line in front of a document names the index built from THAT event's values of all
   the listed fields, whatever the neighbouring events of the batch are.

   Mechanism switch (TRUE = as in the code):
     M_ActionLinePerEvent   FALSE = the action line of the previous event is reused while a "routing key" -- the value of the
                            FIRST event field listed in index_values -- is unchanged: an event that differs from its
                            predecessor only in a later listed field is sent under the predecessor's index.

   Events carry two fields a, b with values 1..2 each; "t" stands for @time.                                         *)
EXTENDS Integers, Sequences, FiniteSets, TLC, Json

CONSTANTS MaxBatch,        \* batches of 2..MaxBatch events, every order
          M_ActionLinePerEvent

VARIABLES iv,              \* the case: index_values, a sequence without repetition over {"t", "a", "b"}
          batch,           \* the case: sequence of events [a, b]
          i,               \* ForEach position
          lines,           \* action lines written so far (one per event): the sequence of values put into the index name
          header, key      \* (mutant) the cached action line and the routing key it was built for; key 0 = none

vars == <<iv, batch, i, lines, header, key>>

Entries == {"t", "a", "b"}
IVs == {s \in UNION {[1..l -> Entries] : l \in 1..3} : \A x, y \in DOMAIN s : s[x] = s[y] => x = y}
Events == [a : 1..2, b : 1..2]

Val(e, f) == IF f = "t" THEN 0 ELSE IF f = "a" THEN e.a ELSE e.b        \* 0 = the date
Line(e)   == [x \in DOMAIN iv |-> Val(e, iv[x])]                        \* appendIndexName: every listed field, in order
FirstField == IF \E x \in DOMAIN iv : iv[x] # "t"
                THEN iv[CHOOSE x \in DOMAIN iv : iv[x] # "t" /\ \A y \in 1..(x - 1) : iv[y] = "t"] ELSE "t"
RoutingKey(e) == IF FirstField = "t" THEN 9 ELSE Val(e, FirstField)     \* routingKey(): "" when only @time is listed

Init ==
  /\ iv \in IVs
  /\ batch \in UNION {[1..l -> Events] : l \in 2..MaxBatch}
  /\ i = 1 /\ lines = <<>> /\ header = <<>> /\ key = 0

(* one iteration of batch.ForEach in out() *)
ForEach ==
  /\ i <= Len(batch)
  /\ LET e == batch[i] IN
     IF M_ActionLinePerEvent
       THEN lines' = Append(lines, Line(e)) /\ UNCHANGED <<header, key>>
       ELSE LET rebuild == key = 0 \/ RoutingKey(e) # key
                h == IF rebuild THEN Line(e) ELSE header
            IN lines' = Append(lines, h) /\ header' = h /\ key' = IF rebuild THEN RoutingKey(e) ELSE key
  /\ i' = i + 1
  /\ UNCHANGED <<iv, batch>>

Next == ForEach
Spec == Init /\ [][Next]_vars

\* every document's action line is built from its own event's values of all the listed fields
RoutingOwn == \A x \in DOMAIN lines : lines[x] = Line(batch[x])

Export == i > Len(batch) => PrintT(ToJson([iv |-> iv, batch |-> batch, want |-> [x \in DOMAIN batch |-> Line(batch[x])]]))

=============================================================================
