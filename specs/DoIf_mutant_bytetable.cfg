\* spec mutant: contains_any looks the BYTES of the field up in a 256-entry table built from the bytes of the value.
\* TLC MUST reject it (ImplRefinesDecl) on part U: two different characters that share a UTF-8 byte.
SPECIFICATION Spec
CONSTANTS
  Chars = {1, 2, 3}
  MaxVal = 2
  MaxVal2 = 1
  MaxData = 3
  PoolN = 4
  Depth3 = FALSE
  M_ShiftOnce = TRUE
  M_LenOfValue = TRUE
  M_ContainsAnyRunes = FALSE
  UChars = {1, 40, 41, 42, 43, 45, 46, 48, 49}
  UMaxData = 2
  PartsOn = {"U"}
  D_FoldWidth = TRUE
  D_ContainerNul = TRUE
  D_EmptyContainerLen = TRUE
INVARIANTS TypeOK ImplRefinesDecl
CHECK_DEADLOCK FALSE
