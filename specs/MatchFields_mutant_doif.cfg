\* spec mutant: do_if only pre-filters, then the match_fields logic (mode / invert, possibly empty) decides.
\* TLC MUST reject it (DoIfDecidesAlone).
SPECIFICATION Spec
CONSTANTS
  CharsM = {1, 2}
  MaxPat = 2
  MaxFld = 2
  M_DoIfDecidesAlone = FALSE
  D_AndRegexp = FALSE
INVARIANTS TypeOK DoIfDecidesAlone
CHECK_DEADLOCK FALSE
