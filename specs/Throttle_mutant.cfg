SPECIFICATION Spec
CONSTANTS
  Slices <- MutantSlices
  Mut = "none"
INVARIANTS NeverOverLimit TotalWithinSum NoEarlyReject Remap ValueWithinShare MustRespected KeysIndependent
CHECK_DEADLOCK FALSE
