SPECIFICATION Spec
CONSTANTS
  Chars = {1, 2, 3}
  MaxVal = 2
  MaxVal2 = 1
  MaxData = 3
  PoolN = 4
  Depth3 = FALSE
  M_ShiftOnce = TRUE
  M_ContainsAnyRunes = TRUE
  UChars = {1, 40, 41, 42, 43, 45, 46, 48, 49}
  UMaxData = 2
  PartsOn = {}
  D_FoldWidth = TRUE
  D_ContainerNul = TRUE
  D_EmptyContainerLen = TRUE
INVARIANTS TypeOK ImplRefinesDecl LogicLaws ValueOrderIrrelevant Export
CHECK_DEADLOCK FALSE
