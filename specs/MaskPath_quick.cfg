\* the mechanism as coded: a path element addresses object members and array elements alike
SPECIFICATION Spec
CONSTANTS
  Elems = {"0", "1", "2", "x"}
  Digits = {"0", "1", "2"}
  MaxArr = 3
  M_NumericKeyAddressesObjectMember = TRUE
INVARIANTS TypeOK ElementAddressesMember
CHECK_DEADLOCK FALSE
