\* the mutant "first match only when the expression text starts with an anchor" -- TLC must find a violation
SPECIFICATION Spec
CONSTANTS
  MaxLen = 2
  Chars = {1}
  MaxMatches = 2
  NGs = {1}
  MCs = {0}
  D13 = TRUE
  M_AllMatches = FALSE
INVARIANTS TypeOK ReturnsAcceptable
CHECK_DEADLOCK FALSE
