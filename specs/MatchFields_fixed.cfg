\* residual configuration: D_AndRegexp switched off (= isMatchAnd repaired); no excuse left in ImplRefinesDecl.
SPECIFICATION Spec
CONSTANTS
  CharsM = {1, 2}
  MaxPat = 2
  MaxFld = 2
  D_AndRegexp = FALSE
INVARIANTS TypeOK ImplRefinesDecl CondOrderIrrelevant InvertIsNegation
CHECK_DEADLOCK FALSE
