SPECIFICATION Spec
CONSTANTS
  NLines = 3
  Streams = {"a", "b"}
  SyncMode = TRUE
  D_SeekMinSaved = TRUE
  ResidualOnly = FALSE
  M_SeekMin = TRUE
  M_CommitAfterAck = TRUE
  M_SkipOnlyOwnStream = TRUE
  M_SkipStrict = TRUE
  GracefulStop = TRUE
  M_StopSaves = TRUE
VIEW view
INVARIANTS TypeOK NeverAheadOnDisk CommittedWasDelivered CleanStopSavesAll AtLeastOnce
CHECK_DEADLOCK FALSE
