----------------------------- MODULE FileReader -----------------------------
(* C06 -- the file input's read loop (plugin/input/file/worker.go, worker.work), transcribed
   step by step, over a file that grows by appends, together with the declarative statement of
   what the pipeline must be handed:  exactly the complete newline-terminated lines, in order,
   each once, tagged with the byte offset just after its newline; an unterminated tail is held
   back; an oversize line is skipped (or cut) without disturbing neighbours or offsets.

   One behaviour = one CASE (content, split into appends, read-buffer size, max_event_size,
   cut_off, resume offset).  The case is kept in a variable so that terminal states of different
   cases stay distinct and can be exported (Export) for replay against the real worker.        *)
EXTENDS Integers, Sequences, FiniteSets, TLC, Json

CONSTANTS MaxLen,        \* maximal content length
          Alphabet,      \* symbols; 0 is the newline
          Ms,            \* candidate max_event_size values (0 = unlimited)
          M_MaintenanceKeepsTail,  \* maintenance of an idle job leaves its held-back tail alone
          M_MaintenanceSkipsBusyJob \* a maintenance tick that lands in the middle of a pass does not touch the job

NL == 0

VARIABLES cs,            \* the case: [segs, B, M, cut, resume, skip, op]  (skip: offsets_op=tail -- the job starts inside a line that must be skipped)
          shouldSkip,    \* Job.shouldSkip
          skipLine,      \* local of work(): loaded from Job.shouldSkip when the job is taken
          file, seg,     \* content written so far, number of appended segments
          pos,           \* position of the reader's descriptor
          curOffset, tail,                 \* Job.curOffset, Job.tail
          pc,            \* idle | read | scan | afterbuf | eof | done
          lastOffset, accum, buf, scanned, readTotal,   \* locals of work()
          calls,         \* history: In-calls of the current round  <<[off, data]>>
          rounds         \* history: per finished round, its calls

vars == <<cs, shouldSkip, skipLine, file, seg, pos, curOffset, tail, pc, lastOffset, accum, buf, scanned, readTotal, calls, rounds>>

-----------------------------------------------------------------------------
(* helpers *)
Min(a, b) == IF a < b THEN a ELSE b
Prefix(s, n) == SubSeq(s, 1, Min(n, Len(s)))
IndexNL(s) == IF \E i \in 1..Len(s) : s[i] = NL
              THEN CHOOSE i \in 1..Len(s) : s[i] = NL /\ \A j \in 1..(i-1) : s[j] # NL
              ELSE 0
NLPositions(s) == {i \in 1..Len(s) : s[i] = NL}
Contents == UNION {[1..n -> Alphabet] : n \in 0..MaxLen}

(* declarative oracle: the complete lines of content c with end offset > from *)
RECURSIVE LinesFrom(_, _, _)
LinesFrom(c, start, from) ==
  \* start = index of the first byte of the next line (1-based)
  LET rest == SubSeq(c, start, Len(c))
      p == IndexNL(rest)
  IN IF p = 0 THEN <<>>
     ELSE LET endOff == start - 1 + p
              line == SubSeq(c, start, endOff)
          IN (IF endOff > from THEN <<[off |-> endOff, data |-> line]>> ELSE <<>>)
             \o LinesFrom(c, endOff + 1, from)

Over(line, M) == M # 0 /\ Len(line) > M
\* with skip: everything up to and including the first newline after the start position belongs to the skipped line
From(c, resume, skip) == IF ~skip THEN resume
                         ELSE IF \E i \in NLPositions(c) : i > resume
                              THEN CHOOSE i \in NLPositions(c) : i > resume /\ \A j \in NLPositions(c) : j > resume => i <= j
                              ELSE Len(c) + 1
\* what must be handed over for content c, lines ending after `from`
Expected(c, from, M, cut) ==
  LET all == LinesFrom(c, 1, from)
  IN SelectSeq(all, LAMBDA l : cut \/ ~Over(l.data, M))

\* a call matches an expected line: offset exact; data exact unless the line is over the limit and
\* cutting is on, in which case the worker-level data agrees on the first M bytes and keeps the newline
CallOK(c, e, M) ==
  /\ c.off = e.off
  /\ IF Over(e.data, M)
       THEN Prefix(c.data, M) = Prefix(e.data, M) /\ c.data[Len(c.data)] = NL
       ELSE c.data = e.data

SeqOK(cl, ex, M) == Len(cl) = Len(ex) /\ \A i \in 1..Len(cl) : CallOK(cl[i], ex[i], M)

RECURSIVE Flatten(_)
Flatten(ss) == IF ss = <<>> THEN <<>> ELSE Head(ss) \o Flatten(Tail(ss))

-----------------------------------------------------------------------------
Init ==
  /\ \E c \in Contents :
       \E a \in 0..Len(c) : \E b \in a..Len(c) :
         \E B \in 1..(Len(c) + 1) : \E M \in Ms : \E cut \in (IF M = 0 THEN {FALSE} ELSE BOOLEAN) :
           \E sk \in BOOLEAN :
           \E r \in (IF sk THEN 0..a ELSE {0} \cup {i \in NLPositions(c) : i <= a}) :
           \* how the start state is established: "direct" = given; "tail" / "reset" = by initJobOffset for that offsets_op on the
           \* file as it is at start (tail: an empty file is read from 0 with nothing to skip; otherwise start one byte before
           \* the end and skip up to the next newline).  The op cases coincide with direct ones; the harness runs them through
           \* the real initJobOffset and compares the state it leaves with (resume, skip).
           \E op \in {"direct", "tail", "reset"} :
             /\ (op = "tail" => sk = (a # 0) /\ r = (IF a = 0 THEN 0 ELSE a - 1))
             /\ (op = "reset" => ~sk /\ r = 0)
             /\ cs = [segs |-> <<SubSeq(c, 1, a), SubSeq(c, a + 1, b), SubSeq(c, b + 1, Len(c))>>,
                      B |-> B, M |-> M, cut |-> cut, resume |-> r, skip |-> sk, op |-> op]
  /\ file = cs.segs[1] /\ seg = 1
  /\ pos = cs.resume /\ curOffset = cs.resume /\ tail = <<>>
  /\ shouldSkip = cs.skip /\ skipLine = FALSE
  /\ pc = "idle"
  /\ lastOffset = 0 /\ accum = <<>> /\ buf = <<>> /\ scanned = 0 /\ readTotal = 0
  /\ calls = <<>> /\ rounds = <<>>

(* maintenance looks at the idle job (descriptor released and re-opened at the same position; Job.seek(0, SeekCurrent) to learn
   the position): a stuttering step for the reader's state -- position, offset and the held-back tail stay.  M_MaintenanceKeepsTail
   FALSE = Job.seek forgets the tail (seeded change r2-C03-2 / r5-C06-1). *)
Maintain ==
  /\ pc = "idle" /\ rounds # <<>>
  /\ tail' = IF M_MaintenanceKeepsTail THEN tail ELSE <<>>
  /\ UNCHANGED <<cs, shouldSkip, skipLine, file, seg, pos, curOffset, pc, lastOffset, accum, buf, scanned, readTotal, calls, rounds>>

(* a maintenance tick while a worker is in the middle of a pass over the job (isDone = FALSE): maintenanceJob returns at once.
   M_MaintenanceSkipsBusyJob FALSE = the position is queried before that test: Job.seek(0, SeekCurrent) REWRITES job.curOffset with
   the descriptor's position, and the worker adds the bytes it has read on top of it at the end of the pass (seeded change r6-C06-1). *)
MaintainBusy ==
  /\ pc \in {"read", "scan", "afterbuf"}
  /\ curOffset' = IF M_MaintenanceSkipsBusyJob THEN curOffset ELSE pos
  /\ UNCHANGED <<cs, shouldSkip, skipLine, file, seg, pos, tail, pc, lastOffset, accum, buf, scanned, readTotal, calls, rounds>>

(* job taken from jobsChan: lastOffset := job.curOffset; accumBuf := job.tail *)
StartRound ==
  /\ pc = "idle"
  /\ lastOffset' = curOffset /\ accum' = tail /\ scanned' = 0 /\ readTotal' = 0 /\ buf' = <<>>
  /\ calls' = <<>>
  /\ skipLine' = shouldSkip
  /\ pc' = "read"
  /\ UNCHANGED <<cs, shouldSkip, file, seg, pos, curOffset, tail, rounds>>

(* n, err := reader.Read(readBuf) *)
Read ==
  /\ pc = "read"
  /\ LET n == Min(cs.B, Len(file) - pos) IN
       IF n = 0
         THEN \* EOF: job.tail := accumBuf; job.curOffset += readTotal
              /\ tail' = accum /\ curOffset' = curOffset + readTotal
              /\ pc' = "eof"
              /\ UNCHANGED <<pos, buf, readTotal>>
         ELSE /\ buf' = SubSeq(file, pos + 1, pos + n)
              /\ pos' = pos + n /\ readTotal' = readTotal + n
              /\ pc' = "scan"
              /\ UNCHANGED <<tail, curOffset>>
  /\ UNCHANGED <<cs, shouldSkip, skipLine, file, seg, lastOffset, accum, scanned, calls, rounds>>

(* one iteration of "for len(buf) != 0" *)
Scan ==
  /\ pc = "scan"
  /\ IF buf = <<>>
       THEN pc' = "afterbuf" /\ UNCHANGED <<buf, scanned, accum, calls, shouldSkip, skipLine>>
       ELSE LET p == IndexNL(buf) IN
            IF p = 0
              THEN /\ scanned' = scanned + Len(buf)
                   /\ pc' = "afterbuf"
                   /\ UNCHANGED <<buf, accum, calls, shouldSkip, skipLine>>
              ELSE LET line == SubSeq(buf, 1, p)
                       sc == scanned + p
                       skipIt == skipLine \/ (cs.M # 0 /\ ~cs.cut /\ Len(accum) + Len(line) > cs.M)
                       inBuf == IF accum # <<>> THEN accum \o line ELSE line
                   IN /\ buf' = SubSeq(buf, p + 1, Len(buf))
                      /\ scanned' = sc
                      /\ calls' = IF skipIt THEN calls
                                  ELSE Append(calls, [off |-> lastOffset + sc, data |-> inBuf])
                      /\ accum' = <<>>
                      /\ skipLine' = FALSE
                      /\ shouldSkip' = IF skipIt THEN FALSE ELSE shouldSkip      \* job.shouldSkip.Store(false)
                      /\ pc' = "scan"
  /\ UNCHANGED <<cs, file, seg, pos, curOffset, tail, lastOffset, readTotal, rounds>>

(* after the parsing loop: size guard, then accumBuf = append(accumBuf, buf...) *)
AfterBuf ==
  /\ pc = "afterbuf"
  /\ IF cs.M # 0 /\ Len(accum) > cs.M
       THEN IF ~cs.cut THEN accum' = accum                        \* continue: remainder dropped
            ELSE accum' = SubSeq(accum, 1, cs.M) \o buf
       ELSE accum' = accum \o buf
  /\ buf' = <<>>
  /\ pc' = "read"
  /\ UNCHANGED <<cs, shouldSkip, skipLine, file, seg, pos, curOffset, tail, lastOffset, scanned, readTotal, calls, rounds>>

(* EOF processed; the next append (if any) happens while the job is done *)
EndRound ==
  /\ pc = "eof"
  /\ rounds' = Append(rounds, calls)
  /\ IF seg < Len(cs.segs)
       THEN /\ file' = file \o cs.segs[seg + 1] /\ seg' = seg + 1 /\ pc' = "idle"
       ELSE /\ pc' = "done" /\ UNCHANGED <<file, seg>>
  /\ UNCHANGED <<cs, shouldSkip, skipLine, pos, curOffset, tail, lastOffset, accum, buf, scanned, readTotal, calls>>

Next == StartRound \/ Read \/ Scan \/ AfterBuf \/ EndRound \/ Maintain \/ MaintainBusy

Spec == Init /\ [][Next]_vars

-----------------------------------------------------------------------------
(* properties *)

TypeOK == pc \in {"idle", "read", "scan", "afterbuf", "eof", "done"}

\* C06: at every EOF the calls made so far (all rounds) are exactly the expected lines of the
\* content written so far
LinesExactlyOnce ==
  pc = "eof" => SeqOK(Flatten(rounds) \o calls, Expected(file, From(file, cs.resume, cs.skip), cs.M, cs.cut), cs.M)

\* nothing is handed over that is not complete: every call ends with the newline and never contains one inside
CallsAreLines ==
  \A i \in 1..Len(calls) :
     LET d == calls[i].data IN
       /\ d # <<>> /\ d[Len(d)] = NL
       /\ (~(cs.cut /\ cs.M # 0) => \A j \in 1..(Len(d) - 1) : d[j] # NL)

\* the job's offset equals the number of bytes consumed, and the tail is what follows the last newline
\* (unless a size limit interfered)
TailIsRemainder ==
  pc = "eof" /\ cs.M = 0 /\ ~cs.skip =>
     /\ curOffset = Len(file)
     /\ LET nls == NLPositions(file)
            lastNL == IF nls = {} \/ \A i \in nls : i <= cs.resume THEN cs.resume
                      ELSE CHOOSE i \in nls : \A j \in nls : j <= i
        IN tail = SubSeq(file, lastNL + 1, Len(file))

\* memory stays bounded when a limit is set (accumulation stops / is truncated)
AccumBounded == cs.M # 0 => Len(accum) <= cs.M + cs.B + cs.B

-----------------------------------------------------------------------------
(* export of every explored case with the declaratively expected calls per round, for replay *)
ExpectedRound(k) ==
  \* expected new calls of round k = expected(content after k segments) minus expected(after k-1)
  LET ck == Flatten(SubSeq(cs.segs, 1, k))
      ek == Expected(ck, From(ck, cs.resume, cs.skip), cs.M, cs.cut)
      cp == Flatten(SubSeq(cs.segs, 1, k - 1))
      ep == IF k = 1 THEN <<>> ELSE Expected(cp, From(cp, cs.resume, cs.skip), cs.M, cs.cut)
  IN SubSeq(ek, Len(ep) + 1, Len(ek))

ExportRec == [segs |-> cs.segs, B |-> cs.B, M |-> cs.M, cut |-> cs.cut, resume |-> cs.resume, skip |-> cs.skip, op |-> cs.op,
              exp |-> [k \in 1..Len(cs.segs) |->
                         [i \in 1..Len(ExpectedRound(k)) |->
                            [off |-> ExpectedRound(k)[i].off, data |-> ExpectedRound(k)[i].data,
                             over |-> Over(ExpectedRound(k)[i].data, cs.M)]]],
              model |-> [k \in 1..Len(rounds) |-> [i \in 1..Len(rounds[k]) |-> rounds[k][i].off]]]

Export == pc = "done" => PrintT(ToJson(ExportRec))

=============================================================================
