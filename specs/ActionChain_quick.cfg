SPECIFICATION Spec
CONSTANTS
  N = 2
  MaxEvents = 3
  M_SelectorIndependentOfOtherActions = TRUE
INVARIANTS TypeOK SelectorDecides
CHECK_DEADLOCK FALSE
