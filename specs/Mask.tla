-------------------------------- MODULE Mask --------------------------------
(* C17 -- the mask action (plugin/action/mask): "every matched secret is hidden, nothing else is touched".

   PART 1 is a FUNCTIONAL SPECIFICATION OVER THE REGEXP ENGINE'S OWN OUTPUT.  The regexp engine is the
   trusted base: its answer, the submatch index table T, is an INPUT of the specification.  A case is
       val   the value, a sequence of bytes                      (what Node.AsBytes() returns)
       cw    the same value as a sequence of abstract characters, each given by its byte width
             (1 for a / b, 2 for e-acute ...);  Sum(cw) = Len(val)
       T     the table returned by FindAllSubmatchIndex: one row per match, row[2g+1], row[2g+2]
             (1-based tuple positions) = start, end byte offsets of group g, 0-based, half open,
             -1 -1 when the group took no part in the match
       G     the configured group list as the plugin uses it (after VerifyGroupNumbers)
       mode, mc, word     "mask" with max_count mc (0 = unlimited) | "replace" with the word | "cut"
   and the specification says which outputs `out` are acceptable:
       Sel, Hidden, OutsideKept, SecretGone, ExactWhenDisjointAscending, Applied.
   The same operators judge (a) the abstract cases enumerated here and (b) every record logged from the
   real plugin (MaskTrace.tla).

   PART 2 is an IMPLEMENTATION-SHAPED TRANSCRIPTION of Mask.maskValue (mask_struct.go:200-231): one
   action per iteration of the inner loop, the tail append, with the deviation D13 named:
       D13 = TRUE  (faithful): the loop appends value[prevFinish:curStart] without checking
                   prevFinish <= curStart and takes the tail from curFinish, which an absent group has
                   just set to -1  =>  the transcription reaches pc = "panic" exactly as Go would
                   ("slice bounds out of range [p:s]" / "[-1:]").
       D13 = FALSE (repaired): ranges of a match are visited in position order, a range is clamped to
                   what is still unwritten, the tail is taken from prevFinish.
   TLC enumerates ABSTRACT tables (every table a regexp engine could conceivably return on a value of
   up to MaxLen characters: <= MaxMatches matches, NG groups, nested / absent / descending / overlapping)
   and checks that the transcription (i) satisfies PART 1 whenever it returns and (ii) panics exactly in
   the situations PanicSituation names -- which is what pins the known-finding signatures.

   PART 3 (tree level): which leaves of an event a mask may touch (process / ignore lists, match rules),
   keys / order / other leaves unchanged, applied-mark fields and metrics (TreeShape, TreeScope,
   TreeMasked, TreeApplied), with the deviation D16 named (SelectedCoded: the marks of a listed field are
   not inherited by its nested fields once another list names something deeper) next to the property
   (SelectedDecl); MaskTrace.tla reports a failing event as "explained by D16" only if the code's result
   satisfies every predicate under SelectedCoded.                                                       *)
EXTENDS Integers, Sequences, FiniteSets, TLC, Json

CONSTANTS MaxLen,        \* abstract enumeration: maximal number of characters of the value
          Chars,         \* abstract characters: 1 = 'a', 2 = 'b' (one byte), 3 = e-acute (two bytes)
          MaxMatches,    \* abstract enumeration: rows of T
          NGs,           \* abstract enumeration: numbers of capture groups of the regexp
          MCs,           \* abstract enumeration: max_count values
          D13,           \* deviation switch, see above
          M_AllMatches   \* mechanism switch: TRUE = every row of the engine's table is rewritten (the code);
                         \* FALSE = the mutant "first match only when the expression text starts with an anchor"

STAR == 42
XY   == <<88, 89>>     \* the replace word of the abstract cases

Min(a, b) == IF a < b THEN a ELSE b
Max(a, b) == IF a > b THEN a ELSE b

-----------------------------------------------------------------------------
(*                    PART 1 -- functional specification                    *)

RECURSIVE SumTo(_, _)
SumTo(cw, k) == IF k = 0 THEN 0 ELSE cw[k] + SumTo(cw, k - 1)

\* byte offsets (0-based) at which a character starts / all character boundaries
CharStarts(cw) == {SumTo(cw, k - 1) : k \in 1..Len(cw)}
Boundaries(cw) == {SumTo(cw, k) : k \in 0..Len(cw)}
\* utf8.RuneCount(value[lo:hi]) for a range that lies on character boundaries
Runes(cw, lo, hi) == Cardinality({s \in CharStarts(cw) : lo <= s /\ s < hi})

\* value[lo:hi], Go slicing (0-based, half open)
Sub(s, lo, hi) == SubSeq(s, lo + 1, hi)

(* the (match, configured group) pairs in the order the plugin visits them *)
PairCount(T, G) == Len(T) * Len(G)
RangeAt(T, G, k) == LET mi == ((k - 1) \div Len(G)) + 1
                        g  == G[((k - 1) % Len(G)) + 1]
                    IN <<T[mi][2 * g + 1], T[mi][2 * g + 2]>>
IsPresent(r) == r[1] >= 0 /\ r[2] >= 0
AllRanges(T, G) == [k \in 1..PairCount(T, G) |-> RangeAt(T, G, k)]
\* selected ranges, as a sequence in configured (processing) order and as a set.  EVERY row of T counts: T is the
\* engine's answer without a limit (n = -1), anchors, alternations and flags of the expression are the engine's
\* business, not the plugin's (mechanism M_AllMatches)
SelSeq(T, G) == SelectSeq(AllRanges(T, G), IsPresent)
Sel(T, G) == {SelSeq(T, G)[k] : k \in 1..Len(SelSeq(T, G))}
\* byte positions (1-based) that must not survive; S is the sequence of selected ranges
HiddenOf(S, n) == {p \in 1..n : \E k \in 1..Len(S) : S[k][1] < p /\ p <= S[k][2]}
Hidden(c) == HiddenOf(SelSeq(c.T, c.G), Len(c.val))

\* the table is one a regexp engine can return for this value (trusted base; checked on every record)
TableWellFormed(c) ==
  LET B == Boundaries(c.cw) IN
  /\ SumTo(c.cw, Len(c.cw)) = Len(c.val)
  /\ \A i \in 1..Len(c.T) :
       LET m == c.T[i] IN
       /\ Len(m) >= 2 /\ Len(m) % 2 = 0
       /\ m[1] \in B /\ m[2] \in B /\ m[1] <= m[2]
       /\ \A g \in 1..((Len(m) \div 2) - 1) :
            \/ (m[2 * g + 1] = -1 /\ m[2 * g + 2] = -1)
            \/ (/\ m[2 * g + 1] \in B /\ m[2 * g + 2] \in B
                /\ m[1] <= m[2 * g + 1] /\ m[2 * g + 1] <= m[2 * g + 2] /\ m[2 * g + 2] <= m[2])
       /\ (i > 1 => c.T[i - 1][2] <= m[1])
  /\ \A j \in 1..Len(c.G) : c.G[j] >= 0 /\ \A i \in 1..Len(c.T) : 2 * c.G[j] + 2 <= Len(c.T[i])

\* "0 = the whole expression": a list that contains 0 means [0]
EffectiveGroups(gc) == IF \E j \in 1..Len(gc) : gc[j] = 0 THEN <<0>> ELSE gc

(* the replacement of one selected range *)
Repl(c, r) ==
  CASE c.mode = "replace" -> c.word
    [] c.mode = "cut"     -> <<>>
    [] c.mode = "mask"    -> LET n0 == Runes(c.cw, r[1], r[2])
                                 n  == IF c.mc > 0 THEN Min(n0, c.mc) ELSE n0
                             IN [i \in 1..n |-> STAR]
\* bytes a replacement can consist of
ReplSyms(c) == CASE c.mode = "replace" -> {c.word[i] : i \in 1..Len(c.word)}
                 [] c.mode = "cut"     -> {}
                 [] c.mode = "mask"    -> {STAR}
\* the enumerated inputs keep replacement bytes and value bytes apart, so that "this byte of the output is
\* replacement" is decidable from the output alone (checked on every record, an assumption not a verdict)
AlphabetsApart(c) == \A i \in 1..Len(c.val) : c.val[i] \notin ReplSyms(c)

DisjointAscending(S) == \A i \in 1..Len(S) : \A j \in (i + 1)..Len(S) : S[i][2] <= S[j][1]

(* ExactWhenDisjointAscending: value with each selected range replaced by Repl, in order.  The statement
   does not say whether an EMPTY selected range (a group that matched the empty string) inserts the replace
   word or nothing; both consistent policies are accepted.                                              *)
RECURSIVE ExactFrom(_, _, _, _, _)
ExactFrom(c, S, k, prev, insEmpty) ==
  IF k > Len(S) THEN Sub(c.val, prev, Len(c.val))
  ELSE LET r   == S[k]
           rep == IF r[1] = r[2] /\ ~insEmpty THEN <<>> ELSE Repl(c, r)
       IN Sub(c.val, prev, r[1]) \o rep \o ExactFrom(c, S, k + 1, r[2], insEmpty)
ExactOutsP(c, S) == {ExactFrom(c, S, 1, 0, b) : b \in BOOLEAN}
ExactOuts(c) == ExactOutsP(c, SelSeq(c.T, c.G))
ExactP(c, S, out) == DisjointAscending(S) => out \in ExactOutsP(c, S)
ExactWhenDisjointAscending(c, out) == ExactP(c, SelSeq(c.T, c.G), out)

(* OutsideKept: the output without its replacement bytes is the value without its hidden bytes, in order,
   and replacement bytes occur only where a selected range lies (between the kept bytes that surround it). *)
RECURSIVE RestrictFrom(_, _, _)
RestrictFrom(s, P, i) == IF i > Len(s) THEN <<>>
                         ELSE (IF i \in P THEN <<s[i]>> ELSE <<>>) \o RestrictFrom(s, P, i + 1)
Restrict(s, P) == RestrictFrom(s, P, 1)         \* the subsequence of s at the positions in P
Skeleton(c, out) == LET RS == ReplSyms(c) IN SelectSeq(out, LAMBDA b : b \notin RS)
KeptPositions(c) == (1..Len(c.val)) \ Hidden(c)
FillAtPlacesP(c, S, H, out) ==
  LET n     == Len(c.val)
      kps   == Restrict([i \in 1..n |-> i], (1..n) \ H)      \* kept positions, ascending
      m     == Len(kps)
      kp(x) == IF x = 0 THEN 0 ELSE IF x > m THEN n + 1 ELSE kps[x]
      RS    == ReplSyms(c)
  IN \A j \in 1..Len(out) :
       out[j] \in RS =>
         LET cnt == Cardinality({i \in 1..(j - 1) : out[i] \notin RS})
         IN cnt <= m /\ \E k \in 1..Len(S) : S[k][1] >= kp(cnt) /\ S[k][2] <= kp(cnt + 1) - 1
OutsideKeptP(c, S, H, out) ==
  /\ Skeleton(c, out) = Restrict(c.val, (1..Len(c.val)) \ H)
  /\ FillAtPlacesP(c, S, H, out)
OutsideKept(c, out) == OutsideKeptP(c, SelSeq(c.T, c.G), Hidden(c), out)

(* SecretGone: no maximal run of hidden positions appears in the output at its place, i.e. the output's
   skeleton is not the value in which some of the hidden runs are still there.                           *)
Runs(H) == {{q \in H : q >= p /\ \A x \in p..q : x \in H} : p \in {p \in H : (p - 1) \notin H}}
SecretGoneP(c, H, out) ==
  LET sk == Skeleton(c, out)
  IN \A Q \in (SUBSET Runs(H)) \ {{}} :
       sk # Restrict(c.val, (1..Len(c.val)) \ (H \ UNION Q))
SecretGone(c, out) == SecretGoneP(c, Hidden(c), out)

\* the applied mark / metrics: set exactly when the mask matched
Applied(c, flag) == flag <=> (c.T # <<>>)

\* everything the statement demands of one masked value
LeafOK(c, out) ==
  LET S == SelSeq(c.T, c.G)
      H == HiddenOf(S, Len(c.val))
  IN OutsideKeptP(c, S, H, out) /\ SecretGoneP(c, H, out) /\ ExactP(c, S, out)

(* The situations in which the code as written (D13) cannot return: named, in the order the code meets them.
   "descending": a selected range lies entirely before the previous one (configured order [2,1], or an
   alternation inside a repetition); "nested": one contains the other; "overlapping": partial overlap (no
   regexp engine produces it; kept for the abstract tables); "absent_last": the last configured group took no
   part in the last match, so curFinish is -1 at the tail append.                                          *)
PanicSituation(c) ==
  LET S   == SelSeq(c.T, c.G)
      bad == {k \in 2..Len(S) : S[k][1] < S[k - 1][2]}
  IN IF bad # {}
       THEN LET k == CHOOSE x \in bad : \A y \in bad : x <= y
                r == S[k]
                p == S[k - 1]
            IN IF r[2] <= p[1] THEN "descending"
               ELSE IF (p[1] <= r[1] /\ r[2] <= p[2]) \/ (r[1] <= p[1] /\ p[2] <= r[2]) THEN "nested"
               ELSE "overlapping"
     ELSE IF PairCount(c.T, c.G) > 0 /\ ~IsPresent(RangeAt(c.T, c.G, PairCount(c.T, c.G)))
       THEN "absent_last"
     ELSE "none"
\* the numbers in Go's panic message in that situation
PanicBounds(c) ==
  LET S   == SelSeq(c.T, c.G)
      bad == {k \in 2..Len(S) : S[k][1] < S[k - 1][2]}
  IN IF bad # {}
       THEN LET k == CHOOSE x \in bad : \A y \in bad : x <= y IN <<S[k - 1][2], S[k][1]>>
     ELSE IF PanicSituation(c) = "absent_last" THEN <<-1>>
     ELSE <<>>

-----------------------------------------------------------------------------
(*       PART 2 -- maskValue, transcribed; abstract tables enumerated       *)

VARIABLES cs,                           \* the case [val, cw, T, G, mode, mc, word]
          pc,                           \* loop | tail | done | nomatch | panic
          mi, gi,                       \* indexes of the two range loops
          prevFinish, curStart, curFinish, buf,     \* locals of maskValue
          pbounds                       \* the bounds of the failing slice expression

vars == <<cs, pc, mi, gi, prevFinish, curStart, curFinish, buf, pbounds>>

CharBytes(ch) == CASE ch = 1 -> <<97>> [] ch = 2 -> <<98>> [] ch = 3 -> <<195, 169>>
RECURSIVE Flat(_)
Flat(ss) == IF ss = <<>> THEN <<>> ELSE Head(ss) \o Flat(Tail(ss))

Values == UNION {[1..n -> Chars] : n \in 0..MaxLen}
BytesOf(v) == Flat([i \in 1..Len(v) |-> CharBytes(v[i])])
WidthsOf(v) == [i \in 1..Len(v) |-> Len(CharBytes(v[i]))]

\* a group inside the match [s, e): absent, or any sub-range on character boundaries
GroupOpts(B, s, e) == {<<-1, -1>>} \cup {x \in B \X B : s <= x[1] /\ x[1] <= x[2] /\ x[2] <= e}
Rows(B, ng, from) ==
  UNION {{<<w[1], w[2]>> \o Flat([g \in 1..ng |-> gs[g]]) : gs \in [1..ng -> GroupOpts(B, w[1], w[2])]}
         : w \in {x \in B \X B : from <= x[1] /\ x[1] <= x[2]}}
Tables(B, ng) ==
  {<<>>} \cup {<<r>> : r \in Rows(B, ng, 0)}
         \cup (IF MaxMatches < 2 THEN {}
               ELSE UNION {{<<r1, r2>> : r2 \in {r \in Rows(B, ng, r1[2]) : ~(r[1] = r[2] /\ r[1] = r1[2])}} : r1 \in Rows(B, ng, 0)})
GroupLists(ng) == {<<0>>} \cup {<<g>> : g \in 1..ng} \cup {<<g, h>> : <<g, h>> \in {x \in (1..ng) \X (1..ng) : x[1] # x[2]}}
ModeSet == {[mode |-> "mask", mc |-> k, word |-> <<>>] : k \in MCs}
           \cup {[mode |-> "replace", mc |-> 0, word |-> XY], [mode |-> "cut", mc |-> 0, word |-> <<>>]}

\* the case is chosen in two steps (value, groups, mode; then the table) only so that TLC's workers share
\* the enumeration of the tables; "setup" is not a step of the code
Init ==
  /\ \E v \in Values : \E ng \in NGs : \E G \in GroupLists(ng) : \E md \in ModeSet :
       \* anch: the expression TEXT starts with ^ or \A -- which says nothing about how often it can match
       \* (^(a)|(b): the anchor binds to the first branch only); only the mutant looks at it
       \E an \in (IF M_AllMatches THEN {FALSE} ELSE BOOLEAN) :
         cs = [val |-> BytesOf(v), cw |-> WidthsOf(v), T |-> <<>>, G |-> G,
               mode |-> md.mode, mc |-> md.mc, word |-> md.word, ng |-> ng, anch |-> an]
  /\ pc = "setup"
  /\ mi = 1 /\ gi = 1
  /\ prevFinish = 0 /\ curStart = 0 /\ curFinish = 0
  /\ buf = <<>> /\ pbounds = <<>>

\* indexes := m.Re_.FindAllSubmatchIndex(value, -1): any table an engine could return
Setup ==
  /\ pc = "setup"
  /\ \E T \in Tables(Boundaries(cs.cw), cs.ng) :
       /\ cs' = [cs EXCEPT !.T = T]
       /\ pc' = IF T = <<>> THEN "nomatch" ELSE "loop"     \* len(indexes) == 0 => return buf, false
  /\ UNCHANGED <<mi, gi, prevFinish, curStart, curFinish, buf, pbounds>>

(* M_AllMatches: the rows maskValue walks are ALL rows of T = FindAllSubmatchIndex(value, -1): the number of matches
   rewritten is the number of non-overlapping leftmost matches the engine finds without a limit.            *)
WalkedRows == IF M_AllMatches \/ ~cs.anch THEN cs.T ELSE SubSeq(cs.T, 1, 1)

Advance == IF gi < Len(cs.G) THEN mi' = mi /\ gi' = gi + 1 /\ pc' = "loop"
           ELSE IF mi < Len(WalkedRows) THEN mi' = mi + 1 /\ gi' = 1 /\ pc' = "loop"
           ELSE mi' = mi /\ gi' = gi /\ pc' = "tail"

(* one iteration of  `for _, grp := range m.Groups`  as written *)
IterFaithful ==
  /\ D13 /\ pc = "loop"
  /\ LET g == cs.G[gi]
         s == cs.T[mi][2 * g + 1]
         f == cs.T[mi][2 * g + 2]
     IN /\ curStart' = s /\ curFinish' = f
        /\ IF s < 0 \/ f < 0
             THEN /\ Advance /\ UNCHANGED <<buf, prevFinish, pbounds>>                 \* continue
             ELSE IF prevFinish > s
               THEN /\ pc' = "panic" /\ pbounds' = <<prevFinish, s>>                   \* value[prevFinish:curStart]
                    /\ UNCHANGED <<buf, prevFinish, mi, gi>>
               ELSE /\ buf' = buf \o Sub(cs.val, prevFinish, s) \o Repl(cs, <<s, f>>)  \* append; maskSection
                    /\ prevFinish' = f
                    /\ Advance /\ UNCHANGED pbounds
  /\ UNCHANGED cs

(* return append(buf, value[curFinish:]...), true *)
TailFaithful ==
  /\ D13 /\ pc = "tail"
  /\ IF curFinish < 0
       THEN pc' = "panic" /\ pbounds' = <<curFinish>> /\ UNCHANGED buf
       ELSE pc' = "done" /\ buf' = buf \o Sub(cs.val, curFinish, Len(cs.val)) /\ UNCHANGED pbounds
  /\ UNCHANGED <<cs, mi, gi, prevFinish, curStart, curFinish>>

(* the repaired loop: present ranges of the match in position order; clamp; tail from prevFinish *)
SortedRanges(m) ==
  LET idx == {j \in 1..Len(cs.G) : IsPresent(<<cs.T[m][2 * cs.G[j] + 1], cs.T[m][2 * cs.G[j] + 2]>>)}
      rng(j) == <<cs.T[m][2 * cs.G[j] + 1], cs.T[m][2 * cs.G[j] + 2]>>
      before(a, b) == \/ rng(a)[1] < rng(b)[1]
                      \/ (rng(a)[1] = rng(b)[1] /\ rng(a)[2] < rng(b)[2])
                      \/ (rng(a) = rng(b) /\ a < b)
  IN [k \in 1..Cardinality(idx) |-> rng(CHOOSE j \in idx : Cardinality({i \in idx : before(i, j)}) = k - 1)]

IterRepaired ==
  /\ ~D13 /\ pc = "loop"
  /\ LET R == SortedRanges(mi) IN
       IF gi > Len(R)
         THEN /\ (IF mi < Len(WalkedRows) THEN mi' = mi + 1 /\ gi' = 1 /\ pc' = "loop"
                  ELSE mi' = mi /\ gi' = gi /\ pc' = "tail")
              /\ UNCHANGED <<buf, prevFinish, curStart, curFinish>>
         ELSE LET s0 == R[gi][1]
                  f  == R[gi][2]
              IN /\ gi' = gi + 1 /\ mi' = mi /\ pc' = "loop"
                 /\ IF s0 < prevFinish /\ f <= prevFinish
                      THEN UNCHANGED <<buf, prevFinish, curStart, curFinish>>       \* already hidden
                      ELSE LET s == Max(s0, prevFinish) IN
                           /\ buf' = buf \o Sub(cs.val, prevFinish, s) \o Repl(cs, <<s, f>>)
                           /\ prevFinish' = f /\ curStart' = s /\ curFinish' = f
  /\ UNCHANGED <<cs, pbounds>>

TailRepaired ==
  /\ ~D13 /\ pc = "tail"
  /\ pc' = "done" /\ buf' = buf \o Sub(cs.val, prevFinish, Len(cs.val))
  /\ UNCHANGED <<cs, mi, gi, prevFinish, curStart, curFinish, pbounds>>

Next == Setup \/ IterFaithful \/ TailFaithful \/ IterRepaired \/ TailRepaired

Spec == Init /\ [][Next]_vars

(* invariants of the transcription *)
TypeOK == /\ pc \in {"setup", "loop", "tail", "done", "nomatch", "panic"}
          /\ (pc \in {"done", "nomatch", "panic"} => TableWellFormed(cs) /\ AlphabetsApart(cs))

\* (ii) it panics exactly in the named situations, with exactly the predicted bounds, and only under D13
PanicsExactlyWhenNamed ==
  /\ pc = "panic" => D13 /\ PanicSituation(cs) # "none" /\ pbounds = PanicBounds(cs)
  /\ pc = "done" /\ D13 => PanicSituation(cs) = "none"
\* every match the engine reported has been visited when the function returns
AllMatchesVisited == pc = "done" => mi = Len(cs.T)
\* (i) whenever it returns, the result is acceptable
ReturnsAcceptable ==
  /\ pc = "done" => LeafOK(cs, buf) /\ Applied(cs, TRUE)
  /\ pc = "nomatch" => buf = <<>> /\ Applied(cs, FALSE)
\* the three predicates are ordered as claimed: where the selection is disjoint and ascending the exact
\* rendering implies the two weaker ones (so requiring only those for overlaps weakens nothing else)
ExactImpliesWeaker ==
  pc \in {"done", "nomatch", "panic"} /\ DisjointAscending(SelSeq(cs.T, cs.G)) =>
    \A o \in ExactOuts(cs) : OutsideKept(cs, o) /\ SecretGone(cs, o)
\* the specification is not vacuous: leaving a hidden run in place, or dropping a kept byte, is rejected
RejectsSurvivor ==
  pc \in {"done", "panic"} /\ Hidden(cs) # {} => ~SecretGone(cs, cs.val) /\ ~OutsideKept(cs, cs.val)
RejectsDamage ==
  pc = "done" /\ KeptPositions(cs) # {} =>
    ~OutsideKept(cs, Restrict(buf, {j \in 1..Len(buf) : buf[j] \in ReplSyms(cs)}))

(* Export: one line per finished case with its class -- tallied by the check to show that every branch of
   Repl, every structural situation and both outcomes were actually explored.                            *)
CaseClass ==
  [o |-> pc, m |-> cs.mode,
   cap |-> (cs.mode = "mask" /\ cs.mc > 0 /\ \E r \in Sel(cs.T, cs.G) : Runes(cs.cw, r[1], r[2]) > cs.mc),
   wide |-> (\E r \in Sel(cs.T, cs.G) : Runes(cs.cw, r[1], r[2]) < r[2] - r[1]),
   s |-> PanicSituation(cs),
   da |-> DisjointAscending(SelSeq(cs.T, cs.G)),
   e |-> (\E r \in Sel(cs.T, cs.G) : r[1] = r[2]),
   n |-> Len(SelSeq(cs.T, cs.G))]
Export == pc \in {"done", "nomatch", "panic"} => PrintT(ToJson(CaseClass))

-----------------------------------------------------------------------------
(*                           PART 3 -- tree level                           *)

(* One event: ev.before / ev.after are the leaves (path, kind s|n|o, value bytes) of the document in document
   order before and after Do; ev.masks the masks (G, mode, mc, word, hasRe, own proc / ign lists, match rules,
   applied field), ev.gproc / ev.gign the plugin's lists; before[l].mi[i] carries the table of mask i's
   regexp on the leaf (Tb) and, for the second mask of a chain, the real result of the first mask alone on
   this leaf (mid) and the table on it (Tm).                                                          *)
IsPrefixOf(p, q) == Len(p) <= Len(q) /\ SubSeq(q, 1, Len(p)) = p
IsSuffixOf(p, q) == Len(p) <= Len(q) /\ SubSeq(q, Len(q) - Len(p) + 1, Len(q)) = p
IsInfixOf(p, q) == \E i \in 0..(Len(q) - Len(p)) : SubSeq(q, i + 1, i + Len(p)) = p
\* A leaf's path is the sequence of object keys and (decimal) array indexes that lead to it; a listed path covers
\* the leaf if it is a prefix of it, element by element as TEXT: an element addresses the member of an object with
\* that key and the element of an array at that index alike -- also an all-digit element such as `sessions.42`
\* (mechanism M_NumericKeyAddressesObjectMember, see MaskPath.tla)
Listed(paths, path) == \E i \in 1..Len(paths) : IsPrefixOf(paths[i], path)

\* does mask number i look at the leaf at `path`?  its own list overrides the plugin's; a listed field
\* stands for everything nested in it
SelectedDecl(ev, i, path) ==
  LET m == ev.masks[i] IN
  IF m.ign # <<>> THEN ~Listed(m.ign, path)
  ELSE IF m.proc # <<>> THEN Listed(m.proc, path)
  ELSE IF ev.gign # <<>> THEN ~Listed(ev.gign, path)
  ELSE IF ev.gproc # <<>> THEN Listed(ev.gproc, path)
  ELSE TRUE

(* Named deviation D16 (list marks are not inherited) -- what traverseTree / processMask do instead when some
   mask has its own list: all lists are merged into one tree of field names (gatherFieldMasksTree); while
   walking down to a leaf the code follows that tree as long as the current tree node has children, and a name
   that is not among them leads to the EMPTY node; the marks that count are those of the node where the walk
   ends, the marks of the nodes passed on the way are forgotten.  So "b" in one list stops covering b.c as
   soon as any list mentions something deeper under b (b.d, b.c.x ...).                                  *)
SetOf(paths) == {paths[k] : k \in 1..Len(paths)}
OwnList(m) == m.ign # <<>> \/ m.proc # <<>>
\* (the merged tree is built from ALL configured masks -- ev.allmasks --, also those that never match)
GlobalInPlay(ev) == \E i \in 1..Len(ev.allmasks) : ~OwnList(ev.allmasks[i])
Entries(ev) == UNION {SetOf(ev.allmasks[i].ign) \cup SetOf(ev.allmasks[i].proc) : i \in 1..Len(ev.allmasks)}
               \cup (IF GlobalInPlay(ev) THEN SetOf(ev.gign) \cup SetOf(ev.gproc) ELSE {})
EMPTYNODE == <<"<empty>">>
RECURSIVE Walk(_, _, _, _)
Walk(E, path, k, cur) ==
  IF k > Len(path) \/ cur = EMPTYNODE THEN cur
  ELSE IF \E e \in E : IsPrefixOf(cur, e) /\ Len(e) > Len(cur)                 \* the node has children
         THEN LET nxt == Append(cur, path[k]) IN
              IF \E e \in E : IsPrefixOf(nxt, e) THEN Walk(E, path, k + 1, nxt) ELSE EMPTYNODE
         ELSE cur                                                              \* a leaf of the tree: stay
SelectedCoded(ev, i, path) ==
  IF ~\E j \in 1..Len(ev.allmasks) : OwnList(ev.allmasks[j]) THEN SelectedDecl(ev, i, path)
  ELSE LET m == ev.masks[i]
           w == Walk(Entries(ev), path, 1, <<>>)
       IN IF m.ign # <<>> THEN w \notin SetOf(m.ign)
          ELSE IF m.proc # <<>> THEN w \in SetOf(m.proc)
          ELSE IF ev.gign # <<>> THEN w \notin SetOf(ev.gign)
          ELSE IF ev.gproc # <<>> THEN w \in SetOf(ev.gproc)
          ELSE TRUE
\* ev.sem says which of the two the predicates below use: "decl" is the property, "coded" the deviation
Selected(ev, i, path) == IF ev.sem = "coded" THEN SelectedCoded(ev, i, path) ELSE SelectedDecl(ev, i, path)
WithSem(ev, sem) == [sem |-> sem] @@ ev

(* The decision of a match rule is a function of (rule, value) ALONE: no state survives an evaluation or is
   shared between evaluations (mechanism M_MatchStateless, see MaskRules.tla), so it does not matter which
   plugin instance evaluates it or what other instances evaluate at the same time.                       *)
LowerAscii(s) == [i \in 1..Len(s) |-> IF s[i] >= 65 /\ s[i] <= 90 THEN s[i] + 32 ELSE s[i]]
RuleHolds(r, v0) ==
  LET v    == IF r.ci THEN LowerAscii(v0) ELSE v0
      x(i) == IF r.ci THEN LowerAscii(r.vals[i]) ELSE r.vals[i]
      hit  == \E i \in 1..Len(r.vals) :
                CASE r.mode = "prefix"   -> IsPrefixOf(x(i), v)
                  [] r.mode = "suffix"   -> IsSuffixOf(x(i), v)
                  [] r.mode = "contains" -> IsInfixOf(x(i), v)
  IN hit # r.inv
RuleSetHolds(rs, v) ==
  /\ rs.rules # <<>>
  /\ IF rs.cond = "or" THEN \E i \in 1..Len(rs.rules) : RuleHolds(rs.rules[i], v)
     ELSE \A i \in 1..Len(rs.rules) : RuleHolds(rs.rules[i], v)
RulesHold(rules, v) == rules = <<>> \/ \E i \in 1..Len(rules) : RuleSetHolds(rules[i], v)

MaskCase(m, v, cw, T) == [val |-> v, cw |-> cw, T |-> T, G |-> m.G, mode |-> m.mode, mc |-> m.mc, word |-> m.word]
Maskable(b) == b.t \in {"s", "n"} /\ b.v # <<>>
(* do_if of a mask: a condition on the EVENT AS IT ARRIVES (ev.before) -- never on what the plugin has already
   rewritten in it (mechanism M_DoIfOnOriginalEvent, see MaskDoIf.tla); the subset used by the driver: field
   equal / prefix / suffix / contains one-of-values (a missing field satisfies none), not, or, and.  A mask
   whose do_if does not hold for this event looks at none of its leaves.                                   *)
FieldCmp(op, x, v) == CASE op = "equal"    -> x = v
                        [] op = "prefix"   -> IsPrefixOf(x, v)
                        [] op = "suffix"   -> IsSuffixOf(x, v)
                        [] op = "contains" -> IsInfixOf(x, v)
RECURSIVE CondHolds(_, _)
CondHolds(ev, c) ==
  CASE c.op \in {"equal", "prefix", "suffix", "contains"} ->
         \E l \in 1..Len(ev.before) :
            /\ ev.before[l].p = c.field /\ ev.before[l].t = "s"
            /\ \E k \in 1..Len(c.vals) : FieldCmp(c.op, c.vals[k], ev.before[l].v)
    [] c.op = "not"   -> ~CondHolds(ev, c.args[1])
    [] c.op = "or"    -> \E k \in 1..Len(c.args) : CondHolds(ev, c.args[k])
    [] c.op = "and"   -> \A k \in 1..Len(c.args) : CondHolds(ev, c.args[k])
DoIfHolds(ev, i) == ev.masks[i].doif = <<>> \/ CondHolds(ev, ev.masks[i].doif[1])
\* mask i looks at leaf b (its do_if on this event, lists, match rules on the leaf's own value; empty values
\* are never processed)
Active(ev, i, b) == Maskable(b) /\ DoIfHolds(ev, i) /\ Selected(ev, i, b.p) /\ RulesHold(ev.masks[i].rules, b.v)
Masking(m) == m.hasRe /\ m.G # <<>>
\* what the second mask of a chain sees on leaf b
Hit1(ev, b) == Active(ev, 1, b) /\ Masking(ev.masks[1]) /\ b.mi[1].Tb # <<>>
Input2(ev, b) == IF Hit1(ev, b) THEN [v |-> b.mi[2].mid, cw |-> b.mi[2].cwm, T |-> b.mi[2].Tm]
                 ELSE [v |-> b.v, cw |-> b.cw, T |-> b.mi[2].Tb]
Hit(ev, i, b) == IF i = 1 THEN Hit1(ev, b)
                 ELSE Active(ev, 2, b) /\ Masking(ev.masks[2]) /\ Input2(ev, b).T # <<>>
\* "mask i matched on leaf b": a mask without a regexp matches by its rules alone
Matched(ev, i, b) == Active(ev, i, b) /\ (Masking(ev.masks[i]) => Hit(ev, i, b))

\* the value of leaf l afterwards is the value before with every looking mask applied in order
LeafMasked(ev, l) ==
  LET b == ev.before[l]
      a == ev.after[l]
      n == Len(ev.masks)
  IN IF n = 1
       THEN IF Hit1(ev, b) THEN LeafOK(MaskCase(ev.masks[1], b.v, b.cw, b.mi[1].Tb), a.v) ELSE a.v = b.v
       ELSE LET in2 == Input2(ev, b) IN
            /\ Hit1(ev, b) => LeafOK(MaskCase(ev.masks[1], b.v, b.cw, b.mi[1].Tb), in2.v)
            /\ IF Hit(ev, 2, b) THEN LeafOK(MaskCase(ev.masks[2], in2.v, in2.cw, in2.T), a.v) ELSE a.v = in2.v
KindAfter(ev, l) ==
  LET b == ev.before[l]
      a == ev.after[l]
      hit == \E i \in 1..Len(ev.masks) : Hit(ev, i, b)
  IN IF ~hit THEN a.t = b.t
     ELSE a.t \in {"s", b.t} /\ (a.v # b.v => a.t = "s")

(* TreeScope: keys, order and structure are those of the document before (new leaves only at the end); a
   leaf that is not a non-empty string / number, or that no mask looks at, is byte-identical.           *)
TreeShape(ev) ==
  /\ Len(ev.after) >= Len(ev.before)
  /\ \A l \in 1..Len(ev.before) : ev.after[l].p = ev.before[l].p
TreeScope(ev) ==
  \A l \in 1..Len(ev.before) :
    (~\E i \in 1..Len(ev.masks) : Hit(ev, i, ev.before[l])) =>
       ev.after[l].t = ev.before[l].t /\ ev.after[l].v = ev.before[l].v
TreeMasked(ev) ==
  \A l \in 1..Len(ev.before) : Maskable(ev.before[l]) => LeafMasked(ev, l) /\ KindAfter(ev, l)
\* applied marks and metrics: set exactly when some mask matched (per mask: exactly when that mask matched IN THIS
\* EVENT -- the result for an event is a function of (configuration, event) alone, whatever the instance has processed
\* before: mechanism M_NoStateAcrossEvents, MaskSeq.tla).  A mask without applied_field (af = "") writes no field, a
\* mask without metric_name (hm = FALSE) has no metric to look at.
MatchedSomewhere(ev, i) == \E l \in 1..Len(ev.before) : Matched(ev, i, ev.before[l])
TreeApplied(ev) ==
  LET any   == \E i \in 1..Len(ev.masks) : MatchedSomewhere(ev, i)
      added == SubSeq(ev.after, Len(ev.before) + 1, Len(ev.after))
      want  == (IF any THEN {<<ev.af>>} ELSE {})
               \cup {<<ev.masks[i].af>> : i \in {j \in 1..Len(ev.masks) : ev.masks[j].af # "" /\ MatchedSomewhere(ev, j)}}
  IN /\ {added[k].p : k \in 1..Len(added)} = want
     /\ Len(added) = Cardinality(want)
     /\ \A k \in 1..Len(added) : added[k].t = "s" /\ added[k].v = <<49>>
     /\ ev.met = (IF any THEN 1 ELSE 0)
     /\ \A i \in 1..Len(ev.masks) : IF ev.masks[i].hm THEN (ev.mmet[i] > 0) <=> MatchedSomewhere(ev, i) ELSE ev.mmet[i] = 0


(* NUMBER AND INDEX OF MASKS.  Every predicate above speaks about one mask at a time (and, for a leaf two masks
   rewrite, about their order); none of them mentions the POSITION of a mask in the configured list.  A mask that
   matches nothing (empty table on every value, before and after the other masks) has no effect and sets no mark.
   So an event with N configured masks, of which only those at the positions ev.im (one or two) ever match, is
   judged exactly like the same event with the silent masks removed -- whatever N is and wherever the matching
   masks sit (first, 64th, 131st).  How the code represents "the masks that list this field" must not matter
   (mechanism M_MaskSetUnbounded, see MaskSet.tla).                                                        *)
Silent(ev, j) ==
  /\ ev.masks[j].hasRe /\ ev.masks[j].rules = <<>> /\ ev.masks[j].doif = <<>>
  /\ \A l \in 1..Len(ev.before) :
       ev.before[l].mi # <<>> => ev.before[l].mi[j].Tb = <<>> /\ ev.before[l].mi[j].Tm = <<>>
OthersSilent(ev) ==
  /\ Len(ev.im) \in {1, 2} /\ \A k \in 1..Len(ev.im) : ev.im[k] \in 1..Len(ev.masks)
  /\ (Len(ev.im) = 2 => ev.im[1] < ev.im[2])
  /\ \A j \in 1..Len(ev.masks) : (\A k \in 1..Len(ev.im) : ev.im[k] # j) => Silent(ev, j)
ProjectMasks(ev) ==
  [allmasks |-> ev.masks] @@
  [ev EXCEPT !.masks  = [k \in 1..Len(ev.im) |-> ev.masks[ev.im[k]]],
             !.mmet   = IF ev.mmet = <<>> THEN <<>> ELSE [k \in 1..Len(ev.im) |-> ev.mmet[ev.im[k]]],
             !.before = [l \in 1..Len(ev.before) |->
                           IF ev.before[l].mi = <<>> THEN ev.before[l]
                           ELSE [ev.before[l] EXCEPT !.mi = [k \in 1..Len(ev.im) |-> ev.before[l].mi[ev.im[k]]]]]]
\* a silent mask has no metric of its own (its applied field is excluded by TreeApplied: it is not wanted)
SilentUnmarked(ev) ==
  ev.mmet # <<>> => \A j \in 1..Len(ev.masks) : (\A k \in 1..Len(ev.im) : ev.im[k] # j) => ev.mmet[j] = 0
=============================================================================
