----------------------------- MODULE PipelineObs -----------------------------
(* Observable history of a file.d pipeline and the listed properties stated over it.

   The history record below holds what an input plugin, an action plugin and an output plugin can
   SEE at their boundaries: In calls and results, Do results, send calls and results, error
   callbacks, dead-queue hand-overs and Commit notifications.  The properties C01, C02, C05, C08,
   C09 are written once, here, over that history: every O* operator is a pure function
   history -> history for one observable step which also ACCUMULATES in `.viol` a record for every
   property clause the step falsifies (it never stops at the first one, so a listed known finding
   cannot mask a different violation later in the same run).

   Two modules drive these operators:
     Pipeline.tla     -- the design model: its actions apply O* ; TLC checks viol = {} exhaustively;
     PipelineMon.tla  -- trace validation: each line recorded from the REAL code applies the same O*.
   So the same property text is evaluated on every reachable state of the design and on every step
   of every recorded execution of the implementation.                                            *)
EXTENDS Integers, Sequences, FiniteSets, TLC

CONSTANTS MaxId            \* event ids are 1..MaxId (0 = none / time-out)

Ev == 1..MaxId
Batchers == {"main", "dq"}
Finished == {"refused", "dropped", "acked", "givenup"}

V(kind, id, other, by, info) == [kind |-> kind, id |-> id, other |-> other, by |-> by, info |-> info]
NoMeta == [src |-> 0, stream |-> "", off |-> 0, idx |-> 0]
SeqToSet(s) == {s[i] : i \in 1..Len(s)}

(* cfg = [cap, batch, dqbatch, retry, dq, gaps, retention, mult10] (retention in microseconds, 0 = pauses not judged; mult10 = 10 x multiplier; (gaps: batches without deliverable events exist, their sequence numbers are never seen by a send): capacity, batch count limits (main, dead queue), AttemptNum, dead queue configured *)
ObsNew(cfg) ==
  [cfg     |-> cfg,
   fate    |-> [e \in Ev |-> "unread"],   \* unread | inflight | refused | held | dropped | acked | givenup
   meta    |-> [e \in Ev |-> NoMeta],     \* [src, stream, off, idx]  idx = read position within the source
   commits |-> <<>>,                      \* sequence of [id, by] in the order the input plugin was notified
   live    |-> {},                        \* ids whose event object is currently owned by the pipeline
   owner   |-> <<>>,                      \* object -> id
   added   |-> [b \in Batchers |-> <<>>], \* order of Out/Add per batcher
   removed |-> [b \in Batchers |-> {}],   \* ids taken out of a batch by the dead-queue hand-over
   bdone   |-> [b \in Batchers |-> {}],   \* ids whose batch's send returned for good (ok / given up)
   bcommit |-> [b \in Batchers |-> <<>>], \* order of per-batcher commit calls
   att     |-> [b \in Batchers |-> <<>>], \* first id of batch -> [calls, fails]
   batches |-> [b \in Batchers |-> <<>>], \* batch sequence number -> ids, as seen by the send function
   failed  |-> [e \in Ev |-> 0],          \* times handed to the dead queue
   onerr   |-> [e \in Ev |-> 0],          \* times reported through the error callback
   child   |-> {},                        \* ids of events spawned by a split (never pooled, never notified to the input)
   kids    |-> <<>>,                      \* split parent -> its children: the parent is delivered through them
   viol    |-> {}]

CommittedIds(o) == {o.commits[i].id : i \in 1..Len(o.commits)}
SameStream(o, e, f) == o.meta[e].src = o.meta[f].src /\ o.meta[e].stream = o.meta[f].stream
FnSet(f, k, v) == IF k \in DOMAIN f THEN [f EXCEPT ![k] = v]
                  ELSE [x \in DOMAIN f \cup {k} |-> IF x = k THEN v ELSE f[x]]

-----------------------------------------------------------------------------
(* In is about to be called for record id of source src (idx = its read position in the source) *)
OInCall(o, id, src, stream, off, idx) ==
  [o EXCEPT !.fate[id] = "inflight",
            !.meta[id] = [src |-> src, stream |-> stream, off |-> off, idx |-> idx]]

(* the pool handed object obj to record id (seen at PassEvent, i.e. inside In).
   C05: never more than capacity owned at once; an object never has two owners at once. *)
OOwn(o, id, obj) ==
  LET n == Cardinality(o.live \cup {id})
      v1 == IF n > o.cfg.cap THEN {V("over_capacity", id, n, "pool", "")} ELSE {}
      cur == IF obj \in DOMAIN o.owner THEN o.owner[obj] ELSE 0
      v2 == IF cur # 0 /\ cur # id /\ cur \in o.live THEN {V("double_owner", id, cur, "pool", "")} ELSE {}
  IN [o EXCEPT !.live = @ \cup {id}, !.owner = FnSet(@, obj, id), !.viol = @ \cup v1 \cup v2]

(* In returned: refused (0) or accepted *)
OInRet(o, id, accepted) ==
  IF accepted THEN o
  ELSE [o EXCEPT !.fate[id] = IF @ = "inflight" THEN "refused" ELSE @, !.live = @ \ {id}]

(* the design model reads in one atomic step *)
OIn(o, id, src, stream, off, idx, accepted) ==
  IF accepted THEN OOwn(OInCall(o, id, src, stream, off, idx), id, id)
  ELSE OInRet(OInCall(o, id, src, stream, off, idx), id, FALSE)

(* an action decided: discard / collapse (silent drop), hold, pass, break *)
ODo(o, id, res) ==
  LET drop == res \in {"discard", "collapse"}
      v == IF drop /\ o.fate[id] \in {"dropped", "refused", "unread"}
             THEN {V("drop_of_finished", id, 0, "proc", o.fate[id])} ELSE {}
  IN [o EXCEPT !.fate[id] = IF drop THEN "dropped" ELSE IF res = "hold" THEN "held"
                            ELSE IF @ = "held" THEN "inflight" ELSE @,
               !.live = IF drop THEN @ \ {id} ELSE @,
               !.viol = @ \cup v]

(* a held event was thrown back into the pipeline *)
OPropagate(o, id) == [o EXCEPT !.fate[id] = IF @ = "held" THEN "inflight" ELSE @]

(* Spawn: a split action turned `parent` into a child-parent event and produced the child events `kids` *)
OSpawn(o, parent, kids) == [o EXCEPT !.child = @ \cup SeqToSet(kids), !.kids = FnSet(@, parent, SeqToSet(kids))]
\* an event is finished when an output acknowledged it or it was deliberately dropped; a split parent is never sent by
\* itself (outputs skip it): it is finished when every child is
Fin(o, e) == IF e \in DOMAIN o.kids THEN \A k \in o.kids[e] : o.fate[k] \in Finished ELSE o.fate[e] \in Finished

(* Out: the event was added to batcher b *)
OAdd(o, b, id) == [o EXCEPT !.added[b] = Append(@, id)]

(* the send function of batcher b was called with the batch numbered seq holding ids (C08 size bound) *)
RECURSIVE Pow(_, _)
Pow(x, n) == IF n <= 0 THEN 1 ELSE x * Pow(x, n - 1)
\* lower bound of the f-th pause of the exponential back-off (randomization factor 0.5): retention * mult^(f-1) / 2
PauseLower(retention, mult10, f) == (retention * Pow(mult10, f - 1)) \div (Pow(10, f - 1) * 2)

OSendCall(o, b, seq, ids, t) ==
  LET k == ids[1]
      cur == IF k \in DOMAIN o.att[b] THEN o.att[b][k] ELSE [calls |-> 0, fails |-> 0, lastfail |-> 0]
      f == IF cur.fails > 6 THEN 6 ELSE cur.fails
      v0 == IF o.cfg.retention > 0 /\ cur.fails > 0 /\ (t - cur.lastfail) * 10 < PauseLower(o.cfg.retention, o.cfg.mult10, f) * 9
              THEN {V("pause_too_short", k, t - cur.lastfail, b, "")} ELSE {}
      lim == IF b = "dq" THEN o.cfg.dqbatch ELSE o.cfg.batch
      v1 == IF lim > 0 /\ Len(ids) > lim THEN {V("batch_too_big", k, Len(ids), b, "")} ELSE {}
      v2 == {V("resend_after_done", e, 0, b, "") : e \in SeqToSet(ids) \cap o.bdone[b]}
  IN [o EXCEPT !.att[b] = FnSet(@, k, [cur EXCEPT !.calls = @ + 1]),
               !.batches[b] = FnSet(@, seq, ids),
               !.viol = @ \cup v0 \cup v1 \cup v2]

(* C08 byte bound: a batch handed to the output exceeds the configured byte size by at most its last event *)
OSendBytes(o, b, first, total, last, limit) ==
  IF limit > 0 /\ total - last >= limit
    THEN [o EXCEPT !.viol = @ \cup {V("batch_bytes_exceeded", first, total, b, "")}]
    ELSE o

(* C08 staleness: an added event reaches the send function within flush timeout + heartbeat period + slack *)
OStale(o, b, first, waitedMs, boundMs) ==
  IF waitedMs > boundMs THEN [o EXCEPT !.viol = @ \cup {V("batch_stale", first, waitedMs, b, "")}] ELSE o

(* the send function returned *)
OSendRet(o, b, ids, ok, t) ==
  LET k == ids[1] IN
  IF ok THEN [o EXCEPT !.fate = [e \in Ev |-> IF e \in SeqToSet(ids) THEN "acked" ELSE @[e]],
                       !.bdone[b] = @ \cup SeqToSet(ids)]
  ELSE [o EXCEPT !.att[b] = IF k \in DOMAIN @ THEN [@ EXCEPT ![k] = [@ EXCEPT !.fails = @ + 1, !.lastfail = t]] ELSE @]

(* retries exhausted: the error callback ran for the batch (C09 attempts clause) *)
OGiveUp(o, b, ids) ==
  IF ids = <<>>       \* the error callback ran without the events of the batch it is about: nobody can route or commit them
    THEN [o EXCEPT !.viol = @ \cup {V("gave_up_without_events", 0, 0, b, "")}]
  ELSE
  LET k == ids[1]
      a == IF k \in DOMAIN o.att[b] THEN o.att[b][k] ELSE [calls |-> 0, fails |-> 0, lastfail |-> 0]
      v1 == IF o.cfg.retry >= 0 /\ a.calls < o.cfg.retry + 1 THEN {V("gave_up_early", k, a.calls, b, "")} ELSE {}
      v2 == IF o.cfg.retry < 0 THEN {V("gave_up_unlimited", k, a.calls, b, "")} ELSE {}
      v3 == {V("onerror_twice", e, o.onerr[e] + 1, b, "") : e \in {x \in SeqToSet(ids) : o.onerr[x] >= 1}}
      toDQ == o.cfg.dq /\ b = "main"
  IN [o EXCEPT !.onerr = [e \in Ev |-> IF e \in SeqToSet(ids) THEN @[e] + 1 ELSE @[e]],
               !.fate = IF toDQ THEN @ ELSE [e \in Ev |-> IF e \in SeqToSet(ids) THEN "givenup" ELSE @[e]],
               !.bdone[b] = @ \cup SeqToSet(ids),
               !.viol = @ \cup v1 \cup v2 \cup v3]

(* Router.Fail: one event handed to the dead-queue output *)
OFail(o, id) ==
  LET v1 == IF o.failed[id] >= 1 THEN {V("failed_twice", id, o.failed[id] + 1, "main", "")} ELSE {}
      v2 == IF ~o.cfg.dq THEN {V("fail_without_dq", id, 0, "main", "")} ELSE {}
  IN [o EXCEPT !.failed[id] = @ + 1, !.removed["main"] = @ \cup {id}, !.viol = @ \cup v1 \cup v2]

(* batcher b calls Controller.Commit(event)  -- C08 order / own-send clauses, C09 routing clause.
   Batches are committed in the order they were formed (sequence numbers), each batch in its own order. *)
OBatchCommit(o, b, id, nosend) ==     \* nosend: the event is a split parent (never handed to the send function by itself)
  LET done == SeqToSet(o.bcommit[b])
      bs == o.batches[b]
      mine == {q \in DOMAIN bs : id \in SeqToSet(bs[q])}
      open(q) == {x \in SeqToSet(bs[q]) : x \notin o.removed[b] /\ x \notin done}
      v1 == IF mine = {} THEN {}
            ELSE LET q == CHOOSE x \in mine : \A y \in mine : y <= x
                     pos == CHOOSE i \in 1..Len(bs[q]) : bs[q][i] = id
                     earlierSeq == {x \in 0..(q - 1) : (x \notin DOMAIN bs /\ ~o.cfg.gaps) \/ (x \in DOMAIN bs /\ open(x) # {})}
                     earlierPos == {i \in 1..(pos - 1) : bs[q][i] \in open(q)}
                 IN IF earlierSeq # {} \/ earlierPos # {}
                      THEN {V("batch_commit_order", id, q, b, "")} ELSE {}
      v2 == IF id \notin o.bdone[b] /\ ~(nosend /\ mine = {}) THEN {V("commit_before_send_return", id, 0, b, "")} ELSE {}
      v3 == IF id \in o.removed[b] THEN {V("commit_of_dead_queued", id, 0, b, "")} ELSE {}
      v4 == IF id \in done THEN {V("batch_commit_twice", id, 0, b, "")} ELSE {}
  IN [o EXCEPT !.bcommit[b] = Append(@, id), !.viol = @ \cup v1 \cup v2 \cup v3 \cup v4]

(* the input plugin is notified: Commit(event)   -- C01 and C02 *)
OCommit(o, id, by) ==
  LET m == o.meta[id]
      earlier == {f \in Ev : f # id /\ o.fate[f] # "unread" /\ SameStream(o, f, id) /\ o.meta[f].idx < m.idx}
      unfinished == {f \in earlier : ~Fin(o, f)}
      inDQ(e) == o.failed[e] > 0 \/ (e \in DOMAIN o.kids /\ \E k \in o.kids[e] : o.failed[k] > 0)
      v1 == IF id \in DOMAIN o.kids
              THEN (IF ~Fin(o, id) THEN {V("commit_unacked", id, 0, by, IF inDQ(id) THEN "child_in_dq" ELSE "child_unfinished")} ELSE {})
              ELSE (IF o.fate[id] \notin {"acked", "givenup"} THEN {V("commit_unacked", id, 0, by, o.fate[id])} ELSE {})
      v2 == {V("frontier", id, f, by, IF inDQ(f) THEN "in_dq" ELSE o.fate[f]) : f \in unfinished}
      v3 == IF id \in CommittedIds(o) THEN {V("dup_commit", id, 0, by, "")} ELSE {}
      same == {i \in 1..Len(o.commits) : SameStream(o, o.commits[i].id, id)}
      v4 == {V("order", id, o.commits[i].id, by, o.commits[i].by) :
               i \in {j \in same : o.meta[o.commits[j].id].idx > m.idx}}
      v5 == {V("offset_order", id, o.commits[i].id, by, o.commits[i].by) :
               i \in {j \in same : o.meta[o.commits[j].id].idx < m.idx /\ o.meta[o.commits[j].id].off >= m.off}}
      v6 == IF o.fate[id] = "dropped" THEN {V("commit_of_dropped", id, 0, by, "")} ELSE {}
  IN [o EXCEPT !.commits = Append(@, [id |-> id, by |-> by]),
               !.live = @ \ {id},
               !.viol = @ \cup v1 \cup v2 \cup v3 \cup v4 \cup v5 \cup v6]

(* scalar samples of the pool's own in-use counter (C05) *)
OSample(o, inuse) ==
  \* a sample ABOVE the capacity is not judged: the std pool publishes a returned slot before it decrements its counter, so a
  \* getter's increment can come first (the counter is a metric; the property speaks about events held, which OOwn counts)
  LET v == IF inuse < 0 THEN {V("inuse_negative", 0, inuse, "pool", "")} ELSE {}
  IN IF v = {} THEN o ELSE [o EXCEPT !.viol = @ \cup v]

(* the pipeline is idle: C02 accounting, C05 zero at quiescence, C09 routing at exhaustion *)
OEnd(o, inuse, waiters) ==
  LET accepted == {e \in Ev : o.fate[e] \notin {"unread", "refused"}} \ o.child
      com == CommittedIds(o)
      v1 == {V("unaccounted", e, 0, "end", o.fate[e]) : e \in {x \in accepted : x \notin com /\ o.fate[x] # "dropped"}}
      v2 == {V("dropped_and_committed", e, 0, "end", "") : e \in {x \in accepted : x \in com /\ o.fate[x] = "dropped"}}
      v3 == IF inuse # 0 THEN {V("inuse_not_zero_at_idle", 0, inuse, "pool", "")} ELSE {}
      v4 == IF waiters # 0 THEN {V("waiters_not_zero_at_idle", 0, waiters, "pool", "")} ELSE {}
      v5 == {V("leaked", e, 0, "pool", o.fate[e]) : e \in o.live}
      gave == {e \in Ev : o.onerr[e] > 0}
      byOf(e) == {b \in Batchers : e \in SeqToSet(o.bcommit[b])}
      v6 == IF o.cfg.dq
              THEN {V("exhausted_not_dq_only", e, o.failed[e], "end", "") :
                      e \in {x \in gave : o.failed[x] # 1 \/ byOf(x) # {"dq"}}}
              ELSE {V("exhausted_not_main_once", e, o.onerr[e], "end", "") :
                      e \in {x \in gave : o.onerr[x] # 1 \/ byOf(x) # {"main"}}}
      v7 == UNION {{V("added_not_committed_once", e, 0, b, "") :
                      e \in {x \in SeqToSet(o.added[b]) \ o.removed[b] :
                               Cardinality({i \in 1..Len(o.bcommit[b]) : o.bcommit[b][i] = x}) # 1}} : b \in Batchers}
  IN [o EXCEPT !.viol = @ \cup v1 \cup v2 \cup v3 \cup v4 \cup v5 \cup v6 \cup v7]

-----------------------------------------------------------------------------
(* The listed properties as predicates over the accumulated history. *)
KindsC01 == {"commit_unacked", "frontier"}
KindsC02 == {"dup_commit", "order", "offset_order", "commit_of_dropped", "unaccounted", "dropped_and_committed",
             "drop_of_finished"}
KindsC05 == {"over_capacity", "double_owner", "inuse_over_capacity", "inuse_negative", "inuse_not_zero_at_idle",
             "waiters_not_zero_at_idle", "leaked"}
KindsC08 == {"batch_too_big", "batch_commit_order", "commit_before_send_return", "batch_commit_twice",
             "resend_after_done", "added_not_committed_once", "batch_bytes_exceeded", "batch_stale", "parent_sent", "deliverable_event_not_sent"}
KindsC09 == {"gave_up_without_events", "payload_of_other_event", "pause_too_short", "gave_up_early", "gave_up_unlimited", "onerror_twice", "failed_twice", "fail_without_dq",
             "commit_of_dead_queued", "exhausted_not_dq_only", "exhausted_not_main_once",
             "commit_before_send_return"}

Holds(o, kinds) == \A v \in o.viol : v.kind \notin kinds
=============================================================================
