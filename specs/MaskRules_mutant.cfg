\* the mutant: scratch buffer on the shared rule set -- TLC must find a violation with two concurrent evaluations
SPECIFICATION Spec
CONSTANTS
  Procs = {1, 2}
  M_MatchStateless = FALSE
INVARIANTS TypeOK DecisionIsFunctionOfValue
CHECK_DEADLOCK FALSE
