SPECIFICATION FairSpec
CONSTANTS
  Capacity = 1
  Getters = {"g1", "g2"}
  Rounds = 2
  HasHeartbeat = TRUE
INVARIANTS SingleOwner NoNilHandout Bounded NoWedge ZeroAtEnd
PROPERTIES AllDone
CHECK_DEADLOCK FALSE
