SPECIFICATION Spec
CONSTANTS
  N = 3
  MaxEvents = 3
  M_SelectorIndependentOfOtherActions = TRUE
INVARIANTS TypeOK SelectorDecides
CHECK_DEADLOCK FALSE
