SPECIFICATION Spec
CONSTANTS
  N = 3
  MaxEvents = 3
  M_SelectorIndependentOfOtherActions = TRUE
  M_OnlyTimeoutExempt = TRUE
INVARIANTS TypeOK SelectorDecides
CHECK_DEADLOCK FALSE
