SPECIFICATION Spec
CONSTANTS
  Capacity = 1
  Getters = {"g1", "g2"}
  Rounds = 1
  M_HeartbeatLives = TRUE
  RecordGate = TRUE
  HeartbeatWhenAvailable = TRUE
INVARIANTS NeverLostWakeup
CHECK_DEADLOCK FALSE
