SPECIFICATION Spec
CONSTANTS
  M_OneWriterPerFile = TRUE
  MaxCommits = 2
INVARIANTS RoundTripOwn NeverForeign OneWriter Export
CHECK_DEADLOCK FALSE
