----------------------------- MODULE PipelineMon -----------------------------
(* Trace validation of the REAL pipeline against the observable-history part of the specification.

   The Go harness (harness/overlay/pipeline/zz_verif_core_test.go) records, under one mutex, one
   ndjson line per observable step of a run of the real Pipeline / Batcher / RetriableBatcher.
   This module replays the lines, in order, through the SAME O* operators the design model
   (Pipeline.tla) uses, so the property clauses of PipelineObs.tla are evaluated at every step of
   every recorded execution.  Many runs are concatenated in one file; a "Reset" line starts a new
   run.  The accumulated violation records are printed as JSON when the file is exhausted.       *)
EXTENDS PipelineObs, Json

CONSTANT TraceFile

Trace == ndJsonDeserialize(TraceFile)

VARIABLES l,      \* next line
          obs,    \* observable history of the current run
          run,    \* current run number
          out     \* accumulated <<run, violation record>>

mvars == <<l, obs, run, out>>

DefaultCfg == [cap |-> 1, batch |-> 0, dqbatch |-> 0, retry |-> 0, dq |-> FALSE, gaps |-> FALSE, retention |-> 0, mult10 |-> 10]

Apply(o, t) ==
  CASE t.ev = "Reset"     -> ObsNew([cap |-> t.cap, batch |-> t.batch, dqbatch |-> t.dqbatch, retry |-> t.retry, dq |-> t.dq, gaps |-> t.gaps, retention |-> t.retention, mult10 |-> t.mult10])
    [] t.ev = "InCall"    -> OInCall(o, t.id, t.src, t.stream, t.off, t.idx)
    [] t.ev = "Own"       -> IF t.id \in Ev THEN OOwn(o, t.id, t.obj) ELSE o
    [] t.ev = "InRet"     -> OInRet(o, t.id, t.ok)
    [] t.ev = "DoRet"     -> IF t.id \in Ev THEN ODo(o, t.id, t.res) ELSE o
    [] t.ev = "Propagate" -> OPropagate(o, t.id)
    [] t.ev = "Attend"    -> IF t.got < t.want THEN [o EXCEPT !.viol = @ \cup {V("stream_unattended", 0, t.got, "proc", "")}] ELSE o
    [] t.ev = "Corrupt"   -> [o EXCEPT !.viol = @ \cup {V("payload_of_other_event", t.id, t.seen, t.b, "")}]
    [] t.ev = "Spawn"     -> OSpawn(o, t.id, t.kids)
    [] t.ev = "Out"       -> OAdd(o, t.b, t.id)
    [] t.ev = "SendCall"  -> OSendCall(o, t.b, t.seq, t.ids, t.t)
    [] t.ev = "SendBytes" -> OSendBytes(o, t.b, t.first, t.total, t.last, t.limit)
    [] t.ev = "Stale"     -> OStale(o, t.b, t.first, t.waited, t.bound)
    [] t.ev = "Refuse"    -> OInRet(o, t.id, FALSE)
    [] t.ev = "Skipped"   -> [o EXCEPT !.viol = @ \cup {V("deliverable_event_not_sent", t.id, 0, t.b, "")}]
    [] t.ev = "ParentSent" -> [o EXCEPT !.viol = @ \cup {V("parent_sent", t.id, 0, t.b, "")}]
    [] t.ev = "SendRet"   -> OSendRet(o, t.b, t.ids, t.ok, t.t)
    [] t.ev = "GiveUp"    -> OGiveUp(o, t.b, t.ids)
    [] t.ev = "Fail"      -> OFail(o, t.id)
    [] t.ev = "BCommit"   -> OBatchCommit(o, t.b, t.id, t.nosend)
    \* the input is notified under the stream the event was read in (a recycled event object must not keep another line's stream)
    [] t.ev = "Commit"    -> LET o1 == OCommit(o, t.id, t.by)
                             IN IF "stream" \in DOMAIN t /\ t.id \in Ev /\ o.meta[t.id].stream # "" /\ t.stream # o.meta[t.id].stream
                                  THEN [o1 EXCEPT !.viol = @ \cup {V("commit_in_foreign_stream", t.id, 0, t.by, t.stream)}]
                                  ELSE o1
    [] t.ev = "End"       -> IF t.idle THEN (IF "stophung" \in DOMAIN t /\ t.stophung
                                                \* everything was accounted for, yet Stop never returned: an output worker still waits for a commit turn
                                                THEN [OEnd(o, t.inuse, t.waiters) EXCEPT !.viol = @ \cup {V("stop_never_returns", 0, 0, "end", "")}]
                                                ELSE OEnd(o, t.inuse, t.waiters))
                             \* no idle state within the (generous) bound after the last input: a wedge (C04); events still
                             \* held by then are events the pool never got back (C05: in-use returns to zero when the pipeline goes quiet)
                             ELSE [o EXCEPT !.viol = @ \cup {V("not_idle", 0, 0, "end", "")}
                                                       \cup (IF t.inuse > 0 THEN {V("inuse_stuck_after_quiet_period", 0, t.inuse, "pool", "")} ELSE {})]
    [] OTHER              -> o

Init == l = 1 /\ obs = ObsNew(DefaultCfg) /\ run = 0 /\ out = {}

Step ==
  /\ l <= Len(Trace)
  /\ LET t == Trace[l]
         o1 == Apply(obs, t)
         o2 == IF t.ev \in {"Reset", "End"} THEN o1 ELSE OSample(o1, t.iu)
     IN /\ obs' = o2
        /\ run' = t.run
        /\ out' = out \cup {[run |-> t.run, n |-> t.n, v |-> v] : v \in (o2.viol \ obs.viol)}
  /\ l' = l + 1

Spec == Init /\ [][Step]_mvars

Done == l = Len(Trace) + 1
Report == Done => PrintT(ToJson([lines |-> Len(Trace), viol |-> out]))
=============================================================================
