----------------------------- MODULE StreamProto -----------------------------
(* C04 / C02 -- one source's streams and the streamer's lists at mutex granularity (stream.go, streamer.go).

     put(e):        s.mu { enqueue; if the stream was empty { if !isAttached: makeCharged (chargedMu); cond.Signal } }
     joinStream:    chargedMu { wait while charged is empty; pop the LAST }  ...window...  stream.attach: s.mu { isAttached = true }
     instantGet:    s.mu { if empty: leave (isDetaching = true; tryDetach) -> nil ; else get (awaySeq = seq) }
     blockGet:      s.mu { while empty { makeBlocked; cond.Wait; resetBlocked }; get }
     commit(e):     s.mu { commitSeq = max(commitSeq, seq); if isDetaching: tryDetach }
     tryDetach:     if awaySeq = commitSeq { isAttached = isDetaching = false; if non-empty: makeCharged }
     tryUnblock:    s.mu { if blocked long enough and still empty: enqueue a time-out event; cond.Signal }

   A processor takes events of its stream one by one; an event is committed later by somebody else (a batcher
   worker, or the processor itself on discard) -- here: by the Committer.  The processor's action is "busy" (holds a
   run) with probability: after taking an event it nondeterministically continues with instantGet or blockGet.

   Invariants: at most one owner per stream; a non-empty un-owned stream is charged exactly once (or is in the
   pop->attach window); the panics coded in stream.go / streamer.go are unreachable.  Liveness: every event put is
   eventually taken (no stream left unattended, no processor asleep while work is queued).                     *)
EXTENDS Integers, Sequences, FiniteSets, TLC

CONSTANTS Streams, Procs, NEvents,    \* events 1..NEvents; the stream of each is chosen freely
          M_Recharge,                \* tryDetach re-charges a stream that received events while detaching
          M_SignalOnPut,             \* put wakes the blocked owner (cond.Signal)
          M_UnblockOnlyIfEmpty,      \* tryUnblock injects a time-out only into a stream that is still empty
          M_UnblockRechecksBlocked,  \* tryUnblock checks (under the stream lock) that the stream is STILL in the blocked list: the heartbeat works on a copy of it
          M_CommitCheckUnderLock     \* stream.commit tests "older than commitSeq" and stores under ONE hold of the stream lock

VARIABLES q, cur, away, com, att, det,        \* per stream
          charged,                            \* LIFO list of streams
          blocked,                            \* set of streams in the blocked list
          hcopy,                              \* the heartbeat's copy of the blocked list (streams it has not looked at yet)
          nput,                               \* events put so far
          where,                              \* [1..NEvents -> "none" | "queued" | "taken" | "committed"], stream of event in sOf
          sOf, seqOf,
          pc, ps, pe,                         \* processor: pc, stream, event
          panic

vars == <<q, cur, away, com, att, det, charged, blocked, hcopy, nput, where, sOf, seqOf, pc, ps, pe, panic>>
Ev == 1..NEvents
TO == 0     \* the time-out pseudo event

Init == /\ q = [s \in Streams |-> <<>>] /\ cur = [s \in Streams |-> 0] /\ away = [s \in Streams |-> 0] /\ com = [s \in Streams |-> 0]
        /\ att = [s \in Streams |-> FALSE] /\ det = [s \in Streams |-> FALSE]
        /\ charged = <<>> /\ blocked = {} /\ hcopy = {} /\ nput = 0
        /\ where = [e \in Ev |-> "none"] /\ sOf = [e \in Ev |-> CHOOSE s \in Streams : TRUE] /\ seqOf = [e \in Ev |-> 0]
        /\ pc = [p \in Procs |-> "join"] /\ ps = [p \in Procs |-> CHOOSE s \in Streams : TRUE] /\ pe = [p \in Procs |-> -1]
        /\ panic = ""

\* stream.put under s.mu (makeCharged takes chargedMu inside: lock order s.mu -> chargedMu, never the reverse)
Put(s) == /\ nput < NEvents /\ panic = ""
          /\ LET e == nput + 1 IN
               /\ nput' = e /\ sOf' = [sOf EXCEPT ![e] = s] /\ seqOf' = [seqOf EXCEPT ![e] = cur[s] + 1]
               /\ cur' = [cur EXCEPT ![s] = @ + 1]
               /\ q' = [q EXCEPT ![s] = Append(@, e)]
               /\ where' = [where EXCEPT ![e] = "queued"]
               /\ charged' = IF q[s] = <<>> /\ ~att[s] THEN Append(charged, s) ELSE charged
          /\ UNCHANGED <<away, com, att, det, blocked, pc, ps, pe, panic, hcopy>>

\* joinStream: pop the last charged stream (chargedMu), attach later
JoinPop(p) == /\ pc[p] = "join" /\ charged # <<>> /\ panic = ""
              /\ ps' = [ps EXCEPT ![p] = charged[Len(charged)]]
              /\ charged' = SubSeq(charged, 1, Len(charged) - 1)
              /\ pc' = [pc EXCEPT ![p] = "attach"]
              /\ UNCHANGED <<q, cur, away, com, att, det, blocked, nput, where, sOf, seqOf, pe, panic, hcopy>>

Attach(p) == /\ pc[p] = "attach"
             /\ LET s == ps[p] IN
                  IF att[s] THEN panic' = "why attach? processor is already attached" /\ UNCHANGED <<att, pc, hcopy>>
                  ELSE IF det[s] THEN panic' = "why attach? processor is detaching" /\ UNCHANGED <<att, pc, hcopy>>
                  ELSE IF q[s] = <<>> THEN panic' = "why attach? stream is empty" /\ UNCHANGED <<att, pc, hcopy>>
                  ELSE att' = [att EXCEPT ![s] = TRUE] /\ pc' = [pc EXCEPT ![p] = "get"] /\ UNCHANGED panic
             /\ UNCHANGED <<q, cur, away, com, det, charged, blocked, nput, where, sOf, seqOf, ps, pe, hcopy>>

\* tryDetach under s.mu; returns the new <<att, det, charged>> for stream s
Detach(s, A, D, C, nonEmpty) ==
  IF away[s] = com[s] THEN <<[A EXCEPT ![s] = FALSE], [D EXCEPT ![s] = FALSE], IF nonEmpty THEN Append(C, s) ELSE C>>
  ELSE <<A, D, C>>

Take(p, s) ==   \* stream.get: head of the queue
  LET e == Head(q[s]) IN
    /\ q' = [q EXCEPT ![s] = Tail(@)]
    /\ away' = IF e = TO THEN away ELSE [away EXCEPT ![s] = seqOf[e]]
    /\ where' = IF e = TO THEN where ELSE [where EXCEPT ![e] = "taken"]
    /\ pe' = [pe EXCEPT ![p] = e]

InstantGet(p) ==
  /\ pc[p] = "get" /\ panic = ""
  /\ LET s == ps[p] IN
       IF ~att[s] THEN /\ panic' = "why instant get? stream isn't attached" /\ UNCHANGED <<q, away, where, pe, att, det, charged, pc, hcopy>>
       ELSE IF q[s] = <<>>
         THEN \* leave(): isDetaching = true; tryDetach()
              /\ LET r == Detach(s, att, [det EXCEPT ![s] = TRUE], charged, FALSE) IN att' = r[1] /\ det' = r[2] /\ charged' = r[3]
              /\ pc' = [pc EXCEPT ![p] = "join"]
              /\ UNCHANGED <<q, away, where, pe, panic, hcopy>>
         ELSE /\ (IF det[s] THEN panic' = "why get while detaching?" ELSE UNCHANGED panic)
              /\ Take(p, s)
              /\ \E nxt \in {"get", "fin"} : pc' = [pc EXCEPT ![p] = nxt]     \* passed on to the output, or finalized by an action
              /\ UNCHANGED <<att, det, charged, hcopy>>
  /\ UNCHANGED <<cur, com, blocked, nput, sOf, seqOf, ps, hcopy>>

\* blockGet: wait (registered in `blocked`) while the stream is empty
BlockWait(p) == /\ pc[p] = "blockget" /\ q[ps[p]] = <<>> /\ ps[p] \notin blocked /\ panic = ""
                /\ blocked' = blocked \cup {ps[p]}
                /\ UNCHANGED <<q, cur, away, com, att, det, charged, nput, where, sOf, seqOf, pc, ps, pe, panic, hcopy>>
BlockGet(p) == /\ pc[p] = "blockget" /\ q[ps[p]] # <<>> /\ panic = ""
               /\ (M_SignalOnPut \/ ps[p] \notin blocked \/ Head(q[ps[p]]) = TO)   \* without the Signal a sleeping owner wakes only on a time-out
               /\ (IF ~att[ps[p]] THEN panic' = "why wait get? stream isn't attached" ELSE UNCHANGED panic)
               /\ Take(p, ps[p])
               /\ blocked' = blocked \ {ps[p]}
               /\ \E nxt \in {"get", "fin"} : pc' = [pc EXCEPT ![p] = IF Head(q[ps[p]]) = TO THEN "get" ELSE nxt]
               /\ UNCHANGED <<cur, com, att, det, charged, nput, sOf, seqOf, ps, hcopy>>

\* streamer heartbeat: first a copy of the blocked list (under blockedMu) ...
HbCopy == /\ hcopy = {} /\ blocked # {} /\ panic = ""
          /\ hcopy' = blocked
          /\ UNCHANGED <<q, cur, away, com, att, det, charged, blocked, nput, where, sOf, seqOf, pc, ps, pe, panic>>
\* ... then tryUnblock on every stream of the copy, one by one, without any lock in between: the stream may have been served
\* since the copy.  M_UnblockRechecksBlocked (TRUE = the code since the repair 5b62272): a stream that is no longer blocked is left alone.
TryUnblock(s) == /\ s \in hcopy /\ panic = ""
                 /\ hcopy' = hcopy \ {s}
                 /\ IF (M_UnblockRechecksBlocked => s \in blocked) /\ (q[s] = <<>> \/ ~M_UnblockOnlyIfEmpty)
                      THEN /\ (IF away[s] # com[s] THEN panic' = "why events are different?" ELSE UNCHANGED panic)
                           /\ q' = [q EXCEPT ![s] = <<TO>>]          \* first = last = time-out event: whatever was queued is overwritten
                           /\ where' = [e \in Ev |-> IF where[e] = "queued" /\ sOf[e] = s THEN "lost" ELSE where[e]]
                      ELSE UNCHANGED <<q, where, panic>>
                 /\ UNCHANGED <<cur, away, com, att, det, charged, blocked, nput, sOf, seqOf, pc, ps, pe>>

\* somebody finalizes a taken event: stream.commit (monotone max) + tryDetach when detaching
Commit(e) == /\ M_CommitCheckUnderLock
             /\ where[e] = "taken" /\ panic = "" /\ \A p \in Procs : ~(pc[p] = "fin" /\ pe[p] = e)
             /\ LET s == sOf[e] IN
                  /\ com' = [com EXCEPT ![s] = IF seqOf[e] < @ THEN @ ELSE seqOf[e]]
                  /\ IF det[s] /\ away[s] = (IF seqOf[e] < com[s] THEN com[s] ELSE seqOf[e])
                       THEN /\ att' = [att EXCEPT ![s] = FALSE] /\ det' = [det EXCEPT ![s] = FALSE]
                            /\ charged' = IF q[s] # <<>> /\ M_Recharge THEN Append(charged, s) ELSE charged
                       ELSE UNCHANGED <<att, det, charged, hcopy>>
             /\ where' = [where EXCEPT ![e] = "committed"]
             /\ UNCHANGED <<q, cur, away, blocked, nput, sOf, seqOf, pc, ps, pe, panic, hcopy>>

\* the same in two steps (mutant: the stale test is done on the atomic commitSeq BEFORE the lock is taken): another finalization
\* of the stream can store a bigger sequence number in between, which the store then overwrites
CommitCheck(e) == /\ ~M_CommitCheckUnderLock
                  /\ where[e] = "taken" /\ panic = "" /\ \A p \in Procs : ~(pc[p] = "fin" /\ pe[p] = e)
                  /\ where' = [where EXCEPT ![e] = IF seqOf[e] < com[sOf[e]] THEN "committed" ELSE "checked"]
                  /\ UNCHANGED <<q, cur, away, com, att, det, charged, blocked, nput, sOf, seqOf, pc, ps, pe, panic, hcopy>>
CommitStore(e) == /\ where[e] = "checked" /\ panic = ""
                  /\ LET s == sOf[e] IN
                       /\ com' = [com EXCEPT ![s] = seqOf[e]]
                       /\ IF det[s] /\ away[s] = seqOf[e]
                            THEN /\ att' = [att EXCEPT ![s] = FALSE] /\ det' = [det EXCEPT ![s] = FALSE]
                                 /\ charged' = IF q[s] # <<>> /\ M_Recharge THEN Append(charged, s) ELSE charged
                            ELSE UNCHANGED <<att, det, charged, hcopy>>
                  /\ where' = [where EXCEPT ![e] = "committed"]
                  /\ UNCHANGED <<q, cur, away, blocked, nput, sOf, seqOf, pc, ps, pe, panic, hcopy>>

\* an action discards / collapses / holds the event: processor-side finalize (stream.commit), then either the next
\* event of any stream (not busy) or the next event of THIS stream (busy action -> blockGet)
ProcFinalize(p) ==
  /\ pc[p] = "fin" /\ panic = ""
  /\ LET e == pe[p]
         s == ps[p] IN
       /\ com' = [com EXCEPT ![s] = IF seqOf[e] < @ THEN @ ELSE seqOf[e]]
       /\ where' = [where EXCEPT ![e] = "committed"]
  /\ \E nxt \in {"get", "blockget"} : pc' = [pc EXCEPT ![p] = nxt]
  /\ UNCHANGED <<q, cur, away, att, det, charged, blocked, nput, sOf, seqOf, ps, pe, panic, hcopy>>

Next == \/ HbCopy
        \/ \E s \in Streams : Put(s) \/ TryUnblock(s)
        \/ \E p \in Procs : JoinPop(p) \/ Attach(p) \/ InstantGet(p) \/ BlockWait(p) \/ BlockGet(p) \/ ProcFinalize(p)
        \/ \E e \in Ev : Commit(e) \/ CommitCheck(e) \/ CommitStore(e)
Spec == Init /\ [][Next]_vars
FairSpec == Spec /\ \A p \in Procs : WF_vars(JoinPop(p) \/ Attach(p) \/ InstantGet(p) \/ BlockGet(p) \/ ProcFinalize(p))
                 /\ \A e \in Ev : WF_vars(Commit(e) \/ CommitCheck(e) \/ CommitStore(e)) /\ \A s \in Streams : WF_vars(TryUnblock(s)) /\ WF_vars(HbCopy)

-----------------------------------------------------------------------------
NoCodePanic == panic = ""
NoEventLost == \A e \in Ev : where[e] # "lost"
Owners(s) == {p \in Procs : pc[p] \in {"get", "blockget", "fin"} /\ ps[p] = s}
OneOwner == \A s \in Streams : Cardinality(Owners(s)) <= 1
InWindow(s) == \E p \in Procs : pc[p] = "attach" /\ ps[p] = s
Count(s) == Cardinality({i \in 1..Len(charged) : charged[i] = s})
\* a non-empty stream that nobody owns is charged exactly once, or sits in the pop->attach window
ChargedRight == \A s \in Streams :
                  /\ Count(s) <= 1
                  /\ (q[s] # <<>> /\ ~att[s] => Count(s) = 1 \/ InWindow(s))
                  /\ (Count(s) = 1 => ~att[s] /\ q[s] # <<>>)
\* events of a stream are taken in the order they were put
TakenInOrder == \A e, f \in Ev : sOf[e] = sOf[f] /\ seqOf[e] < seqOf[f] /\ where[f] \in {"taken", "checked", "committed"} /\ where[e] # "none"
                                   => where[e] \in {"taken", "checked", "committed"}
\* the commit sequence number of a stream never goes back (action property)
CommitMonotone == [][\A s \in Streams : com'[s] >= com[s]]_vars
\* once every event is finalized and every processor is back in joinStream no stream is owned any more
AllReleased == (\A e \in Ev : where[e] = "committed") /\ (\A p \in Procs : pc[p] = "join") => \A s \in Streams : ~att[s]
\* liveness: every event put is eventually taken, and once everything was put and committed all streams are released
AllTaken == \A e \in Ev : (where[e] = "queued") ~> (where[e] # "queued")
=============================================================================
