\* abstract tables, faithful transcription, value length 3 (one-byte characters only): partial overlaps
SPECIFICATION Spec
CONSTANTS
  MaxLen = 3
  Chars = {1}
  MaxMatches = 2
  NGs = {1, 2}
  MCs = {0, 1}
  D13 = TRUE
  M_AllMatches = TRUE
INVARIANTS TypeOK PanicsExactlyWhenNamed AllMatchesVisited ReturnsAcceptable ExactImpliesWeaker RejectsSurvivor RejectsDamage Export
CHECK_DEADLOCK FALSE
