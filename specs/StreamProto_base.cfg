SPECIFICATION FairSpec
CONSTANTS
  Streams = {"a", "b"}
  Procs = {1, 2}
  NEvents = 3
  M_Recharge = TRUE
  M_SignalOnPut = TRUE
  M_UnblockOnlyIfEmpty = TRUE
INVARIANTS NoEventLost NoCodePanic OneOwner ChargedRight TakenInOrder
PROPERTIES AllTaken
CHECK_DEADLOCK FALSE
