SPECIFICATION FairSpec
CONSTANTS
  Streams = {"a", "b"}
  Procs = {1, 2}
  NEvents = 3
  M_Recharge = TRUE
  M_SignalOnPut = TRUE
  M_UnblockOnlyIfEmpty = TRUE
  M_UnblockRechecksBlocked = TRUE
  M_CommitCheckUnderLock = TRUE
INVARIANTS NoEventLost NoCodePanic OneOwner ChargedRight TakenInOrder AllReleased
PROPERTIES AllTaken CommitMonotone
CHECK_DEADLOCK FALSE
