SPECIFICATION FairSpec
CONSTANTS
  MaxId = 2
  Srcs = {1}
  Strs = {"a"}
  Classes = {"P", "D"}
  NProcs = 2
  Capacity = 2
  NWorkers = 2
  BatchCount = 2
  Retry = 0
  HasDQ = FALSE
  KidsPer = 0
  KidBase = 0
  MaxFails = 0
  M_SeqCommit = TRUE
  M_NoNotifyOnDiscard = TRUE
  M_DetachWhenCommitted = TRUE
  M_RetryHolds = TRUE
  M_DQEmptiesBatch = TRUE
  M_CommitMax = TRUE
  M_BusyTakesAll = TRUE
  M_SpawnFlushesBusy = TRUE
  M_DiscardResetsBusy = TRUE
  M_RefusedBackOnce = TRUE
  M_TimerFlushesAny = TRUE
INVARIANTS TypeOK NoCodePanic
PROPERTIES EventuallyQuiescent
CHECK_DEADLOCK FALSE
