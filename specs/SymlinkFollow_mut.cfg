SPECIFICATION Spec
CONSTANTS
  MaxInode = 4
  M_LinksReresolved = FALSE
INVARIANTS FollowsTheLink
CHECK_DEADLOCK FALSE
