------------------------------ MODULE EsSplit ------------------------------
(* C09 at plugin level -- how the elasticsearch output classifies the failure of a send.

   Transcription of Plugin.out / send / sendSplit (plugin/output/elasticsearch/elasticsearch.go:365-473)
   against a scripted backend, ONE call of out() for a batch of n events (each one unit):
     out():        split_batch ? sendSplit(0, n) : send(whole);  then the classification
                     err == nil                 -> return nil               (batcher commits)
                     status 400 or 413          -> "non-retryable": log, return nil   (documented drop, batcher commits)
                     anything else              -> return err               (RetriableBatcher retries / gives up)
     sendSplit(l, r): l == r -> ok;  POST events l+1..r;
                     ok -> ok;  413 and r-l == 1 -> (413, err);  413 -> first half, on error return ITS
                     (status, err), else tail call for the second half;  any other failure -> (status, err).
   The backend's answer to every request is chosen nondeterministically from Answers, so TLC enumerates every
   script; the requests with their answers are the history `reqs`, which is also the exported case.

   Mechanism switch for the spec mutant (TRUE = as in the code):
     M_StatusOfFailingRequest   `statusCode, err = p.sendSplit(left, middle, ...)`: the status returned with an
                     error of the first half is the status of the request that failed.  FALSE = the error is
                     returned with the stale status of the enclosing request (413), so out() takes a retryable
                     failure for a non-retryable one and the batch is committed without any retry.

     M_DeadQueueOnlyOnGiveUp   out() itself hands NOTHING to the dead queue: the only caller of Router.Fail is the
                     onError callback of the RetriableBatcher (elasticsearch.go Start), which runs when the retries of a
                     batch reported as an error are used up, and the batcher then takes the events out of the batch so
                     that the main batcher does not commit them.  FALSE = "a non-retryable status also feeds the dead
                     queue": in the 400/413 branch out() calls p.router.Fail for every event of the batch (when a dead
                     queue is available) and still returns nil, so the batch it reported as a success is committed by
                     the main batcher AND handed to -- and committed by -- the dead queue: it goes two ways.
                     (`dqFed` = the events given to Router.Fail by out() itself, `mainCommits` = the events the
                     RetriableBatcher leaves in the batch for the main batcher's commit after this call: all of them
                     on nil, none yet on an error.  Modelled with a dead queue available; without one Router.Fail
                     does nothing.  The hand-over at the give-up is GiveUpHandover.tla / Pipeline.tla.)

   Known deviation carried over from C19 (D14): a single event answered 413 aborts the recursion, the events to
   its right are never sent and the batch is still committed.  For C09 that is the documented non-retryable drop
   (no retry is owed); the lost coverage is C19's known finding, not judged here.                              *)
EXTENDS Integers, Sequences, FiniteSets, TLC, Json

CONSTANTS MaxN,            \* batches of 1..MaxN events
          Answers,         \* subset of {"ok", "too_large", "bad_request", "unavailable", "transport"}
          SplitModes,      \* values of split_batch
          M_StatusOfFailingRequest,
          M_DeadQueueOnlyOnGiveUp

VARIABLES n, split,        \* the configuration of the case
          pc,              \* start | send | split | ret | outret | done
          stack,           \* sendSplit call stack <<[l, r, st, code]>>; code = the frame's local statusCode
          rv,              \* (statusCode, err) being returned
          reqs,            \* history: <<[l, r, ans]>> -- the script as it unfolded
          accepted,        \* events covered by an ok answer
          result,          \* what out() returned: "none" | "nil_ok" | "nil_dropped" | "err"
          dqFed,           \* events handed to the dead queue (Router.Fail) from inside out()
          mainCommits      \* events left in the batch for the main batcher's commit when out() has returned

vars == <<n, split, pc, stack, rv, reqs, accepted, result, dqFed, mainCommits>>

Retryable == {"unavailable", "transport"}
Status(a) == CASE a = "ok" -> 200 [] a = "too_large" -> 413 [] a = "bad_request" -> 400
               [] a = "unavailable" -> 503 [] a = "transport" -> 0

Init ==
  /\ n \in 1..MaxN /\ split \in SplitModes
  /\ pc = "start" /\ stack = <<>> /\ rv = [st |-> 200, err |-> FALSE]
  /\ reqs = <<>> /\ accepted = {} /\ result = "none"
  /\ dqFed = {} /\ mainCommits = {}

Start ==
  /\ pc = "start"
  /\ IF split THEN stack' = <<[l |-> 0, r |-> n, st |-> "call", code |-> 0]>> /\ pc' = "split"
              ELSE stack' = <<>> /\ pc' = "send"
  /\ UNCHANGED <<n, split, rv, reqs, accepted, result, dqFed, mainCommits>>

(* send(data.outBuf): one request for the whole batch *)
Send ==
  /\ pc = "send"
  /\ \E a \in Answers :
       /\ reqs' = Append(reqs, [l |-> 0, r |-> n, ans |-> a])
       /\ accepted' = IF a = "ok" THEN 1..n ELSE accepted
       /\ rv' = [st |-> Status(a), err |-> a # "ok"]
  /\ pc' = "outret"
  /\ UNCHANGED <<n, split, stack, result, dqFed, mainCommits>>

Top == stack[Len(stack)]
Pop == SubSeq(stack, 1, Len(stack) - 1)

(* entry of sendSplit(left, right) up to its first recursive call / return *)
SplitCall ==
  /\ pc = "split" /\ Top.st = "call"
  /\ LET l == Top.l  r == Top.r IN
     IF l = r
       THEN rv' = [st |-> 200, err |-> FALSE] /\ stack' = Pop /\ pc' = "ret" /\ UNCHANGED <<reqs, accepted>>
       ELSE \E a \in Answers :
              /\ reqs' = Append(reqs, [l |-> l, r |-> r, ans |-> a])
              /\ accepted' = IF a = "ok" THEN accepted \cup ((l + 1)..r) ELSE accepted
              /\ IF a = "ok"
                   THEN rv' = [st |-> 200, err |-> FALSE] /\ stack' = Pop /\ pc' = "ret"
                 ELSE IF a = "too_large" /\ r - l > 1
                   THEN \* statusCode (413) stays in the frame; statusCode, err = p.sendSplit(left, middle, ...)
                        /\ stack' = Append(Append(Pop, [l |-> l, r |-> r, st |-> "afterLeft", code |-> 413]),
                                           [l |-> l, r |-> (l + r) \div 2, st |-> "call", code |-> 0])
                        /\ rv' = rv /\ pc' = "split"
                   ELSE \* a single event that is too large, 400, 5xx, transport error: return statusCode, err
                        rv' = [st |-> Status(a), err |-> TRUE] /\ stack' = Pop /\ pc' = "ret"
  /\ UNCHANGED <<n, split, result, dqFed, mainCommits>>

(* a sendSplit call returned rv to its caller *)
SplitRet ==
  /\ pc = "ret"
  /\ IF stack = <<>> THEN pc' = "outret" /\ UNCHANGED <<stack, rv>>
     ELSE IF rv.err
       THEN \* if err != nil { return statusCode, err }
            /\ rv' = [st |-> IF M_StatusOfFailingRequest THEN rv.st ELSE Top.code, err |-> TRUE]
            /\ stack' = Pop /\ pc' = "ret"
       ELSE \* return p.sendSplit(middle, right, ...)
            /\ stack' = Append(Pop, [l |-> (Top.l + Top.r) \div 2, r |-> Top.r, st |-> "call", code |-> 0])
            /\ pc' = "split" /\ rv' = rv
  /\ UNCHANGED <<n, split, reqs, accepted, result, dqFed, mainCommits>>

(* the classification at the end of out() *)
OutReturn ==
  /\ pc = "outret"
  /\ result' = IF ~rv.err THEN "nil_ok" ELSE IF rv.st \in {400, 413} THEN "nil_dropped" ELSE "err"
  \* the 400/413 branch: log and return nil -- nothing else (the mutant: batch.ForEach(p.router.Fail) first)
  /\ dqFed' = IF ~M_DeadQueueOnlyOnGiveUp /\ rv.err /\ rv.st \in {400, 413} THEN 1..n ELSE {}
  \* RetriableBatcher.Out: err == nil -> return, the batch keeps its events and the main batcher commits them;
  \* err != nil -> retried / given up, nothing is committed on account of THIS call
  /\ mainCommits' = IF result' = "err" THEN {} ELSE 1..n
  /\ pc' = "done"
  /\ UNCHANGED <<n, split, stack, rv, reqs, accepted>>

Next == Start \/ Send \/ SplitCall \/ SplitRet \/ OutReturn
Spec == Init /\ [][Next]_vars

-----------------------------------------------------------------------------
TypeOK == /\ pc \in {"start", "send", "split", "ret", "outret", "done"}
          /\ result \in {"none", "nil_ok", "nil_dropped", "err"}
          /\ accepted \subseteq 1..n

Last          == reqs[Len(reqs)]
AnyRetryable  == \E i \in DOMAIN reqs : reqs[i].ans \in Retryable
FullyAccepted == accepted = 1..n
\* the backend refused for good: 400, or 413 for a request that cannot be made smaller
RefusedForGood == \/ Last.ans = "bad_request"
                  \/ Last.ans = "too_large" /\ (~split \/ Last.r - Last.l = 1)

\* (a) out() reports success (the batcher commits) only if everything was accepted or the backend refused for good
NilOnlyIfAcceptedOrRefused ==
  pc = "done" => /\ result = "nil_ok" => FullyAccepted
                 /\ result = "nil_dropped" => RefusedForGood /\ ~AnyRetryable

\* (b) a retryable answer with the batch not fully accepted is reported as an error (so that it is retried)
RetryableIsReported ==
  pc = "done" => ((AnyRetryable /\ ~FullyAccepted) => result = "err")

\* (c) the ok requests cover adjacent ranges from the left, nothing accepted is sent again within the attempt,
\*     and every request lies inside the batch
RangesInOrder ==
  /\ \A i \in DOMAIN reqs : 0 <= reqs[i].l /\ reqs[i].l < reqs[i].r /\ reqs[i].r <= n
  /\ \A i \in DOMAIN reqs, j \in DOMAIN reqs : (i < j /\ reqs[i].ans = "ok") => reqs[j].l >= reqs[i].r
  /\ LET oks == SelectSeq(reqs, LAMBDA q : q.ans = "ok") IN
       \A i \in DOMAIN oks : oks[i].l = (IF i = 1 THEN 0 ELSE oks[i - 1].r)

\* a failure ends the attempt: nothing is requested after a 400 / retryable answer or a final 413
FailureEndsAttempt ==
  \A i \in DOMAIN reqs : (i < Len(reqs)) =>
     \/ reqs[i].ans = "ok"
     \/ reqs[i].ans = "too_large" /\ split /\ reqs[i].r - reqs[i].l > 1

\* (d) a batch goes one way: a call of out() that reports success (accepted, or the deliberate 400/413 drop) hands
\*     nothing to the dead queue and leaves every event to the main batcher's single commit; a call that reports
\*     an error hands nothing over either -- the dead queue is fed by the give-up alone, after the retries
DeadQueueOnlyOnGiveUp ==
  /\ dqFed \cap mainCommits = {}
  /\ pc = "done" => /\ dqFed = {}
                    /\ result # "err" => mainCommits = 1..n
                    /\ result = "err" => mainCommits = {}

-----------------------------------------------------------------------------
ExportRec == [n |-> n, split |-> split,
              script |-> [i \in DOMAIN reqs |-> [ids |-> [x \in 1..(reqs[i].r - reqs[i].l) |-> reqs[i].l + x],
                                                  ans |-> reqs[i].ans]],
              result |-> result,
              accepted |-> accepted]
Export == pc = "done" => PrintT(ToJson(ExportRec))

=============================================================================
