SPECIFICATION Spec
CONSTANTS
  MaxPipelines = 3
  DqConfigs = {"a", "b"}
  M_DeadQueueOnCopy = TRUE
  M_LenCheckedBeforeTypeRemoved = TRUE
  D_DqConfigOnRegistryEntry = FALSE
INVARIANTS DeadQueueIffDeclared DeadQueueIsOwnModuloDeviation Export
CHECK_DEADLOCK FALSE
