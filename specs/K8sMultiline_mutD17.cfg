\* spec mutant = the behaviour before fix e8faead: skipNextEvent survives a time-out. TLC must reject it (ResidualOK).
SPECIFICATION Spec
CONSTANTS
  MaxLen = 3
  Ls = {0, 6}
  SPs = {0}
  MaxExotic = 0
  D12_EmptyLogPanics = FALSE
  D16_TimeoutDropsPartials = TRUE
  D17_SkipSurvivesTimeout = TRUE
  D20_BackslashNIsEnd = TRUE
INVARIANTS TypeOK ResidualOK
CHECK_DEADLOCK FALSE
