\* spec mutant: value_shift enters the ts_cmp threshold twice (now + 2*value_shift + update_interval).
\* TLC MUST reject it (ImplRefinesDecl) on part N: ts_cmp against `now` with shifts of hours.
SPECIFICATION Spec
CONSTANTS
  Chars = {1, 2, 3}
  MaxVal = 2
  MaxVal2 = 1
  MaxData = 3
  PoolN = 4
  Depth3 = FALSE
  M_ShiftOnce = FALSE
  M_LenOfValue = TRUE
  M_ContainsAnyRunes = TRUE
  UChars = {1, 40, 41}
  UMaxData = 1
  PartsOn = {"N"}
  D_FoldWidth = TRUE
  D_ContainerNul = TRUE
  D_EmptyContainerLen = TRUE
INVARIANTS TypeOK ImplRefinesDecl
CHECK_DEADLOCK FALSE
