SPECIFICATION Spec
CONSTANTS
  Batches = 2
  MaxFrames = 2
  MaxFailures = 2
  M_ReconnectAfterFailedWrite = TRUE
INVARIANTS StreamIsPrefixOfWholeFrames AckedBatchIsWhole NoFrameTwiceOnOneConnection
CHECK_DEADLOCK FALSE
