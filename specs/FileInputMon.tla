----------------------------- MODULE FileInputMon -----------------------------
(* Trace validation for C03: the two-run histories recorded from the REAL file input (child process killed with
   SIGKILL and restarted, see harness zz_verif_c03_test.go) are judged by the property of FileInput.tla:
     line_lost     : a complete line of a watched file was delivered in neither run           (AtLeastOnce)
     child_died    : file.d exited / panicked on its own after the restart or after a truncation
   For a lost line the record says whether D3's enabling condition held at the kill: some stream that had already
   appeared in the file had no saved offset in the offsets file.                                              *)
EXTENDS Integers, Sequences, FiniteSets, TLC, Json
CONSTANT TraceFile
Trace == ndJsonDeserialize(TraceFile)
VARIABLES l, out
Init == l = 1 /\ out = {}
SeqToSet(s) == {s[i] : i \in 1..Len(s)}
Judge(t) ==
  LET unsaved == SeqToSet(t.seen) \ SeqToSet(t.saved)
      \* D3 loses lines that lie BEFORE the point where the restarted reader starts (the smallest saved offset).  A lost line known to
      \* end beyond that point was read again after the restart and still not delivered: another matter.
      beyond == IF "beyond" \in DOMAIN t THEN SeqToSet(t.beyond) ELSE {}
      v1 == {[kind |-> "line_lost", id |-> x, info |-> IF t.killed /\ unsaved # {} /\ x \notin beyond THEN "unsaved_stream_at_kill"
                                                       ELSE IF x \in beyond THEN "read_again_after_restart" ELSE "all_seen_streams_saved",
              truncate |-> t.truncate] : x \in SeqToSet(t.lost)}
      v2 == IF t.died THEN {[kind |-> "child_died", id |-> 0, info |-> t.exit, truncate |-> t.truncate]} ELSE {}
  IN v1 \cup v2
Step == /\ l <= Len(Trace)
        /\ out' = out \cup {[run |-> Trace[l].run, v |-> v] : v \in Judge(Trace[l])}
        /\ l' = l + 1
Spec == Init /\ [][Step]_<<l, out>>
Report == (l = Len(Trace) + 1) => PrintT(ToJson([lines |-> Len(Trace), viol |-> out]))
=============================================================================
