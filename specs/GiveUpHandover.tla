--------------------------- MODULE GiveUpHandover ---------------------------
(* C09 -- what the dead queue receives when a batch is given up, at the granularity of the batch OBJECT.

   RetriableBatcher.Out, retries exhausted:   onError(err, batch.events)        -- the plugin's callback gets the batch's own array
                                              if dead queue: batch.reset()       -- so that the main batcher commits nothing
                                              return  -> commitBatch -> the object goes back to freeBatches
   An output's onError walks the array and calls router.Fail(e) for each event.  Fail blocks while the dead queue has no
   free batch.  There are as many batch objects as workers, so with one worker the next batch is collected in the very object
   that was just given up.

     M_HandoverBeforeRelease   the walk over the array ends before the callback returns (the code).  The mutant walks it in
                               the background: the object is reset, committed and refilled meanwhile, and the walker
                               hands over whatever the array holds by then                              (DeadQueueGetsTheBatch)  *)
EXTENDS Integers, Sequences, FiniteSets, TLC

CONSTANTS N1, N2, M_HandoverBeforeRelease      \* sizes of the batch that is given up and of the next one

First == 1..N1
Second == (N1 + 1)..(N1 + N2)

VARIABLES arr,      \* the batch object's array: a sequence of event ids (slots keep their content after reset, as in Go)
          len,      \* its logical length
          wpos,     \* walker: next index to hand over ; 0 = not started ; N1+1 = done
          wpc,      \* worker: "giveup" | "walking" | "released"
          added,    \* events of the second batch added so far
          dq, committed

vars == <<arr, len, wpos, wpc, added, dq, committed>>

Init == /\ arr = [i \in 1..N1 |-> i] /\ len = N1 /\ wpos = 0 /\ wpc = "giveup" /\ added = 0 /\ dq = <<>> /\ committed = {}

\* the callback starts the walk
StartWalk == /\ wpc = "giveup" /\ wpos' = 1
             /\ wpc' = IF M_HandoverBeforeRelease THEN "walking" ELSE "released"    \* mutant: the callback returns at once
             /\ len' = IF M_HandoverBeforeRelease THEN len ELSE 0                   \*         batch.reset(); commit of nothing; object free
             /\ UNCHANGED <<arr, added, dq, committed>>
\* one Fail(e): the dead queue accepts the event the array holds at that index NOW (the walker's slice header keeps length N1)
Hand == /\ wpos \in 1..N1
        /\ dq' = Append(dq, arr[wpos]) /\ wpos' = wpos + 1
        /\ UNCHANGED <<arr, len, wpc, added, committed>>
\* the code: the callback returns when the walk is over; then reset, commit of nothing, object free
EndWalk == /\ wpc = "walking" /\ wpos = N1 + 1 /\ wpc' = "released" /\ len' = 0
           /\ UNCHANGED <<arr, wpos, added, dq, committed>>
\* the next batch is collected in the free object (append overwrites the slots from the front)
Add == /\ wpc = "released" /\ added < N2
       /\ arr' = [arr EXCEPT ![len + 1] = N1 + added + 1] /\ len' = len + 1 /\ added' = added + 1
       /\ UNCHANGED <<wpos, wpc, dq, committed>>
\* ... sent and committed
CommitSecond == /\ added = N2 /\ committed = {} /\ committed' = Second
                /\ UNCHANGED <<arr, len, wpos, wpc, added, dq>>

Next == StartWalk \/ Hand \/ EndWalk \/ Add \/ CommitSecond
Spec == Init /\ [][Next]_vars

SeqToSet(s) == {s[i] : i \in 1..Len(s)}
\* the dead queue receives the events of the batch that was given up, each once, and nothing else
DeadQueueGetsTheBatch == /\ SeqToSet(dq) \subseteq First
                         /\ (wpos = N1 + 1 => dq = [i \in 1..N1 |-> i])
=============================================================================
