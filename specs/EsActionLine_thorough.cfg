SPECIFICATION Spec
CONSTANTS
  MaxBatch = 4
  M_ActionLinePerEvent = TRUE
INVARIANTS RoutingOwn Export
CHECK_DEADLOCK FALSE
