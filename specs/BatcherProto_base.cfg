SPECIFICATION FairSpec
CONSTANTS
  Adders = {"a1", "a2"}
  PerAdder = 2
  Workers = 2
  BatchCount = 2
  Sizes = {1}
  BatchBytes = 0
  SendUnderLock = TRUE
  M_HeartbeatOneSection = TRUE
  M_StopLeavesPartial = TRUE
  WithStop = FALSE
INVARIANTS StopSafe SizeBound CommitOnlySent CommitOnce CommitInSeqOrder HandOverOnce Staleness
PROPERTIES AllCommitted
CHECK_DEADLOCK FALSE
