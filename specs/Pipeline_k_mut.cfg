SPECIFICATION Spec
CONSTANTS
  MaxId = 3
  Srcs = {1}
  Strs = {"a"}
  Classes = {"P", "U"}
  NProcs = 2
  Capacity = 4
  NWorkers = 2
  BatchCount = 1
  Retry = 0
  HasDQ = FALSE
  KidsPer = 0
  KidBase = 0
  MaxFails = 0
  M_SeqCommit = TRUE
  M_NoNotifyOnDiscard = TRUE
  M_DetachWhenCommitted = TRUE
  M_RetryHolds = TRUE
  M_DQEmptiesBatch = TRUE
  M_CommitMax = TRUE
  M_BusyTakesAll = TRUE
  M_SpawnFlushesBusy = TRUE
  M_DiscardResetsBusy = FALSE
  M_RefusedBackOnce = TRUE
  M_TimerFlushesAny = TRUE
VIEW view
INVARIANTS C01 C02 C05 C08 C09 AtQuiescence
PROPERTIES TimeoutEndsTheWait
CHECK_DEADLOCK FALSE
