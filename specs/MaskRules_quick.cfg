\* the mechanism as coded: evaluations share no state
SPECIFICATION Spec
CONSTANTS
  Procs = {1, 2, 3}
  M_MatchStateless = TRUE
INVARIANTS TypeOK DecisionIsFunctionOfValue
CHECK_DEADLOCK FALSE
