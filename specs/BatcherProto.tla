---------------------------- MODULE BatcherProto ----------------------------
(* C08 -- pipeline.Batcher (batch.go) at the granularity of its mutex, its two channels and its workers.

     Add(e):     mu.Lock; if shouldStop {Unlock; return}; getBatch (takes a free batch WHILE holding mu);
                 append; trySendBatchAndUnlock
     heartbeat:  every 100 ms: mu.Lock; if shouldStop {...return}; getBatch; trySendBatchAndUnlock
     trySendBatchAndUnlock: if not ready {Unlock; return}; seq := outSeq++; batch = nil;
                            [SendUnderLock: fullBatches <- batch; Unlock]   or   [Unlock; fullBatches <- batch]
     work():     for batch := range fullBatches { if hasIterable { OutFn }; commitBatch }
     commitBatch: seqMu.Lock; wait commitSeq = seq; commitSeq++; Commit each event; freeBatches <- batch; Broadcast; Unlock
     Stop():     mu.Lock; if !shouldStop { shouldStop = true; close(fullBatches) }; Unlock; wait workers

   There are exactly Workers batch objects and both channels have capacity Workers, so a channel send never
   blocks -- but a send on the CLOSED fullBatches channel panics.  SendUnderLock = TRUE is the code since the repair
   08b19bf; FALSE is the order of the pinned commit (defect D9): Stop could close the channel in the gap between
   mu.Unlock and the send.  The FALSE configuration is kept as a spec mutant that must reach the panic state.  *)
EXTENDS Integers, Sequences, FiniteSets, TLC

CONSTANTS Adders,          \* adder goroutines (each adds its events one by one)
          PerAdder,        \* events per adder
          Workers, BatchCount,
          Sizes,           \* event sizes; BatchBytes = 0 disables the byte limit
          BatchBytes,
          SendUnderLock,
          WithStop         \* include a Stop() call

Ev == Adders \X (1..PerAdder)
W == 1..Workers
Threads == Adders \cup {"hb"}

VARIABLES mu,          \* holder of b.mu ("none", an adder, "hb", "stop")
          shouldStop, closed,
          cur,         \* open batch: sequence of events ; hasCur
          hasCur, free, full, outSeq, commitSeq, seqLock,
          apc, anext, pend,   \* adder / heartbeat program counters, next event index, sealed batch in hand
          wpc, wbatch,        \* worker state
          spc,                \* Stop(): "idle" | "wait" | "done"
          size,               \* [Ev -> Sizes] chosen at Init
          age,                \* heartbeat ticks since the open batch got its first event (abstract time)
          sent, committed, panicked

vars == <<mu, shouldStop, closed, cur, hasCur, free, full, outSeq, commitSeq, seqLock, apc, anext, pend, wpc, wbatch, spc,
          size, age, sent, committed, panicked>>

NoBatch == [ids |-> <<>>, seq |-> -1]

Init == /\ mu = "none" /\ shouldStop = FALSE /\ closed = FALSE
        /\ cur = <<>> /\ hasCur = FALSE /\ free = Workers /\ full = <<>> /\ outSeq = 0 /\ commitSeq = 0 /\ seqLock = 0
        /\ apc = [t \in Threads |-> "idle"] /\ anext = [a \in Adders |-> 1] /\ pend = [t \in Threads |-> NoBatch]
        /\ wpc = [k \in W |-> "recv"] /\ wbatch = [k \in W |-> NoBatch]
        /\ spc = IF WithStop THEN "idle" ELSE "done"
        /\ size \in [Ev -> Sizes]
        /\ age = 0 /\ sent = <<>> /\ committed = <<>> /\ panicked = FALSE

Bytes(b) == LET RECURSIVE Sum(_) Sum(s) == IF s = <<>> THEN 0 ELSE size[Head(s)] + Sum(Tail(s)) IN Sum(b)
Ready(b, timeout) == b # <<>> /\ ((BatchCount # 0 /\ Len(b) >= BatchCount) \/ (BatchBytes # 0 /\ Bytes(b) >= BatchBytes) \/ timeout)

\* ---- Add / heartbeat, thread t
LockMu(t) == /\ apc[t] = "idle" /\ mu = "none" /\ ~panicked
             /\ (t \in Adders => anext[t] <= PerAdder)
             /\ (t = "hb" => (hasCur /\ cur # <<>>) \/ shouldStop)      \* a tick over an empty batcher changes nothing: left out (keeps liveness checkable under WF)
             /\ mu' = t /\ apc' = [apc EXCEPT ![t] = "locked"]
             /\ UNCHANGED <<shouldStop, closed, cur, hasCur, free, full, outSeq, commitSeq, seqLock, anext, pend, wpc, wbatch, spc, size, age, sent, committed, panicked>>

\* under mu: shouldStop check, getBatch (blocks on free = 0 while holding mu), append, updateStatus, seal
Critical(t) ==
  /\ apc[t] = "locked"
  /\ IF shouldStop
       THEN /\ mu' = "none" /\ apc' = [apc EXCEPT ![t] = IF t = "hb" THEN "done" ELSE "idle"]
            /\ anext' = IF t \in Adders THEN [anext EXCEPT ![t] = @ + 1] ELSE anext     \* Add returns silently: the event is dropped
            /\ UNCHANGED <<cur, hasCur, free, full, outSeq, pend, age>>
       ELSE /\ (hasCur \/ free > 0)
            /\ LET c0 == IF hasCur THEN cur ELSE <<>>
                   c1 == IF t \in Adders THEN Append(c0, <<t, anext[t]>>) ELSE c0
                   timeout == (t = "hb" /\ age >= 1)
               IN IF Ready(c1, timeout)
                    THEN /\ pend' = [pend EXCEPT ![t] = [ids |-> c1, seq |-> outSeq]]
                         /\ outSeq' = outSeq + 1 /\ cur' = <<>> /\ hasCur' = FALSE /\ age' = 0
                         /\ free' = IF hasCur THEN free ELSE free - 1
                         /\ IF SendUnderLock
                              THEN /\ full' = Append(full, [ids |-> c1, seq |-> outSeq]) /\ mu' = "none"
                                   /\ apc' = [apc EXCEPT ![t] = "idle"]
                              ELSE /\ mu' = "none" /\ apc' = [apc EXCEPT ![t] = "gap"] /\ UNCHANGED full
                    ELSE /\ cur' = c1 /\ hasCur' = TRUE /\ free' = IF hasCur THEN free ELSE free - 1
                         /\ age' = IF t = "hb" /\ c1 # <<>> THEN age + 1 ELSE age
                         /\ mu' = "none" /\ apc' = [apc EXCEPT ![t] = "idle"]
                         /\ UNCHANGED <<full, outSeq, pend>>
            /\ anext' = IF t \in Adders THEN [anext EXCEPT ![t] = @ + 1] ELSE anext
  /\ UNCHANGED <<shouldStop, closed, commitSeq, seqLock, wpc, wbatch, spc, size, sent, committed, panicked>>

\* the pinned code: the channel send happens after mu.Unlock
GapSend(t) == /\ apc[t] = "gap"
              /\ IF closed THEN /\ panicked' = TRUE /\ UNCHANGED full                   \* send on closed channel
                           ELSE /\ full' = Append(full, pend[t]) /\ UNCHANGED panicked
              /\ apc' = [apc EXCEPT ![t] = "idle"]
              /\ UNCHANGED <<mu, shouldStop, closed, cur, hasCur, free, outSeq, commitSeq, seqLock, anext, pend, wpc, wbatch, spc, size, age, sent, committed>>

\* ---- workers
Recv(k) == /\ wpc[k] = "recv" /\ ~panicked
           /\ IF full # <<>>
                THEN /\ wbatch' = [wbatch EXCEPT ![k] = Head(full)] /\ full' = Tail(full) /\ wpc' = [wpc EXCEPT ![k] = "send"]
                ELSE /\ closed /\ wpc' = [wpc EXCEPT ![k] = "exit"] /\ UNCHANGED <<wbatch, full>>
           /\ UNCHANGED <<mu, shouldStop, closed, cur, hasCur, free, outSeq, commitSeq, seqLock, apc, anext, pend, spc, size, age, sent, committed, panicked>>
Send(k) == /\ wpc[k] = "send"
           /\ sent' = Append(sent, wbatch[k]) /\ wpc' = [wpc EXCEPT ![k] = "turn"]
           /\ UNCHANGED <<mu, shouldStop, closed, cur, hasCur, free, full, outSeq, commitSeq, seqLock, apc, anext, pend, wbatch, spc, size, age, committed, panicked>>
Turn(k) == /\ wpc[k] = "turn" /\ seqLock = 0 /\ commitSeq = wbatch[k].seq
           /\ seqLock' = k /\ commitSeq' = commitSeq + 1
           /\ committed' = committed \o wbatch[k].ids
           /\ wpc' = [wpc EXCEPT ![k] = "release"]
           /\ UNCHANGED <<mu, shouldStop, closed, cur, hasCur, free, full, outSeq, apc, anext, pend, wbatch, spc, size, age, sent, panicked>>
Release(k) == /\ wpc[k] = "release"
              /\ free' = free + 1 /\ seqLock' = 0 /\ wpc' = [wpc EXCEPT ![k] = "recv"] /\ wbatch' = [wbatch EXCEPT ![k] = NoBatch]
              /\ UNCHANGED <<mu, shouldStop, closed, cur, hasCur, full, outSeq, commitSeq, apc, anext, pend, spc, size, age, sent, committed, panicked>>

\* ---- Stop
StopLock == /\ spc = "idle" /\ mu = "none" /\ ~panicked
            /\ shouldStop' = TRUE /\ closed' = TRUE /\ spc' = "wait"
            /\ UNCHANGED <<mu, cur, hasCur, free, full, outSeq, commitSeq, seqLock, apc, anext, pend, wpc, wbatch, size, age, sent, committed, panicked>>
StopWait == /\ spc = "wait" /\ \A k \in W : wpc[k] = "exit"
            /\ spc' = "done"
            /\ UNCHANGED <<mu, shouldStop, closed, cur, hasCur, free, full, outSeq, commitSeq, seqLock, apc, anext, pend, wpc, wbatch, size, age, sent, committed, panicked>>

Next == \/ \E t \in Threads : LockMu(t) \/ Critical(t) \/ GapSend(t)
        \/ \E k \in W : Recv(k) \/ Send(k) \/ Turn(k) \/ Release(k)
        \/ StopLock \/ StopWait
Spec == Init /\ [][Next]_vars
FairSpec == Spec /\ \A t \in Threads : WF_vars(LockMu(t) \/ Critical(t) \/ GapSend(t))
                 /\ \A k \in W : WF_vars(Recv(k) \/ Send(k) \/ Turn(k) \/ Release(k)) /\ WF_vars(StopLock \/ StopWait)

-----------------------------------------------------------------------------
SeqToSet(s) == {s[i] : i \in 1..Len(s)}
SentIds == UNION {SeqToSet(sent[i].ids) : i \in 1..Len(sent)}
\* C08 clauses
StopSafe == ~panicked
SizeBound == \A i \in 1..Len(sent) : LET b == sent[i].ids IN
               /\ (BatchCount # 0 => Len(b) <= BatchCount)
               /\ (BatchBytes # 0 => Bytes(b) - size[b[Len(b)]] < BatchBytes)
CommitOnlySent == SeqToSet(committed) \subseteq SentIds
CommitOnce == \A i, j \in 1..Len(committed) : i # j => committed[i] # committed[j]
\* batches are committed in the order they were formed (= sequence numbers), each after its own send
CommitInSeqOrder ==
  LET seqOfEv(e) == (CHOOSE i \in 1..Len(sent) : e \in SeqToSet(sent[i].ids))
  IN \A i, j \in 1..Len(committed) : i < j => sent[seqOfEv(committed[i])].seq <= sent[seqOfEv(committed[j])].seq
\* bounded staleness: an open non-empty batch does not survive two heartbeat ticks
Staleness == age <= 1
\* without Stop every added event is committed exactly once (liveness) ; with Stop: everything sealed before the close is committed
AllCommitted == <>(\A a \in Adders : \A i \in 1..PerAdder : <<a, i>> \in SeqToSet(committed))
StopTerminates == <>(spc = "done")
=============================================================================
