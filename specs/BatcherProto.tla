---------------------------- MODULE BatcherProto ----------------------------
(* C08 -- pipeline.Batcher (batch.go) at the granularity of its mutex, its two channels and its workers.

     Add(e):     mu.Lock; if shouldStop {Unlock; return}; getBatch (takes a free batch WHILE holding mu);
                 append; trySendBatchAndUnlock
     heartbeat:  every 100 ms: mu.Lock; if shouldStop {...return}; getBatch; trySendBatchAndUnlock
     trySendBatchAndUnlock: if not ready {Unlock; return}; seq := outSeq++; batch = nil;
                            [SendUnderLock: fullBatches <- batch; Unlock]   or   [Unlock; fullBatches <- batch]
     work():     for batch := range fullBatches { if hasIterable { OutFn }; commitBatch }
     commitBatch: seqMu.Lock; wait commitSeq = seq; commitSeq++; Commit each event; freeBatches <- batch; Broadcast; Unlock
     Stop():     mu.Lock; if !shouldStop { shouldStop = true; close(fullBatches) }; Unlock; wait workers

   There are exactly Workers batch objects and both channels have capacity Workers, so a channel send never
   blocks -- but a send on the CLOSED fullBatches channel panics.  SendUnderLock = TRUE is the code since the repair
   08b19bf; FALSE is the order of the pinned commit (defect D9): Stop could close the channel in the gap between
   mu.Unlock and the send.  The FALSE configuration is kept as a spec mutant that must reach the panic state.

   Batch OBJECTS are recycled, so the spec numbers their uses: gen counts the times a batch was taken from freeBatches;
   the open batch is use curGen; a sealed batch carries the use it was sealed in.  Formation order = order of gen.
   Two mechanisms are switched:
     M_HeartbeatOneSection  the heartbeat looks at the open batch and seals it inside ONE critical section.  Off: it
                            remembers the expired batch, releases mu, and seals "that batch" in a second section -- an Add in
                            between has sealed it already (an expired batch is ready for Add too), so the same object is
                            enqueued twice and the batch being collected is forgotten                  (HandOverOnce)
     M_StopLeavesPartial    Stop does not touch the open batch (its events stay uncommitted and are read again after a
                            restart).  Off: Stop sends and commits the open batch itself, past the commit turn of batches
                            that are still being sent                                            (CommitInSeqOrder)  *)
EXTENDS Integers, Sequences, FiniteSets, TLC

CONSTANTS Adders,          \* adder goroutines (each adds its events one by one)
          PerAdder,        \* events per adder
          Workers, BatchCount,
          Sizes,           \* event sizes; BatchBytes = 0 disables the byte limit
          BatchBytes,
          SendUnderLock,
          WithStop,        \* include a Stop() call
          M_HeartbeatOneSection, M_StopLeavesPartial

Ev == Adders \X (1..PerAdder)
W == 1..Workers
Threads == Adders \cup {"hb"}

VARIABLES mu,          \* holder of b.mu ("none", an adder, "hb", "stop")
          shouldStop, closed,
          cur,         \* open batch: sequence of events ; hasCur
          hasCur, free, full, outSeq, commitSeq, seqLock,
          apc, anext, pend,   \* adder / heartbeat program counters, next event index, sealed batch in hand
          wpc, wbatch,        \* worker state
          spc,                \* Stop(): "idle" | "wait" | "done"
          size,               \* [Ev -> Sizes] chosen at Init
          gen, curGen,        \* uses of batch objects so far ; the use that is the open batch
          peek,               \* ~M_HeartbeatOneSection: the use the heartbeat decided to flush (-1: none)
          rest,               \* ~M_StopLeavesPartial: what Stop took out of the open batch
          age,                \* heartbeat ticks since the open batch got its first event (abstract time)
          sent, committed, panicked

vars == <<mu, shouldStop, closed, cur, hasCur, free, full, outSeq, commitSeq, seqLock, apc, anext, pend, wpc, wbatch, spc,
          size, gen, curGen, peek, rest, age, sent, committed, panicked>>

NoBatch == [ids |-> <<>>, seq |-> -1, gen |-> -1]

Init == /\ mu = "none" /\ shouldStop = FALSE /\ closed = FALSE
        /\ cur = <<>> /\ hasCur = FALSE /\ free = Workers /\ full = <<>> /\ outSeq = 0 /\ commitSeq = 0 /\ seqLock = 0
        /\ apc = [t \in Threads |-> "idle"] /\ anext = [a \in Adders |-> 1] /\ pend = [t \in Threads |-> NoBatch]
        /\ wpc = [k \in W |-> "recv"] /\ wbatch = [k \in W |-> NoBatch]
        /\ spc = IF WithStop THEN "idle" ELSE "done"
        /\ size \in [Ev -> Sizes]
        /\ gen = 0 /\ curGen = -1 /\ peek = -1 /\ rest = NoBatch
        /\ age = 0 /\ sent = <<>> /\ committed = <<>> /\ panicked = FALSE

Bytes(b) == LET RECURSIVE Sum(_) Sum(s) == IF s = <<>> THEN 0 ELSE size[Head(s)] + Sum(Tail(s)) IN Sum(b)
Ready(b, timeout) == b # <<>> /\ ((BatchCount # 0 /\ Len(b) >= BatchCount) \/ (BatchBytes # 0 /\ Bytes(b) >= BatchBytes) \/ timeout)

\* ---- Add / heartbeat, thread t
LockMu(t) == /\ apc[t] \in {"idle", "peeked"} /\ mu = "none" /\ ~panicked
             /\ (t \in Adders => anext[t] <= PerAdder)
             /\ (t = "hb" /\ apc[t] = "idle" => (hasCur /\ cur # <<>>) \/ shouldStop)      \* a tick over an empty batcher changes nothing: left out (keeps liveness checkable under WF)
             /\ mu' = t /\ apc' = [apc EXCEPT ![t] = IF apc[t] = "peeked" THEN "flush" ELSE "locked"]
             /\ UNCHANGED <<shouldStop, closed, cur, hasCur, free, full, outSeq, commitSeq, seqLock, anext, pend, wpc, wbatch, spc, size, gen, curGen, peek, rest, age, sent, committed, panicked>>

\* under mu: shouldStop check, getBatch (blocks on free = 0 while holding mu), append, updateStatus, seal.
\* updateStatus looks at the clock for everybody: an Add seals an expired batch too.
Critical(t) ==
  /\ apc[t] = "locked"
  /\ IF shouldStop
       THEN /\ mu' = "none" /\ apc' = [apc EXCEPT ![t] = IF t = "hb" THEN "done" ELSE "idle"]
            /\ anext' = IF t \in Adders THEN [anext EXCEPT ![t] = @ + 1] ELSE anext     \* Add returns silently: the event is dropped
            /\ UNCHANGED <<cur, hasCur, free, full, outSeq, pend, age, gen, curGen, peek>>
       ELSE /\ (hasCur \/ free > 0)
            /\ LET c0 == IF hasCur THEN cur ELSE <<>>
                   c1 == IF t \in Adders THEN Append(c0, <<t, anext[t]>>) ELSE c0
                   g  == IF hasCur THEN curGen ELSE gen + 1
                   timeout == age >= 1
               IN /\ gen' = IF hasCur THEN gen ELSE gen + 1
                  /\ IF t = "hb" /\ ~M_HeartbeatOneSection
                       THEN \* first section of the split heartbeat: only look
                            /\ cur' = c1 /\ hasCur' = TRUE /\ curGen' = g /\ free' = IF hasCur THEN free ELSE free - 1
                            /\ IF Ready(c1, timeout)
                                 THEN /\ peek' = g /\ apc' = [apc EXCEPT ![t] = "peeked"] /\ UNCHANGED age
                                 ELSE /\ peek' = -1 /\ apc' = [apc EXCEPT ![t] = "idle"]
                                      /\ age' = IF c1 # <<>> THEN age + 1 ELSE age
                            /\ mu' = "none" /\ UNCHANGED <<full, outSeq, pend>>
                       ELSE IF Ready(c1, timeout)
                         THEN /\ pend' = [pend EXCEPT ![t] = [ids |-> c1, seq |-> outSeq, gen |-> g]]
                              /\ outSeq' = outSeq + 1 /\ cur' = <<>> /\ hasCur' = FALSE /\ age' = 0 /\ curGen' = -1
                              /\ free' = IF hasCur THEN free ELSE free - 1
                              /\ UNCHANGED peek
                              /\ IF SendUnderLock
                                   THEN /\ full' = Append(full, [ids |-> c1, seq |-> outSeq, gen |-> g]) /\ mu' = "none"
                                        /\ apc' = [apc EXCEPT ![t] = "idle"]
                                   ELSE /\ mu' = "none" /\ apc' = [apc EXCEPT ![t] = "gap"] /\ UNCHANGED full
                         ELSE /\ cur' = c1 /\ hasCur' = TRUE /\ curGen' = g /\ free' = IF hasCur THEN free ELSE free - 1
                              /\ age' = IF t = "hb" /\ c1 # <<>> THEN age + 1 ELSE age
                              /\ mu' = "none" /\ apc' = [apc EXCEPT ![t] = "idle"]
                              /\ UNCHANGED <<full, outSeq, pend, peek>>
            /\ anext' = IF t \in Adders THEN [anext EXCEPT ![t] = @ + 1] ELSE anext
  /\ UNCHANGED <<shouldStop, closed, commitSeq, seqLock, wpc, wbatch, spc, size, rest, sent, committed, panicked>>

\* second section of the split heartbeat (~M_HeartbeatOneSection): seal the batch object remembered in the first one,
\* whatever happened to it in between
SealedAnywhere == {full[i] : i \in 1..Len(full)} \cup {wbatch[k] : k \in W} \cup {sent[i] : i \in 1..Len(sent)}
HbFlush ==
  /\ apc["hb"] = "flush"
  /\ IF shouldStop
       THEN /\ mu' = "none" /\ apc' = [apc EXCEPT !["hb"] = "done"]
            /\ UNCHANGED <<cur, hasCur, curGen, full, outSeq, age, peek>>
       ELSE /\ mu' = "none" /\ apc' = [apc EXCEPT !["hb"] = "idle"] /\ peek' = -1
            /\ IF hasCur /\ curGen = peek
                 THEN \* nobody came in between: the open batch is still the one looked at
                      /\ full' = Append(full, [ids |-> cur, seq |-> outSeq, gen |-> curGen])
                      /\ outSeq' = outSeq + 1 /\ cur' = <<>> /\ hasCur' = FALSE /\ curGen' = -1 /\ age' = 0
                 ELSE \* an Add sealed it: its events are still in the object, it is "ready" again, gets a new sequence
                      \* number and is enqueued a second time; b.batch = nil forgets the batch being collected
                      /\ LET r == CHOOSE x \in SealedAnywhere : x.gen = peek
                         IN full' = Append(full, [ids |-> r.ids, seq |-> outSeq, gen |-> peek])
                      /\ outSeq' = outSeq + 1 /\ cur' = <<>> /\ hasCur' = FALSE /\ curGen' = -1 /\ age' = 0
  /\ UNCHANGED <<shouldStop, closed, free, commitSeq, seqLock, anext, pend, wpc, wbatch, spc, size, gen, rest, sent, committed, panicked>>

\* the pinned code: the channel send happens after mu.Unlock
GapSend(t) == /\ apc[t] = "gap"
              /\ IF closed THEN /\ panicked' = TRUE /\ UNCHANGED full                   \* send on closed channel
                           ELSE /\ full' = Append(full, pend[t]) /\ UNCHANGED panicked
              /\ apc' = [apc EXCEPT ![t] = "idle"]
              /\ UNCHANGED <<mu, shouldStop, closed, cur, hasCur, free, outSeq, commitSeq, seqLock, anext, pend, wpc, wbatch, spc, size, gen, curGen, peek, rest, age, sent, committed>>

\* ---- workers
Recv(k) == /\ wpc[k] = "recv" /\ ~panicked
           /\ IF full # <<>>
                THEN /\ wbatch' = [wbatch EXCEPT ![k] = Head(full)] /\ full' = Tail(full) /\ wpc' = [wpc EXCEPT ![k] = "send"]
                ELSE /\ closed /\ wpc' = [wpc EXCEPT ![k] = "exit"] /\ UNCHANGED <<wbatch, full>>
           /\ UNCHANGED <<mu, shouldStop, closed, cur, hasCur, free, outSeq, commitSeq, seqLock, apc, anext, pend, spc, size, gen, curGen, peek, rest, age, sent, committed, panicked>>
Send(k) == /\ wpc[k] = "send"
           /\ sent' = Append(sent, wbatch[k]) /\ wpc' = [wpc EXCEPT ![k] = "turn"]
           /\ UNCHANGED <<mu, shouldStop, closed, cur, hasCur, free, full, outSeq, commitSeq, seqLock, apc, anext, pend, wbatch, spc, size, gen, curGen, peek, rest, age, committed, panicked>>
Turn(k) == /\ wpc[k] = "turn" /\ seqLock = 0 /\ commitSeq = wbatch[k].seq
           /\ seqLock' = k /\ commitSeq' = commitSeq + 1
           /\ committed' = committed \o wbatch[k].ids
           /\ wpc' = [wpc EXCEPT ![k] = "release"]
           /\ UNCHANGED <<mu, shouldStop, closed, cur, hasCur, free, full, outSeq, apc, anext, pend, wbatch, spc, size, gen, curGen, peek, rest, age, sent, panicked>>
Release(k) == /\ wpc[k] = "release"
              /\ free' = free + 1 /\ seqLock' = 0 /\ wpc' = [wpc EXCEPT ![k] = "recv"] /\ wbatch' = [wbatch EXCEPT ![k] = NoBatch]
              /\ UNCHANGED <<mu, shouldStop, closed, cur, hasCur, full, outSeq, commitSeq, apc, anext, pend, spc, size, gen, curGen, peek, rest, age, sent, committed, panicked>>

\* ---- Stop
StopLock == /\ spc = "idle" /\ mu = "none" /\ ~panicked
            /\ shouldStop' = TRUE /\ closed' = TRUE
            /\ IF ~M_StopLeavesPartial /\ hasCur /\ cur # <<>>
                 THEN /\ rest' = [ids |-> cur, seq |-> -1, gen |-> curGen] /\ cur' = <<>> /\ hasCur' = FALSE /\ curGen' = -1
                      /\ spc' = "flush"
                 ELSE /\ spc' = "wait" /\ UNCHANGED <<rest, cur, hasCur, curGen>>
            /\ UNCHANGED <<mu, free, full, outSeq, commitSeq, seqLock, apc, anext, pend, wpc, wbatch, size, gen, peek, age, sent, committed, panicked>>
\* ~M_StopLeavesPartial: Stop sends and commits what was collected, from its own goroutine, outside the commit chain
StopFlush == /\ spc = "flush"
             /\ sent' = Append(sent, rest) /\ committed' = committed \o rest.ids /\ spc' = "wait"
             /\ UNCHANGED <<mu, shouldStop, closed, cur, hasCur, free, full, outSeq, commitSeq, seqLock, apc, anext, pend, wpc, wbatch, size, gen, curGen, peek, rest, age, panicked>>
StopWait == /\ spc = "wait" /\ \A k \in W : wpc[k] = "exit"
            /\ spc' = "done"
            /\ UNCHANGED <<mu, shouldStop, closed, cur, hasCur, free, full, outSeq, commitSeq, seqLock, apc, anext, pend, wpc, wbatch, size, gen, curGen, peek, rest, age, sent, committed, panicked>>

Next == \/ \E t \in Threads : LockMu(t) \/ Critical(t) \/ GapSend(t)
        \/ HbFlush
        \/ \E k \in W : Recv(k) \/ Send(k) \/ Turn(k) \/ Release(k)
        \/ StopLock \/ StopFlush \/ StopWait
Spec == Init /\ [][Next]_vars
FairSpec == Spec /\ \A t \in Threads : WF_vars(LockMu(t) \/ Critical(t) \/ GapSend(t)) /\ WF_vars(HbFlush)
                 /\ \A k \in W : WF_vars(Recv(k) \/ Send(k) \/ Turn(k) \/ Release(k)) /\ WF_vars(StopLock \/ StopFlush \/ StopWait)

-----------------------------------------------------------------------------
SeqToSet(s) == {s[i] : i \in 1..Len(s)}
SentIds == UNION {SeqToSet(sent[i].ids) : i \in 1..Len(sent)}
\* C08 clauses
StopSafe == ~panicked
SizeBound == \A i \in 1..Len(sent) : LET b == sent[i].ids IN
               /\ (BatchCount # 0 => Len(b) <= BatchCount)
               /\ (BatchBytes # 0 => Bytes(b) - size[b[Len(b)]] < BatchBytes)
CommitOnlySent == SeqToSet(committed) \subseteq SentIds
CommitOnce == \A i, j \in 1..Len(committed) : i # j => committed[i] # committed[j]
\* batches are committed in the order they were formed (= sequence numbers), each after its own send
CommitInSeqOrder ==
  LET seqOfEv(e) == (CHOOSE i \in 1..Len(sent) : e \in SeqToSet(sent[i].ids))
  IN \A i, j \in 1..Len(committed) : i < j => sent[seqOfEv(committed[i])].gen <= sent[seqOfEv(committed[j])].gen
\* a batch object is handed to the output once per use: no event is in two sends
HandOverOnce == \A i, j \in 1..Len(sent) : i # j => SeqToSet(sent[i].ids) \cap SeqToSet(sent[j].ids) = {}
\* bounded staleness: an open non-empty batch does not survive two heartbeat ticks
Staleness == age <= 1
\* without Stop every added event is committed exactly once (liveness) ; with Stop: everything sealed before the close is committed
AllCommitted == <>(\A a \in Adders : \A i \in 1..PerAdder : <<a, i>> \in SeqToSet(committed))
StopTerminates == <>(spc = "done")
=============================================================================
