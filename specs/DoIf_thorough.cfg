SPECIFICATION Spec
CONSTANTS
  Chars = {1, 2, 3, 4}
  MaxVal = 2
  MaxVal2 = 2
  MaxData = 3
  PoolN = 6
  Depth3 = TRUE
  M_ShiftOnce = TRUE
  M_LenOfValue = TRUE
  M_ContainsAnyRunes = TRUE
  UChars = {1, 40, 41, 42, 43, 44, 45, 46, 47, 48, 49, 50}
  UMaxData = 2
  PartsOn = {}
  D_FoldWidth = TRUE
  D_ContainerNul = TRUE
  D_EmptyContainerLen = TRUE
INVARIANTS TypeOK ImplRefinesDecl LogicLaws ValueOrderIrrelevant Export
CHECK_DEADLOCK FALSE
