SPECIFICATION Spec
CONSTANTS
  Chars = {1, 2, 3, 4}
  MaxVal = 2
  MaxVal2 = 2
  MaxData = 3
  PoolN = 6
  Depth3 = TRUE
  M_ShiftOnce = TRUE
  PartsOn = {}
  D_FoldWidth = TRUE
  D_ContainerNul = TRUE
  D_EmptyContainerLen = TRUE
INVARIANTS TypeOK ImplRefinesDecl LogicLaws ValueOrderIrrelevant Export
CHECK_DEADLOCK FALSE
