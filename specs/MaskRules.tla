------------------------------ MODULE MaskRules ------------------------------
(* C17, match rules of a mask under several plugin instances (cfg/matchrule/matchrule.go, RuleSet.Match, called
   from Mask.checkMatchRules).  A pipeline starts one mask plugin per processor from ONE config; mask.Start
   copies the Masks slice, but the RuleSet objects of a mask stay the same objects for every instance, so they
   are evaluated concurrently.

   The property: the decision of a rule set on a value is a function of (rules, value) alone, whatever other
   instances evaluate meanwhile.

   The mechanism in the code (M_MatchStateless): an evaluation keeps everything it computes (the lower-cased
   copy of the value for case-insensitive rules) in locals of the call.
   The mutant (M_MatchStateless = FALSE): the lowered value is kept in a scratch buffer ON THE SHARED RULE SET
   and the search reads that buffer.  TLC must ACCEPT the mechanism and REJECT the mutant with two concurrent
   evaluations (A lowers, B lowers, A searches B's value).

   Abstraction: a value either contains the key word ("hit") or not ("miss"); one evaluation = two steps,
   `lower` (produce the lowered copy) and `search` (decide from the copy it reads).                          *)
EXTENDS Integers, FiniteSets, TLC

CONSTANTS Procs,                 \* plugin instances evaluating the same rule set
          M_MatchStateless       \* TRUE = the code; FALSE = the mutant

Vals == {"hit", "miss"}

VARIABLES val,        \* instance -> the value it is evaluating
          pc,         \* instance -> lower | search | done
          localBuf,   \* instance -> its own lowered copy
          sharedBuf,  \* the scratch buffer of the mutant (a field of the shared RuleSet)
          decision    \* instance -> the answer of RuleSet.Match
vars == <<val, pc, localBuf, sharedBuf, decision>>

Init ==
  /\ val \in [Procs -> Vals]
  /\ pc = [p \in Procs |-> "lower"]
  /\ localBuf = [p \in Procs |-> "none"]
  /\ sharedBuf = "none"
  /\ decision = [p \in Procs |-> FALSE]

(* data = bytes.ToLower(raw)        |  mutant: rs.lowerBuf = appendLower(rs.lowerBuf[:0], data) *)
Lower(p) ==
  /\ pc[p] = "lower"
  /\ IF M_MatchStateless
       THEN localBuf' = [localBuf EXCEPT ![p] = val[p]] /\ UNCHANGED sharedBuf
       ELSE sharedBuf' = val[p] /\ UNCHANGED localBuf
  /\ pc' = [pc EXCEPT ![p] = "search"]
  /\ UNCHANGED <<val, decision>>

(* bytes.Contains(data, value) *)
Search(p) ==
  /\ pc[p] = "search"
  /\ decision' = [decision EXCEPT ![p] = (IF M_MatchStateless THEN localBuf[p] ELSE sharedBuf) = "hit"]
  /\ pc' = [pc EXCEPT ![p] = "done"]
  /\ UNCHANGED <<val, localBuf, sharedBuf>>

Next == \E p \in Procs : Lower(p) \/ Search(p)
Spec == Init /\ [][Next]_vars

TypeOK == \A p \in Procs : pc[p] \in {"lower", "search", "done"}
\* the answer depends on the instance's own value only
DecisionIsFunctionOfValue == \A p \in Procs : pc[p] = "done" => (decision[p] <=> val[p] = "hit")
=============================================================================
