SPECIFICATION Spec
CONSTANTS
  NRec = 4
  Parts = {0, 1}
  NProcs = 2
  D_Spread = TRUE
INVARIANTS MarkOwn PackRoundTrip MarkSafe
PROPERTIES MarkMonotone
CHECK_DEADLOCK FALSE
