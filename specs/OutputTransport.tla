--------------------------- MODULE OutputTransport ---------------------------
(* C19, transport of a request body -- companion of OutputPayload.tla for the outputs that send through xhttp.Client
   (elasticsearch, http, splunk, loki): xhttp/client.go DoTimeout / prepareRequest.

   Code: one call of DoTimeout acquires a request object, picks ONE endpoint at random, calls prepareRequest once --
   without compression `req.SetBodyRaw(body)`, with use_gzip `WriteGzipLevel(req.BodyWriter(), body, level)`, which
   APPENDS the compressed payload to the request's body -- and sends it.  A transport error (endpoint dead) is returned
   to the plugin, whose out() returns it, and the RetriableBatcher calls out() again: a NEW call, a new request object, a new
   random endpoint.

   The body that reaches a sink must be a function of the batch alone: whatever the number of endpoints, the compression
   setting and the endpoints that failed before, a sink that decodes the body gets exactly the payload, once.

   Mechanism switch (TRUE = as in the code):
     M_BodyBuiltOncePerAttempt   FALSE = DoTimeout fails over inside the call and calls prepareRequest again on the SAME
                                 request object for every endpoint it tries: with gzip a second compressed member is
                                 appended, and the sink decompresses the payload twice.                                *)
EXTENDS Integers, Sequences, FiniteSets, TLC

CONSTANTS MaxEndpoints,      \* endpoint lists of 1..MaxEndpoints
          MaxAttempts,       \* calls of out() explored (the batcher's retries)
          PayloadLen,        \* the payload is <<1, ..., PayloadLen>>
          M_BodyBuiltOncePerAttempt

VARIABLES n, dead, gzip,     \* the case: number of endpoints, the set of dead ones, use_gzip
          attempt,           \* calls of out() so far
          body,              \* body of the request object of the call in progress: a sequence of members
          tried,             \* endpoints tried inside the call in progress (mutant)
          pc,                \* idle | call | done
          received           \* what the live sinks received: decoded bodies, one per request

vars == <<n, dead, gzip, attempt, body, tried, pc, received>>

Payload == [x \in 1..PayloadLen |-> x]
\* a body is a sequence of members; a raw member carries the payload as is, a gzip member its compressed form;
\* a sink decodes a gzip body member by member and concatenates (RFC 1952 multi-member), a raw body is one member
RECURSIVE Concat(_)
Concat(ms) == IF ms = <<>> THEN <<>> ELSE Head(ms).data \o Concat(Tail(ms))
Decode(b) == Concat(b)

Init ==
  /\ n \in 1..MaxEndpoints /\ dead \in SUBSET (1..n) /\ dead # 1..n /\ gzip \in BOOLEAN
  /\ attempt = 0 /\ body = <<>> /\ tried = {} /\ pc = "idle" /\ received = <<>>

(* prepareRequest(req, endpoint, ..., body) *)
Prepared(b) == IF gzip THEN Append(b, [enc |-> "gzip", data |-> Payload])        \* BodyWriter: appends
                       ELSE <<[enc |-> "raw", data |-> Payload]>>                 \* SetBodyRaw: replaces

(* out() -> DoTimeout: new request object *)
Call ==
  /\ pc = "idle" /\ attempt < MaxAttempts
  /\ attempt' = attempt + 1 /\ body' = <<>> /\ tried' = {} /\ pc' = "call"
  /\ UNCHANGED <<n, dead, gzip, received>>

(* pick an endpoint, prepare, send *)
Send ==
  /\ pc = "call"
  /\ \E e \in (1..n) \ tried :
       LET b == Prepared(body) IN
       /\ body' = b
       /\ IF e \notin dead
            THEN received' = Append(received, Decode(b)) /\ pc' = "done" /\ tried' = tried
            ELSE /\ received' = received
                 /\ IF M_BodyBuiltOncePerAttempt
                      THEN pc' = "idle" /\ tried' = tried              \* the error goes back to the batcher: a new call
                      ELSE \* mutant: fail over inside the call, same request object
                           /\ tried' = tried \cup {e}
                           /\ pc' = IF tried \cup {e} = 1..n THEN "idle" ELSE "call"
  /\ UNCHANGED <<n, dead, gzip, attempt>>

Next == Call \/ Send
Spec == Init /\ [][Next]_vars

-----------------------------------------------------------------------------
\* whatever happened before, a sink that decodes a request gets the batch's payload, exactly once
BodyIsPayload == \A i \in DOMAIN received : received[i] = Payload
\* the batch reaches a sink at most once per successful call (and the call ends there)
OneRequestPerDelivery == Len(received) <= 1

=============================================================================
