SPECIFICATION Spec
CONSTANTS
  Batches = 3
  MaxFrames = 3
  MaxFailures = 3
  M_ReconnectAfterFailedWrite = TRUE
INVARIANTS StreamIsPrefixOfWholeFrames AckedBatchIsWhole NoFrameTwiceOnOneConnection
CHECK_DEADLOCK FALSE
