SPECIFICATION Spec
CONSTANTS
  MaxN1 = 3
  MaxN = 3
  MaxBatches = 2
  Kinds = {"regular", "parent"}
  SizeClasses = {1, 2}
  MaxBig = 1
  SplitModes = {TRUE, FALSE}
  MaxPatBatches = 2
  D14_SingleTooLargeAborts = TRUE
  M_ResetBegin = TRUE
  M_ResetBuf = TRUE
  M_SkipParent = TRUE
  M_ReencodeAfterGiveUp = TRUE
  M_TopicPerEvent = TRUE
  Routes = {"none", "a", "b"}
  RouteKinds = {"regular", "parent"}
  MaxRouteBatches = 2
  Retry = 1
  DeadQueueModes = {TRUE, FALSE}
INVARIANTS TypeOK FramingOK BodyIs SplitBodiesInOrder SplitCovers AckOnlyCovered NoDuplicateAccept GiveUpOnlyAfterRetries RoutingOwn
CHECK_DEADLOCK FALSE
