SPECIFICATION Spec
CONSTANTS
  CharsM = {1, 2}
  MaxPat = 2
  MaxFld = 2
  D_AndRegexp = TRUE
INVARIANTS TypeOK ImplRefinesDecl CondOrderIrrelevant InvertIsNegation AndRegexpNeverMatches Export
CHECK_DEADLOCK FALSE
