SPECIFICATION Spec
CONSTANTS
  NameSyms = {1, 2, 3, 4, 5, 6}
  MaxName1 = 3
  MaxName2 = 1
  Unconditional = FALSE
  M_KeyIsSourceId = TRUE
  M_NamesVerbatim = TRUE
  M_ZeroOffsetsWritten = TRUE
INVARIANTS RoundTrip R_RoundTrip ModelD8 Export
CHECK_DEADLOCK FALSE
