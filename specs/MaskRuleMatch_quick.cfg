\* the mechanism as coded: every value of the list is tried
SPECIFICATION Spec
CONSTANTS
  MaxData = 3
  MaxVal = 2
  MaxVals = 3
  M_EveryValueTried = TRUE
INVARIANTS TypeOK SomeValueMatches
CHECK_DEADLOCK FALSE
