SPECIFICATION FairSpec
CONSTANTS
  N = 4
  M_InputStopsBeforeOutput = FALSE
INVARIANTS ShutdownSafe
PROPERTIES StopCompletes
CHECK_DEADLOCK FALSE
