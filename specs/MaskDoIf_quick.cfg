\* the mechanism as coded: do_if evaluated once per event, on the original event
SPECIFICATION Spec
CONSTANTS
  NF = 3
  M_DoIfOnOriginalEvent = TRUE
INVARIANTS TypeOK DoIfOnOriginal
CHECK_DEADLOCK FALSE
