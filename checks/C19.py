"""C19 -- output payloads carry every deliverable event of a batch exactly once, well-formed.

1. TLC checks specs/OutputPayload.tla exhaustively in small scope: the step-by-step transcription of the
   elasticsearch/http `out` function (per-worker outBuf/begin reuse, Batch.ForEach, send, recursive sendSplit on
   413, what is returned to the batcher) satisfies FramingOK, BodyIs, SplitBodiesInOrder, NoDuplicateAccept and
   SplitCovers modulo the named deviation D14; the strict SplitCovers must FAIL with D14 on and PASS with it off;
   the spec mutants M_ResetBegin / M_ResetBuf / M_SkipParent must each violate an invariant. TLC exports every case
   (split on/off, <= 3 successive batches of shrinking size for one worker, kinds, size classes, 413 pattern) with
   the declaratively expected ids.
   Fault family: one batch fails every attempt (5xx), the RetriableBatcher gives up, the recycled Batch object and the
   surviving worker data serve the next batches; spec mutant M_ReencodeAfterGiveUp (encode-once cache keyed by the
   Batch object, not dropped on give-up) must violate BodyIs.
   Routing family: explicit routing values per event (none / a / b) over successive batches; the kafka per-worker record
   slots are modelled; spec mutant M_TopicPerEvent (topic set only on slot allocation / when different) must violate RoutingOwn.
   File sink under concurrency: specs/OutputFileSink.tla (two/three workers, seal-up swapping the file): every file is a
   concatenation of whole batch payloads, every chunk in exactly one file; mutant M_BatchWrittenUnderOneLock (chunked write,
   lock released per chunk) rejected with two workers and with a seal-up; replayed on the real file plugin (barrier + sealUp).
   Connection-oriented sink: specs/OutputStreamSink.tla (whole frames per connection, connection abandoned after a failed or
   partial write; mutant M_ReconnectAfterFailedWrite rejected), replayed on the real gelf output with a stalled receiver.
   Transport (specs/OutputTransport.tla): endpoint lists with dead endpoints x gzip, mutant M_BodyBuiltOncePerAttempt rejected.
   Elasticsearch action lines (specs/EsActionLine.tla): index_values of 1..3 entries over {@time, a, b}, mutant M_ActionLinePerEvent.
   Gelf field names (specs/GelfFieldName.tla): formatExtraField over ASCII / non-ASCII name alphabets, mutant M_NameBytesAsciiOnly.
2. The cases are replayed into the REAL output plugins (elasticsearch, kafka, file, splunk, http, loki, gelf), each
   event carrying adversarial values in the routing/label fields; every captured body is parsed back in the sink's
   framing (abstraction function) and compared with the expectation: BodyIs, FramingOK, SplitCovers.
"""
import concurrent.futures
import json
import os
import random
import shutil

import vlib

LEVEL = "model_checking"

# sink -> (package, which cases it takes)
SINKS = ["elasticsearch", "kafka", "file", "splunk", "http", "loki", "gelf"]
PKG = {s: "plugin/output/" + s for s in SINKS}
NEEDS_ESC = {5, 6, 7, 8, 9}           # value classes of the harness that must be escaped inside a JSON string
SAFE_VALS = [0, 1, 2, 3, 4]
ALL_VALS = list(range(10))
QUICK_N = {"elasticsearch": 8000, "http": 2500}
QUICK_DEFAULT_N = 2000


FAULT_SINKS = {"elasticsearch", "http", "splunk", "loki", "kafka"}   # RetriableBatcher + a sink that can answer 5xx


GZIP_SINKS = {"elasticsearch", "http", "splunk"}                      # outputs with use_gzip (loki has none)
ENDPOINT_SINKS = {"elasticsearch", "http"}                            # outputs with a list of endpoints
ROUTE_SINKS = {"kafka", "elasticsearch", "splunk", "gelf"}             # the routing value is taken per event


def is_routing(c):
    """routing family: explicit routing values per event, >= 2 batches through the same worker"""
    return len(c["batches"]) > 1 and any(e.get("route", "any") != "any" for b in c["batches"] for e in b)


def is_fault(c):
    return any(c.get("fail") or [])


def takes(sink, c):
    if is_fault(c) and sink not in FAULT_SINKS:
        return False
    if sink == "elasticsearch":
        return True
    nopat = all(len(p) == 0 for p in c["pats"])
    if sink == "http":                 # has the same begin table / split_batch switch; the 413 clause is ES-only
        return nopat
    return nopat and not c["split"]


def rejects(pat, ids):
    s = set(ids)
    return any(set(m) <= s for m in pat)


def shape_key(c):
    return json.dumps({"split": c["split"], "pats": c["pats"], "fail": c.get("fail"), "dq": c.get("dq", False),
                       "b": [[[e["id"], e["kind"], e["size"], e.get("route", "any")] for e in b] for b in c["batches"]]},
                      sort_keys=True)


def compact(c):
    return {"split": c["split"], "batches": c["batches"], "pats": c["pats"], "variant": c.get("variant", ""),
            "gzip": c.get("gzip", False), "dead": c.get("dead", 0),
            "fail": c.get("fail") or [False] * len(c["batches"]), "dq": c.get("dq", False)}


def judge(sink, c, r):
    """Compare what the real plugin put on the wire (r) with the declarative expectation of case c."""
    recs = []
    n_batches = 0
    if r.get("panic"):
        return [{"kind": "panic", "sink": sink, "panic": r["panic"][:400], "case": compact(c)}], 0
    for bi, b in enumerate(c["batches"]):
        if bi >= len(r["batches"]):
            break
        n_batches += 1
        br = r["batches"][bi]
        payload, exp, pat = c["payload"][bi], c["exp"][bi], c["pats"][bi]
        vals = {e["id"]: e["val"] for e in b}
        kinds = {e["id"]: e["kind"] for e in b}
        variant = c.get("variant", "")
        if sink == "http" and variant == "raw":
            # encoding.type=raw: a line per event that has the encoded field; class 1 events have nothing to deliver
            exp = [i for i in exp if vals[i] != 1]
        failing = bool((c.get("fail") or [])[bi:bi + 1] == [True])
        after_giveup = any((c.get("fail") or [])[:bi])
        base = {"sink": sink, "batch": bi, "case": compact(c), "after_given_up_batch": after_giveup}
        if not br["acked"]:
            recs.append(dict(base, kind="hang", what="batch not committed within 60 s"))
        accepted = []
        for q in br["reqs"]:
            for fr in q.get("framing") or []:
                recs.append(dict(base, kind="framing", where=fr["where"], id=fr["id"], text=fr["text"],
                                 index_value_needs_json_escaping=vals.get(fr["id"]) in NEEDS_ESC))
            for fr in q.get("routing") or []:
                # the topic / index / copied field / host next to an event is not the one of that event
                if sink == "elasticsearch" and vals.get(fr["id"]) in NEEDS_ESC:
                    # the unescaped splice of the index value again: the action line happens to stay valid JSON
                    # (svc a\\b -> "c19-a\\b": backspace) but names another index -- same input class, same line
                    recs.append(dict(base, kind="framing", where="action_line", id=fr["id"], text=fr["text"],
                                     index_value_needs_json_escaping=True,
                                     manifestation="valid JSON, decodes to a different index name"))
                    continue
                recs.append(dict(base, kind="routing", where=fr["where"], id=fr["id"], text=fr["text"],
                                 val_class=vals.get(fr["id"])))
            for i in q.get("doc_diff") or []:
                recs.append(dict(base, kind="doc_differs", id=i, val_class=vals.get(i)))
            if failing and q.get("st") == 500 and variant != "raw" and q["ids"] != payload:
                # every attempt of a batch that is going to be given up must still carry that batch
                recs.append(dict(base, kind="retry_body_differs", want=payload, got=q["ids"]))
            if q["ok"]:
                pos = [payload.index(i) if i in payload else -1 for i in q["ids"]]
                if -1 not in pos and any(pos[j] >= pos[j + 1] for j in range(len(pos) - 1)):
                    recs.append(dict(base, kind="body_order", want=payload, got=q["ids"]))
                accepted += q["ids"]
        foreign = [i for i in accepted if i not in payload]
        dup = len(set(accepted)) != len(accepted)
        if c["split"] and sink == "elasticsearch":
            if sorted(accepted) != sorted(exp):
                single = [i for i in payload if rejects(pat, [i])]
                tail = False
                if single:
                    first = payload.index(single[0])
                    tail = sorted(accepted) == sorted(payload[:first])
                recs.append(dict(base, kind="split_not_covered", single_event_too_large=bool(single),
                                 lost_exactly_the_events_after_it=tail, duplicates=dup, foreign=bool(foreign),
                                 parent_sent=any(kinds.get(i) == "parent" for i in accepted),
                                 acked=bool(br["acked"]), want=exp, got=accepted,
                                 requests=[[q["ids"], q["ok"]] for q in br["reqs"]]))
        elif accepted != exp:
            fl = [x for x, i in enumerate(payload) if vals[i] == 1] if variant == "raw" else []
            recs.append(dict(base, kind="body_differs", want=exp, got=accepted, duplicates=dup,
                             stale_or_foreign=bool(foreign), variant=variant,
                             lost_exactly_the_events_before_a_fieldless_event=bool(fl) and accepted == payload[fl[-1] + 1:],
                             parent_sent=any(kinds.get(i) == "parent" for i in accepted)))
    return recs, n_batches


def nontrivial_key(sink, c):
    """distinct non-trivial case shapes: buffer reuse across batches, a parent to omit, a real split, a given-up batch"""
    if is_routing(c) and sink in ROUTE_SINKS:
        return (sink, "routing", tuple(tuple((e["kind"], e["route"]) for e in b) for b in c["batches"]))
    if is_fault(c):
        return (sink, c["split"], tuple(tuple((e["kind"], e["size"]) for e in b) for b in c["batches"]),
                json.dumps([c["fail"], c.get("dq", False)]))
    reuse = len(c["batches"]) > 1
    parent = any(e["kind"] == "parent" for b in c["batches"] for e in b)
    split = any(len(p) > 0 for p in c["pats"])
    if not (reuse or parent or split):
        return None
    return (sink, c["split"], tuple(tuple((e["kind"], e["size"]) for e in b) for b in c["batches"]),
            json.dumps(c["pats"]))


def preload_findings():
    """vlib.load_findings() loads every fragment of known_findings.d; a fragment of ANOTHER property that is being
    written at this moment (empty / half a file) must not turn this check into an infrastructure failure."""
    if vlib._FINDINGS is not None:
        return
    out = []
    p = os.path.join(vlib.VERIF, "known_findings.json")
    if os.path.exists(p):
        out += json.load(open(p))["findings"]
    d = os.path.join(vlib.VERIF, "known_findings.d")
    if os.path.isdir(d):
        for f in sorted(os.listdir(d)):
            if not f.endswith(".json"):
                continue
            try:
                out += json.load(open(os.path.join(d, f)))["findings"]
            except Exception as e:
                if f == "C19.json":
                    raise vlib.Infra("known_findings.d/C19.json unreadable: %s" % e)
                vlib.log("warning: skipping unreadable known-findings fragment %s (not C19's): %s" % (f, e))
    vlib._FINDINGS = out


def file_sink_concurrency(ctx, binary, recs):
    """specs/OutputFileSink.tla on the real file output: two workers flush payloads > 64 KiB / > 128 KiB together (barrier)
    while the harness calls sealUp; all files are read back. Overlap is constructed, not guaranteed: what was achieved is
    measured by the harness and reported."""
    rounds = 30 if ctx.tier == "quick" else 300
    info = {}
    for label, env in (("default", {}), ("GOMAXPROCS=1", {"GOMAXPROCS": "1"})):
        outp = os.path.join(ctx.scratch, "c19_fileconc_%s.json" % label.replace("=", ""))
        e = {"VERIF_OUT": outp, "VERIF_ROUNDS": rounds, "LOG_LEVEL": "error"}
        e.update(env)
        rc, txt = ctx.run_bin(binary, "^TestVerifC19FileConc$", env=e, timeout=3600)
        if rc != 0 or not os.path.exists(outp):
            if "panic:" in txt and "plugin/output/file" in txt and "zz_verif" not in txt.split("panic:", 1)[1][:1500]:
                recs.append({"kind": "panic", "sink": "file", "stage": "file_sink_concurrency", "panic": txt[txt.index("panic:"):][:600]})
                continue
            raise vlib.Infra("C19 file-sink concurrency harness failed rc=%s:\n%s" % (rc, txt[-3000:]))
        r = json.load(open(outp))
        info[label] = {k: r[k] for k in ("rounds", "batches", "events", "files", "overlapping_out_pairs", "seal_ups",
                                         "seal_ups_while_out_in_flight", "n_violations")}
        for v in r["violations"] or []:
            recs.append(dict(v, sink="file", stage="file_sink_concurrency", schedule=label, violations_in_run=r["n_violations"]))
        ctx.evaluations += r["batches"]
        ctx.traces_validated += r["rounds"]
        if r["overlapping_out_pairs"] or r["seal_ups_while_out_in_flight"]:
            ctx.nontrivial.add(("file_sink_concurrency", label, "overlap"))
        vlib.log("C19 file sink concurrency (%s): rounds=%d batches=%d files=%d overlapping out() pairs=%d seal-ups=%d of them "
                 "while an out() was in flight=%d violations=%d" % (label, r["rounds"], r["batches"], r["files"],
                 r["overlapping_out_pairs"], r["seal_ups"], r["seal_ups_while_out_in_flight"], r["n_violations"]))
    ctx.extra["file_sink_concurrency"] = info
    ctx.assumptions.append("file sink concurrency: out() of two workers released together plus sealUp called by the harness; the "
                           "overlap actually achieved is measured (evidence: file_sink_concurrency) - with GOMAXPROCS=1 it is usually none")


def es_action_lines(ctx, binary, recs, cases):
    """specs/EsActionLine.tla on the real elasticsearch output: index_values of 1..3 entries over {@time, a, b}, batches whose
    events vary in a and b independently, split_batch on and off; the sink compares every action line's index with the one
    built from that document's own values."""
    if len(cases) < 500:
        raise vlib.Infra("EsActionLine exported only %d cases" % len(cases))
    cases = sorted(cases, key=lambda c: json.dumps(c, sort_keys=True))
    if ctx.tier == "quick" and len(cases) > 600:
        cases = random.Random("%d/esindex" % ctx.seed).sample(cases, 600)
    out = []
    for c in cases:
        for split in (False, True):
            out.append({"n": len(out), "variant": ",".join(c["iv"]), "split": split, "pats": [[]], "fail": [False],
                        "batches": [[{"id": i + 1, "kind": "regular", "size": 1, "val": (e["a"] - 1) * 2 + (e["b"] - 1)}
                                     for i, e in enumerate(c["batch"])]]})
    path = os.path.join(ctx.scratch, "c19_esindex_cases.ndjson")
    outp = os.path.join(ctx.scratch, "c19_esindex_out.ndjson")
    with open(path, "w") as f:
        for c in out:
            f.write(json.dumps(c) + "\n")
    rc, txt = ctx.run_bin(binary, "^TestVerifC19EsIndex$", env={"VERIF_CASES": path, "VERIF_OUT": outp, "LOG_LEVEL": "error"}, timeout=1200)
    if rc != 0:
        if "panic:" in txt and "elasticsearch.go" in txt:
            recs.append({"kind": "panic", "sink": "elasticsearch", "stage": "es_action_lines", "panic": txt[txt.index("panic:"):][:600]})
            return
        raise vlib.Infra("C19 es action lines harness failed rc=%s:\n%s" % (rc, txt[-3000:]))
    results = {}
    for line in open(outp):
        r = json.loads(line)
        results[r["n"]] = r
    if len(results) != len(out):
        raise vlib.Infra("C19 es action lines harness executed %d of %d cases" % (len(results), len(out)))
    nviol = 0
    for c in out:
        r = results[c["n"]]
        ids = [e["id"] for e in c["batches"][0]]
        base = {"sink": "elasticsearch", "stage": "es_action_lines", "index_values": c["variant"], "split": c["split"],
                "events_a_b": [[1 + e["val"] // 2, 1 + e["val"] % 2] for e in c["batches"][0]]}
        got = []
        for b in r["batches"]:
            if not b["acked"]:
                recs.append(dict(base, kind="hang"))
            for q in b["reqs"]:
                got += q["ids"]
                for fr in (q.get("routing") or []):
                    nviol += 1
                    recs.append(dict(base, kind="routing", where="_index", id=fr["id"], text=fr["text"]))
                for fr in (q.get("framing") or []):
                    recs.append(dict(base, kind="framing", where=fr["where"], id=fr["id"], text=fr["text"]))
        if got != ids:
            recs.append(dict(base, kind="body_differs", want=ids, got=got))
        ctx.evaluations += 1
        ctx.traces_validated += 1
    ctx.extra["es_action_lines"] = {"cases": len(out), "index_mismatches": nviol}
    ctx.nontrivial.add(("es_action_lines", "index of two or more event fields, neighbours differing in a later field only"))
    vlib.log("C19 es action lines: cases=%d index mismatches=%d" % (len(out), nviol))


def gelf_names(ctx, binary, recs, cases):
    """specs/GelfFieldName.tla on the real gelf output: every exported name becomes a field name of an event that the plugin's
    own formatEvent turns into a GELF message."""
    if len(cases) < 500:
        raise vlib.Infra("GelfFieldName exported only %d names" % len(cases))
    path = os.path.join(ctx.scratch, "c19_gelfnames_cases.ndjson")
    outp = os.path.join(ctx.scratch, "c19_gelfnames_out.json")
    with open(path, "w") as f:
        for c in sorted(cases, key=lambda c: json.dumps(c["name"])):
            f.write(json.dumps({"name": c["name"], "want": c["want"]}) + "\n")
    rc, txt = ctx.run_bin(binary, "^TestVerifC19GelfNames$", env={"VERIF_CASES": path, "VERIF_OUT": outp, "LOG_LEVEL": "error"}, timeout=1800)
    if rc != 0 or not os.path.exists(outp):
        if "panic:" in txt and "gelf.go" in txt:
            recs.append({"kind": "panic", "sink": "gelf", "stage": "gelf_names", "panic": txt[txt.index("panic:"):][:600]})
            return
        raise vlib.Infra("C19 gelf names harness failed rc=%s:\n%s" % (rc, txt[-3000:]))
    r = json.load(open(outp))
    if r["executed"] != len(cases):
        raise vlib.Infra("C19 gelf names harness executed %d of %d names" % (r["executed"], len(cases)))
    for v in r["violations"] or []:
        recs.append(dict(v, sink="gelf", stage="gelf_names", violations_in_run=r["n_violations"]))
    ctx.evaluations += r["executed"]
    ctx.traces_validated += r["executed"]
    ctx.extra["gelf_names"] = {"names": r["executed"], "violations": r["n_violations"]}
    ctx.nontrivial.add(("gelf_names", "names with non-ASCII letters / digits and ASCII punctuation"))
    vlib.log("C19 gelf field names: names=%d violations=%d" % (r["executed"], r["n_violations"]))


def gelf_stream(ctx, binary, recs):
    """specs/OutputStreamSink.tla on the real gelf output: a receiver with a small buffer stalls until the write of a payload
    larger than the socket buffers has timed out part-way, then the same batch is sent again (as the RetriableBatcher does);
    every connection's byte stream is cut into NUL-terminated frames and judged."""
    rounds = 2 if ctx.tier == "quick" else 6
    outp = os.path.join(ctx.scratch, "c19_gelfstream.json")
    rc, txt = ctx.run_bin(binary, "^TestVerifC19GelfStream$", env={"VERIF_OUT": outp, "VERIF_ROUNDS": rounds, "LOG_LEVEL": "error"},
                          timeout=2700)
    if rc != 0 or not os.path.exists(outp):
        raise vlib.Infra("C19 gelf stream harness failed rc=%s:\n%s" % (rc, txt[-3000:]))
    r = json.load(open(outp))
    for v in r["violations"] or []:
        recs.append(dict(v, sink="gelf", stage="gelf_stream", frame_is_valid_json=v["kind"] != "gelf_stream_frame_not_json",
                         violations_of_this_kind_in_run=r["violation_kinds"].get(v["kind"])))
    if r["not_delivered"]:
        recs.append({"kind": "gelf_stream_not_delivered", "sink": "gelf", "stage": "gelf_stream", "rounds": r["not_delivered"]})
    info = {k: r[k] for k in ("rounds", "payload_bytes", "first_attempt_timed_out", "first_attempt_partial_bytes_seen", "attempts",
                              "connections", "frames", "n_violations", "violation_kinds")}
    ctx.extra["gelf_stream"] = info
    ctx.evaluations += r["frames"]
    ctx.traces_validated += r["rounds"]
    if r["first_attempt_timed_out"]:
        ctx.nontrivial.add(("gelf_stream", "write timed out part-way, batch retried"))
    vlib.log("C19 gelf stream: rounds=%d payload=%d bytes first attempt timed out=%d (partial bytes seen on its connection=%d) "
             "attempts=%d connections=%d frames=%d violations=%s" % (r["rounds"], r["payload_bytes"], r["first_attempt_timed_out"],
             r["first_attempt_partial_bytes_seen"], r["attempts"], r["connections"], r["frames"], r["violation_kinds"]))
    ctx.assumptions.append("gelf stream framing: the partial write is constructed with a stalled receiver (64 KiB receive buffer) and a "
                           "payload of 1.5 x tcp_wmem max + 1 MiB; whether the first write really timed out is measured (evidence: gelf_stream)")


def run(ctx):
    quick = ctx.tier == "quick"
    preload_findings()
    # ---------------------------------------------------------------- 1. TLC
    only = os.environ.get("VERIF_C19_SINKS")                      # development aid: restrict the sinks
    sinks = [s for s in SINKS if not only or s in only.split(",")]
    ctx.overlay_json()
    pool = concurrent.futures.ThreadPoolExecutor(max_workers=6)
    # the Go builds and the small TLC runs go on in the background while the big TLC run enumerates the cases
    md = os.path.join(ctx.scratch, "gomod")                       # go_test_build creates it lazily: not thread-safe
    if not os.path.isdir(md):
        os.makedirs(md)
        for f in ("go.mod", "go.sum"):
            shutil.copy(os.path.join(vlib.REPO, f), md)
    build_f = {s: pool.submit(ctx.go_test_build, PKG[s]) for s in sinks}
    bg = vlib.Ctx.__new__(vlib.Ctx)                                # own run counter / run list, same scratch
    bg.__dict__.update(ctx.__dict__)
    bg._n, bg.tlc_runs = 1000, []

    side_results = {}

    def side_runs():
        # strict statement: must fail with the deviation, must hold without it
        r = bg.tlc("OutputPayload", "OutputPayload_strict.cfg", deadlock=False, timeout=2700, workers=4,
                   name="strict SplitCovers, D14 on")
        if r.ok or r.violated != "SplitCovers":
            raise vlib.Infra("strict SplitCovers with D14 on: expected a SplitCovers counterexample, got ok=%s violated=%s"
                             % (r.ok, r.violated))
        r = bg.tlc("OutputPayload", "OutputPayload_strict.cfg", deadlock=False, timeout=2700, workers=4,
                   overrides={"D14_SingleTooLargeAborts": "FALSE"}, name="strict SplitCovers, D14 off (ideal)")
        if not r.ok:
            raise vlib.Infra("strict SplitCovers with D14 off should hold: %s\n%s" % (r.violated, r.out[-2000:]))
        # spec mutants: each mechanism switch turned off must break an invariant
        mutants = {}
        t = bg.tlc("OutputTransport", "OutputTransport_quick.cfg", deadlock=False, timeout=1800, workers=2,
                   name="OutputTransport: the body that reaches a sink is the payload, whatever endpoints failed, gzip or not")
        if not t.ok:
            raise vlib.Infra("OutputTransport should hold: %s" % t.violated)
        tm = bg.tlc("OutputTransport", "OutputTransport_quick.cfg", deadlock=False, timeout=1800, workers=2,
                    overrides={"M_BodyBuiltOncePerAttempt": "FALSE"}, name="mutant M_BodyBuiltOncePerAttempt off")
        if tm.ok or tm.violated != "BodyIsPayload":
            raise vlib.Infra("spec mutant M_BodyBuiltOncePerAttempt=FALSE is not rejected by BodyIsPayload")
        for sw in ("M_ResetBegin", "M_ResetBuf", "M_SkipParent", "M_ReencodeAfterGiveUp", "M_TopicPerEvent"):
            m = bg.tlc("OutputPayload", "OutputPayload_mut.cfg", deadlock=False, timeout=2700, workers=4,
                       overrides={sw: "FALSE"}, name="mutant %s off" % sw)
            if m.ok or m.kind != "invariant":
                raise vlib.Infra("spec mutant %s=FALSE is not detected by the invariants (ok=%s, %s)" % (sw, m.ok, m.violated))
            mutants[sw] = m.violated
        # the file sink under concurrency (two workers, seal-up): holds as coded, and the chunked write with the lock
        # released per chunk is rejected both with two workers and with a seal-up
        r = bg.tlc("OutputFileSink", "OutputFileSink_quick.cfg" if quick else "OutputFileSink_thorough.cfg", deadlock=False,
                   timeout=2700, workers=4, name="OutputFileSink: one append per batch under the lock")
        if not r.ok:
            raise vlib.Infra("OutputFileSink should hold: %s\n%s" % (r.violated, r.out[-2000:]))
        for cfg in ("OutputFileSink_mut_workers.cfg", "OutputFileSink_mut_seal.cfg"):
            m = bg.tlc("OutputFileSink", cfg, deadlock=False, timeout=1800, workers=2,
                       overrides={"M_BatchWrittenUnderOneLock": "FALSE"}, name="mutant M_BatchWrittenUnderOneLock off (%s)" % cfg)
            if m.ok or m.kind != "invariant":
                raise vlib.Infra("spec mutant M_BatchWrittenUnderOneLock=FALSE (%s) is not rejected" % cfg)
            mutants["M_BatchWrittenUnderOneLock/" + cfg[len("OutputFileSink_mut_"):-4]] = m.violated
        # the connection-oriented sink: whole frames per connection, the connection abandoned after a failed / partial write
        r = bg.tlc("OutputStreamSink", "OutputStreamSink_quick.cfg" if quick else "OutputStreamSink_thorough.cfg", deadlock=False,
                   timeout=2700, workers=4, name="OutputStreamSink: a connection carries whole frames")
        if not r.ok:
            raise vlib.Infra("OutputStreamSink should hold: %s\n%s" % (r.violated, r.out[-2000:]))
        m = bg.tlc("OutputStreamSink", "OutputStreamSink_quick.cfg", deadlock=False, timeout=1800, workers=2,
                   overrides={"M_ReconnectAfterFailedWrite": "FALSE"}, name="mutant M_ReconnectAfterFailedWrite off")
        if m.ok or m.kind != "invariant":
            raise vlib.Infra("spec mutant M_ReconnectAfterFailedWrite=FALSE is not rejected")
        mutants["M_ReconnectAfterFailedWrite"] = m.violated
        mutants["M_BodyBuiltOncePerAttempt"] = tm.violated
        g = bg.tlc("GelfFieldName", "GelfFieldName_quick.cfg" if quick else "GelfFieldName_thorough.cfg", deadlock=False, timeout=2700,
                   workers=4, name="GelfFieldName: formatExtraField over name alphabets")
        if not g.ok:
            raise vlib.Infra("GelfFieldName should hold: %s\n%s" % (g.violated, g.out[-1500:]))
        side_results["gelf_names"] = g.printed
        gm = bg.tlc("GelfFieldName", "GelfFieldName_mut.cfg", deadlock=False, timeout=1800, workers=2,
                    overrides={"M_NameBytesAsciiOnly": "FALSE"}, name="mutant M_NameBytesAsciiOnly off")
        if gm.ok or gm.kind != "invariant":
            raise vlib.Infra("spec mutant M_NameBytesAsciiOnly=FALSE is not rejected")
        mutants["M_NameBytesAsciiOnly"] = gm.violated
        a = bg.tlc("EsActionLine", "EsActionLine_quick.cfg" if quick else "EsActionLine_thorough.cfg", deadlock=False, timeout=900,
                   workers=4, name="EsActionLine: every action line from its own event's values of all listed fields")
        if not a.ok:
            raise vlib.Infra("EsActionLine should hold: %s\n%s" % (a.violated, a.out[-1500:]))
        side_results["es_action_lines"] = a.printed
        am = bg.tlc("EsActionLine", "EsActionLine_mut.cfg", deadlock=False, timeout=600, workers=2,
                    overrides={"M_ActionLinePerEvent": "FALSE"}, name="mutant M_ActionLinePerEvent off")
        if am.ok or am.violated != "RoutingOwn":
            raise vlib.Infra("spec mutant M_ActionLinePerEvent=FALSE is not rejected by RoutingOwn")
        mutants["M_ActionLinePerEvent"] = am.violated
        return mutants
    side_f = pool.submit(side_runs)

    cfg = "OutputPayload_quick.cfg" if quick else "OutputPayload_thorough.cfg"
    res = ctx.tlc_expect_ok("OutputPayload", cfg, timeout=2700 if quick else 2400, deadlock=False, workers=12,
                            name="faithful (D14 on), all invariants, export")
    cases = res.printed
    if len(cases) < 1000:
        raise vlib.Infra("TLC exported only %d cases" % len(cases))
    total = len(cases)
    ctx.extra["spec_mutants_violate"] = side_f.result()
    ctx.tlc_runs += bg.tlc_runs

    # ---------------------------------------------------------------- 2. cases per sink
    cases.sort(key=lambda c: json.dumps(c, sort_keys=True))       # TLC prints in a nondeterministic order
    replay_recs = json.load(open(ctx.replay)) if ctx.replay else None
    def select(sink):
        """the cases of one sink (all applicable ones, or the seeded quick sample) with their event content"""
        rng = random.Random("%d/%s" % (ctx.seed, sink))           # per sink, so that a replay reproduces it
        sel = [c for c in cases if takes(sink, c)]
        if quick:
            n = QUICK_N.get(sink, QUICK_DEFAULT_N)
            if len(sel) > n:
                # a fifth of the sample from the fault family (a batch given up after exhausted retries, more follow)
                # and, where routing is per event, a fifth from the routing family
                flt = [c for c in sel if is_fault(c) and not c["fail"][-1]]
                rtg = [c for c in sel if is_routing(c)] if sink in ROUTE_SINKS else []
                rest = [c for c in sel if not (is_fault(c) and not c["fail"][-1]) and not (rtg and is_routing(c))]
                nf, nr = min(len(flt), n // 5), min(len(rtg), n // 5)
                sel = rng.sample(flt, nf) + (rng.sample(rtg, nr) if nr else []) + rng.sample(rest, min(len(rest), n - nf - nr))
        out = []
        for n, c in enumerate(sel):
            c = json.loads(json.dumps(c))
            c["n"] = n
            c["variant"] = "raw" if sink == "http" and rng.random() < 0.3 else ""
            # transport dimensions (specs/OutputTransport.tla): use_gzip, and dead endpoints next to the live one. Only for
            # batches that are one request (no 413 pattern, no scripted 5xx): a transport error restarts the whole attempt
            c["gzip"], c["dead"] = False, 0
            if sink in GZIP_SINKS and not is_fault(c) and all(len(pt) == 0 for pt in c["pats"]) and rng.random() < 0.2:
                c["gzip"] = rng.random() < 0.7
                c["dead"] = rng.choice([1, 1, 2]) if sink in ENDPOINT_SINKS else 0
            esc_case = rng.random() < 0.2
            for b in c["batches"]:
                for e in b:
                    rt = e.get("route", "any")
                    if rt == "none":
                        e["val"] = rng.choice([1, 2])                 # routing field absent / empty
                    elif rt == "a":
                        e["val"] = 0
                    elif rt == "b":
                        e["val"] = rng.choice([5, 6, 7, 8, 9] if esc_case else [3, 4])
                    else:
                        e["val"] = rng.choice(ALL_VALS if esc_case else SAFE_VALS)
            out.append(c)
        return out


    per_sink = {}
    if replay_recs is not None:
        by_shape = {shape_key(c): c for c in cases}
        for sink in sinks:
            mine = [v for v in replay_recs if v.get("sink") == sink]
            if any("case" not in v for v in mine):                # a crash of the harness process: no case attribution
                per_sink[sink] = select(sink)
                continue
            out, seen = [], set()
            for v in mine:
                full = json.dumps(v["case"], sort_keys=True)
                if full in seen or shape_key(v["case"]) not in by_shape:
                    continue
                seen.add(full)
                c = json.loads(json.dumps(by_shape[shape_key(v["case"])]))
                c["batches"] = v["case"]["batches"]               # with the recorded value classes
                c["variant"] = v["case"].get("variant", "")
                c["dq"] = v["case"].get("dq", False)
                c["gzip"], c["dead"] = v["case"].get("gzip", False), v["case"].get("dead", 0)
                c["n"] = len(out)
                out.append(c)
            per_sink[sink] = out
    else:
        for sink in sinks:
            per_sink[sink] = select(sink)

    # ---------------------------------------------------------------- 3. build + run the real plugins
    active = [s for s in sinks if per_sink[s]]
    bins = {s: build_f[s].result() for s in sinks}
    pool.shutdown()

    recs = []
    per_sink_stats = {}
    drift = 0
    for sink in active:
        sel = per_sink[sink]
        path = os.path.join(ctx.scratch, "c19_%s_cases.ndjson" % sink)
        with open(path, "w") as f:
            for c in sel:
                f.write(json.dumps({"n": c["n"], "variant": c.get("variant", ""), "split": c["split"],
                                    "batches": c["batches"], "pats": c["pats"], "gzip": c.get("gzip", False), "dead": c.get("dead", 0),
                                    "fail": c.get("fail") or [False] * len(c["batches"]), "dq": c.get("dq", False)}) + "\n")
        outp = os.path.join(ctx.scratch, "c19_%s_out.ndjson" % sink)
        rc, txt = ctx.run_bin(bins[sink], "^TestVerifC19$", env={"VERIF_CASES": path, "VERIF_OUT": outp, "LOG_LEVEL": "error"}, timeout=7200)
        if rc != 0:
            if "panic:" in txt and ("plugin/output/" in txt or "pipeline/batch" in txt):
                i = txt.index("panic:")
                recs.append({"kind": "panic", "sink": sink, "panic": txt[i:i + 600]})
                per_sink_stats[sink] = {"cases": 0, "batches": 0, "crashed": True}
                continue
            raise vlib.Infra("C19 %s harness failed rc=%s:\n%s" % (sink, rc, txt[-3000:]))
        results = {}
        if os.path.exists(outp):
            for line in open(outp):
                r = json.loads(line)
                results[r["n"]] = r
        if len(results) != len(sel):
            raise vlib.Infra("C19 %s harness executed %d of %d cases:\n%s" % (sink, len(results), len(sel), txt[-2000:]))
        nb = 0
        for c in sel:
            r = results[c["n"]]
            rr, n = judge(sink, c, r)
            nb += n
            recs += rr
            k = nontrivial_key(sink, c)
            if k is not None:
                ctx.nontrivial.add(k)
            if sink == "elasticsearch" and not rr and not r.get("panic"):
                real = [[[q["ids"], q["ok"], q.get("st")] for q in b["reqs"]] for b in r["batches"]]
                model = [[[q["ids"], q["ok"], q["st"]] for q in b] for b in c["model"]]
                if real != model:
                    drift += 1
                    if drift <= 3:
                        vlib.log("MODEL-DRIFT: elasticsearch request sequence differs from the transcription (property held): "
                                 "case=%s real=%s model=%s" % (json.dumps(compact(c)), real, model))
        per_sink_stats[sink] = {"cases": len(sel), "batches": nb}
        if sink in ENDPOINT_SINKS and replay_recs is None:
            with_dead = [c for c in sel if c.get("dead")]
            hits = sum(results[c["n"]].get("dead_hits", 0) for c in with_dead)
            hit_cases = sum(1 for c in with_dead if results[c["n"]].get("dead_hits", 0) > 0)
            per_sink_stats[sink].update({"cases_with_dead_endpoints": len(with_dead), "cases_that_hit_a_dead_endpoint": hit_cases,
                                         "connections_to_dead_endpoints": hits,
                                         "gzip_cases": sum(1 for c in sel if c.get("gzip"))})
            if len(with_dead) >= 20 and hit_cases * 4 < len(with_dead):
                raise vlib.Infra("C19 %s: only %d of %d cases with dead endpoints ever reached a dead endpoint: the transport "
                                 "dimension was not exercised" % (sink, hit_cases, len(with_dead)))
            if hit_cases:
                ctx.nontrivial.add((sink, "transport", "a dead endpoint was tried before the live one"))
        ctx.traces_validated += len(sel)
        ctx.evaluations += nb
        if sel:
            ctx.sample({"sink": sink, "case": compact(sel[0]), "expected": sel[0]["exp"],
                        "observed": [[q["ids"] for q in b["reqs"]] for b in results[sel[0]["n"]]["batches"]]}, limit=7)
        vlib.log("C19 %-13s cases=%d batches=%d" % (sink, len(sel), nb))
    ctx.drift = drift
    ctx.extra["per_sink"] = per_sink_stats
    ctx.exhaustive = (not quick) and replay_recs is None
    ctx.rule = ("case = (split_batch, <=3 successive batches of shrinking size through one worker, per event kind in "
                "{regular, child, parent} and size class, monotone 413 pattern as an antichain of minimal rejected id sets), "
                "enumerated exhaustively by TLC (%d cases); replayed on the real plugins (%s): %s; evaluations = batches whose "
                "captured bodies were parsed and compared. Non-trivial = distinct (sink, case shape) with buffer reuse across "
                "batches, a parent event to omit, or a non-empty 413 pattern."
                % (total, ", ".join(active), "every applicable case" if ctx.exhaustive else "a seeded sample per sink"))
    ctx.assumptions += [
        "one batcher worker (workers_count=1); batches are sealed deterministically through batch_size_bytes",
        "valid JSON is judged structurally (encoding/json); invalid UTF-8 inside a string is accepted",
        "http encoding.type=raw (30% of the http cases): an event without the encoded field has nothing to deliver and its empty line is tolerated",
        "fault family (elasticsearch, http, splunk, loki, kafka): one batch of the case is answered 5xx (kafka: produce error) on every attempt, retry=1, retention=1ms, fatal_on_failed_insert off, with and without a dead queue (a stand-in output); the given-up batch is a configured drop, the batches after it must be delivered exactly once with no byte of the given-up one",
        "routing per event (kafka topic incl. 'still intact after the committed events' buffers were overwritten', elasticsearch _index, splunk copy_fields target, gelf host) is compared with the event's own value / the sink default; the elasticsearch index is compared only when the action line is valid JSON (values needing escaping are the known finding)",
        "transport (elasticsearch, http: 1-2 dead endpoints that accept and reset the connection + the live one; elasticsearch, http, splunk: use_gzip) on about a third of the one-request cases; the sink decodes all gzip members; that dead endpoints were really tried is measured (per_sink.*.cases_that_hit_a_dead_endpoint) and asserted",
        "the 413 clause is checked for elasticsearch only (as stated); only 413 answers are scripted, no other errors",
        "gzip off; byte-level escaping is checked only through 'parses back to the same JSON document'",
        "clickhouse / postgres / s3 / socket / stdout outputs are not covered",
    ]
    if "file" in bins:
        file_sink_concurrency(ctx, bins["file"], recs)
    if "elasticsearch" in bins:
        es_action_lines(ctx, bins["elasticsearch"], recs, side_results.get("es_action_lines") or [])
    if "gelf" in bins:
        gelf_stream(ctx, bins["gelf"], recs)
        gelf_names(ctx, bins["gelf"], recs, side_results.get("gelf_names") or [])
    ctx.classify(recs)
    import c19_pipeline
    c19_pipeline.stage(ctx)      # pipeline side: Batch.ForEach yields exactly the deliverable events (recycled event objects, split)
