"""C07 -- the file input's offsets file is always a loadable snapshot, never ahead of commits.

Pipeline (see DESIGN.md section 6 C07, specs/OffsetsFile.tla, OffsetsFormat.tla, OffsetsFileTrace.tla):

 1. TLC, design level (run in parallel):
      OffsetsFile   faithful (the code as it is now: D6 repaired by f12db3f, D7 by 5cb7036; every fault, every crash
                              view)                                                   must PASS, exports schedules
                    mutants  D_RenameAfterFailedStep (file), D_NoFsync (generic) = the code before the repairs:
                              TLC MUST reject them (mechanisms "no rename after a failed step", "fsync before
                              rename" shown necessary); the counterexample's fault schedule is among the replayed ones
      OffsetsFormat residual + ModelD8 must PASS (exports every job table), faithful must be VIOLATED (D8, still open)
 2. (R) round trip: every exported job table is written by the real offsetDB.save and read by the real
    offsetDB.load of a fresh offsetDB; expectation = the table itself.
 3. (T) every exported schedule (commits between saves, failing steps per save) is executed by the real code
    under strace; failing steps are injected with `strace -e inject=<syscall>:error=EIO:when=N` (N found by a
    dry run, the hit verified afterwards).  Same for offset.SaveYAML (generic site).
 4. The system-call traces are replayed by TLC through OffsetsFileTrace.tla: protocol monitors
    (FailedStepKeepsOld, DurableBeforeReplace), conformance to the modelled protocol (MODEL-DRIFT when the code
    no longer follows it), and, after every system call, the set of inodes/contents the offsets file may have
    now or after a crash at that instant.
 5. Every such content (all byte prefixes the crash semantics allows) is materialised and loaded by the real
    load() (resp. LoadYAML); it must load, job by job, to a vector that job held at some earlier moment
    (AlwaysLoadable, NeverAhead).
 6. Concurrency: saves concurrent with real jobProvider.commit calls while readers keep loading the file.

Verdicts come only from real-code observations; records matching known_findings(.d) are KNOWN-FINDINGs.
"""
import concurrent.futures
import copy
import json
import os
import re
import subprocess

import vlib

LEVEL = "model_checking"

SITE_NAME = {"file": "offsetDB.save", "generic": "offset.Save"}
SYSCALLS = "openat,write,fsync,fdatasync,rename,renameat,renameat2,close,unlink,unlinkat"
SYMS = {1: b"a", 2: b":", 3: b" ", 4: b"\n", 5: b"-", 6: "\u00e9".encode()}


def sym_bytes(name):
    """name symbols of OffsetsFormat.tla -> bytes: 1..6 are the structural symbols, anything above 6 is the byte itself"""
    return b"".join(SYMS.get(x, bytes([x])) if x <= 6 else bytes([x]) for x in name)


NUMS = {0: 0, 1: 1, 2: 2, 63: 2 ** 63 - 1, 64: 2 ** 64 - 1}


def hx(b):
    return b.hex()


# ----------------------------------------------------------------------------------------------- TLC, design level
def par_tlc(ctx, jobs):
    """jobs: list of dict(key, module, cfg, overrides, expect in {'ok','violated'}, timeout).  Runs them in
    parallel on private sub-contexts (vlib.Ctx.tlc is not re-entrant on one context)."""
    def one(i, job):
        sub = copy.copy(ctx)
        sub.scratch = os.path.join(ctx.scratch, "par%d" % i)
        os.makedirs(sub.scratch, exist_ok=True)
        sub.tlc_runs, sub._n = [], 0
        res = sub.tlc(job["module"], job["cfg"], overrides=job.get("overrides"), deadlock=False, check=True,
                      workers=job.get("workers", 4), timeout=job.get("timeout", 900), name=job["key"])
        return job, res, sub.tlc_runs
    out = {}
    with concurrent.futures.ThreadPoolExecutor(max_workers=len(jobs)) as ex:
        futs = [ex.submit(one, i, j) for i, j in enumerate(jobs)]
        for f in futs:
            job, res, runs = f.result()
            ctx.tlc_runs += runs
            if job["expect"] == "ok":
                if not res.ok:
                    raise vlib.Infra("design-level check %s failed: %s (%s)\n%s" % (job["key"], res.violated, res.kind, res.out[-3000:]))
                ctx.states += res.distinct
                ctx.transitions += res.generated
            else:
                if res.ok or res.kind != "invariant" or res.violated not in job["violates"]:
                    raise vlib.Infra("configuration %s did not produce the expected counterexample "
                                     "(ok=%s violated=%s): the mutant / deviation switch no longer bites\n%s"
                                     % (job["key"], res.ok, res.violated, res.out[-2000:]))
            out[job["key"]] = res
    return out


def cex_failed_steps(res):
    """the failing steps of the save in the last state of a TLC counterexample (variable sfail / failed)"""
    if not res.trace:
        return set()
    st = res.trace[-1][1]
    return set(re.findall(r'"(\w+)"', st.get("sfail", ""))) | set(re.findall(r'"(\w+)"', st.get("failed", "")))


# ----------------------------------------------------------------------------------------------- scenarios
# end-to-end names carry the bytes a naive writer/parser could trip on: '%' directives, space, ':', quote, '#', braces
FILE_JOBS = {1: {"src": 1, "inode": 1001, "file": b"/var/log/report%20x-usage%d.log"},
             # the same inode as job 1 under another source id: what a symlink to the same file produces
             2: {"src": 2, "inode": 1001, "file": b"/var/log/c07 2 'q' #{x}.log"}}
STREAM_NAME = {1: b"stdout", 2: b"load%:err"}


def init_vec(j, s):
    return 1 if (j == 1 or s == 1) else -1


def file_scenario(sched, sync):
    """TLC schedule -> harness script + python-side bookkeeping."""
    cur = {j: {s: init_vec(j, s) for s in (1, 2)} for j in (1, 2)}
    jobs = []
    for j in (1, 2):
        jobs.append({"src": FILE_JOBS[j]["src"], "inode": FILE_JOBS[j]["inode"], "file": hx(FILE_JOBS[j]["file"]), "ts": 0,
                     "streams": [{"name": hx(STREAM_NAME[s]), "off": cur[j][s]} for s in (1, 2) if cur[j][s] != -1]})
    steps, faults = [], []
    for i, st in enumerate(sched["steps"]):
        if st["op"] == "commit":
            j, s = st["job"], st["stream"]
            cur[j][s] = 1 if cur[j][s] == -1 else cur[j][s] + 1
            steps.append({"op": "commit", "src": FILE_JOBS[j]["src"], "stream": hx(STREAM_NAME[s]), "off": cur[j][s]})
        elif st["op"] == "truncate":
            j = st["job"]
            cur[j] = {s: (-1 if v == -1 else 0) for s, v in cur[j].items()}
            steps.append({"op": "truncate", "src": FILE_JOBS[j]["src"]})
        elif st["op"] == "remove":
            j = st["job"]
            cur[j] = {s: -1 for s in cur[j]}
            steps.append({"op": "remove", "src": FILE_JOBS[j]["src"]})
        else:
            steps.append({"op": "save"})
            for f in sorted(st["fails"]):
                faults.append((i, f))
    return {"site": "file", "sync": sync, "jobs": jobs, "steps": steps, "faults": faults,
            "mayReplace": sched.get("mayReplace")}


def generic_scenario(sched):
    """generic site: a commit changes the caller's state, a save passes the current state to SaveYAML."""
    n = 0
    values = [{"offset": 100, "cursor": "s=c0;i=0000;b=boot0"}]
    steps, faults = [], []
    for st in sched["steps"]:
        if st["op"] == "commit":
            n += 1
        else:
            values.append({"offset": 100 + n, "cursor": "s=c%d;i=%04d;b=boot%d" % (n, n * 7, n)})
            for f in sorted(st["fails"]):
                faults.append((len(values) - 1, f))
            steps.append({"op": "save"})
    return {"site": "generic", "values": values, "faults": faults, "steps": steps, "mayReplace": sched.get("mayReplace")}


def sched_key(s):
    return json.dumps([(st["op"], st["job"], st["stream"], sorted(st["fails"])) for st in s["steps"]])


def fault_shape(s):
    return tuple(tuple(sorted(st["fails"])) for st in s["steps"] if st["op"] == "save")


def pick_schedules(ctx, exported, limit):
    """distinct schedules; keep every distinct fault shape at least once, fill up with a seeded sample"""
    uniq = {}
    for s in exported:
        uniq.setdefault(sched_key(s), s)
    allk = sorted(uniq)
    ctx.rng.shuffle(allk)
    by_shape = {}
    for k in allk:
        by_shape.setdefault(fault_shape(uniq[k]), []).append(k)
    chosen = []
    for shape in sorted(by_shape):
        chosen.append(by_shape[shape][0])
    rest = [k for k in allk if k not in set(chosen)]
    chosen += rest[:max(0, limit - len(chosen))]
    return [uniq[k] for k in chosen], len(uniq), len(by_shape)


# ----------------------------------------------------------------------------------------------- strace
_LINE = re.compile(r"^(\w+)\((.*)\)\s+= (-?\d+|\?)(.*)$")
_STR = re.compile(r'"((?:\\x[0-9a-f]{2})*)"(\.\.\.)?')


class Inconclusive(Exception):
    pass


def unhex_c(s):
    return bytes.fromhex(s.replace("\\x", ""))


def parse_thread_file(path):
    """-> list of dict(name, strs[list of bytes], args(str), ret(int|None), injected(bool), ord(int per name))"""
    out, counts = [], {}
    for raw in open(path, errors="replace"):
        raw = raw.rstrip("\n")
        if raw.startswith("---") or raw.startswith("+++") or not raw:
            continue
        m = _LINE.match(raw)
        if not m:
            if "unfinished" in raw or "resumed" in raw:
                raise Inconclusive("split strace line")
            continue
        name, args, ret, tail = m.group(1), m.group(2), m.group(3), m.group(4)
        strs = []
        for sm in _STR.finditer(args):
            if sm.group(2):
                raise vlib.Infra("strace truncated a string argument (raise -s)")
            strs.append(unhex_c(sm.group(1)))
        counts[name] = counts.get(name, 0) + 1
        first = _STR.sub("S", args).split(",")[0].strip()
        out.append({"name": name, "strs": strs, "args": _STR.sub("S", args), "first": first,
                    "ret": None if ret == "?" else int(ret), "injected": "(INJECTED)" in tail, "ord": counts[name]})
    return out


def run_strace(ctx, binary, test, script_path, workdir, inject):
    """run the harness test under strace -ff; return parsed syscalls of the thread that wrote the markers"""
    for f in os.listdir(workdir):
        if f.startswith("tr.") or f in ("c07.marker",) or f.startswith("offsets.yaml"):
            os.remove(os.path.join(workdir, f))
    cmd = ["strace", "-ff", "-s", "1000000", "-xx", "-e", "trace=" + SYSCALLS]
    for i in inject:
        cmd += ["-e", "inject=" + i]
    cmd += ["-o", os.path.join(workdir, "tr"), binary, "-test.run", "^%s$" % test, "-test.count=1", "-test.timeout", "120s"]
    env = ctx.go_env({"VERIF_C07_SCRIPT": script_path, "LOG_LEVEL": "fatal"})
    p = subprocess.run(cmd, cwd=workdir, env=env, stdout=subprocess.PIPE, stderr=subprocess.STDOUT, text=True,
                       errors="replace", timeout=900)
    marker = os.path.join(workdir, "c07.marker").encode()
    for f in sorted(os.listdir(workdir)):
        if not f.startswith("tr."):
            continue
        txt = open(os.path.join(workdir, f), errors="replace").read()
        if "".join("\\x%02x" % b for b in marker) in txt:
            return p.returncode, p.stdout, parse_thread_file(os.path.join(workdir, f))
    raise Inconclusive("no thread wrote the marker file (rc=%s): %s" % (p.returncode, p.stdout[-500:]))


def analyse(calls, workdir):
    """split the scenario thread's syscalls into set-up and observed part; classify paths; build events.
    -> dict(events, windows, init, payloads, injected)"""
    cur = os.path.join(workdir, "offsets.yaml").encode()
    marker = os.path.join(workdir, "c07.marker").encode()
    fdpath, tmpnames, payloads = {}, {}, {}
    events, marks, injected = [], [], []
    started = False
    init = None
    window = None      # (step index) of the currently open begin..end window
    pre = {}           # system calls of this thread before the observed part, by name (thread-local ordinals base)

    def nm(path):
        if path == cur:
            return "cur"
        if path.startswith(cur):
            if path not in tmpnames:
                tmpnames[path] = "t%d" % (len(tmpnames) + 1)
                if len(tmpnames) > 8:
                    raise Inconclusive("more than 8 temp names in one trace")
            return tmpnames[path]
        return None

    def ev(**kw):
        e = {"op": "", "name": "", "name2": "", "fd": 0, "ok": True, "trunc": False, "app": False, "w": 0, "n": 0}
        e.update(kw)
        e["window"] = window
        events.append(e)
        return e

    for c in calls:
        n, ret = c["name"], c["ret"]
        ok = ret is not None and ret >= 0
        if not started:
            pre[n] = pre.get(n, 0) + 1
        if n == "openat" and c["strs"]:
            path = c["strs"][0]
            if ok:
                fdpath[ret] = path
            name = nm(path) if started else None
            wr = any(f in c["args"] for f in ("O_WRONLY", "O_RDWR"))
            if c["injected"]:
                injected.append(("open", c, name))
            if started and name and wr:
                ev(op="open", name=name, fd=ret if ok else 0, ok=ok, trunc="O_TRUNC" in c["args"], app="O_APPEND" in c["args"], call=c)
            continue
        if n in ("write", "fsync", "fdatasync", "close"):
            try:
                fd = int(c["first"])
            except ValueError:
                continue
            path = fdpath.get(fd)
            if n == "close" and ok:
                fdpath.pop(fd, None)
            if path == marker and n == "write" and c["strs"]:
                if not ok:
                    raise Inconclusive("a marker write failed")
                for ln in c["strs"][0].decode().splitlines():
                    parts = ln.split()
                    if parts[0] == "init":
                        started, init = True, bytes.fromhex(parts[1])
                    elif parts[0] in ("commit_begin", "save_begin", "truncate_begin", "remove_begin"):
                        window = int(parts[1])
                        ev(op="begin", mark=parts)
                    elif parts[0] in ("commit_end", "save_end", "truncate_end", "remove_end"):
                        ev(op="end", mark=parts)
                        window = None
                    else:
                        marks.append(parts)
                        ev(op="mark", mark=parts)
                continue
            if c["injected"]:
                injected.append(({"write": "write", "fsync": "sync", "fdatasync": "sync", "close": "close"}[n], c,
                                 nm(path) if (path and started) else None))
            if not started or path is None or nm(path) is None:
                continue
            if n == "write":
                data = c["strs"][0] if c["strs"] else b""
                if ok:
                    wid = len(payloads) + 1
                    payloads[wid] = data[:ret]
                    ev(op="write", fd=fd, ok=True, w=wid, n=ret, call=c)
                else:
                    ev(op="write", fd=fd, ok=False, call=c)
            elif n in ("fsync", "fdatasync"):
                ev(op="fsync", fd=fd, ok=ok, call=c)
            else:
                ev(op="close", fd=fd, ok=ok, call=c)
            continue
        if n in ("rename", "renameat", "renameat2") and len(c["strs"]) >= 2:
            if not started:
                if c["injected"]:
                    injected.append(("rename", c, None))
                continue
            a, b = nm(c["strs"][0]), nm(c["strs"][1])
            if c["injected"]:
                injected.append(("rename", c, a))
            if a or b:
                ev(op="rename", name=a or "t8", name2=b or "t8", ok=ok, call=c)
            continue
        if n in ("unlink", "unlinkat") and c["strs"]:
            if "AT_REMOVEDIR" in c["args"] and not c["injected"]:
                continue      # os.Remove falls back to rmdir after a failed unlink; not a file operation
            a = nm(c["strs"][0]) if started else None
            if c["injected"]:
                injected.append(("unlink", c, a))
            if a:
                ev(op="unlink", name=a, ok=ok, call=c)
    if init is None or not any(e["op"] == "mark" and e["mark"][0] == "done" for e in events):
        raise Inconclusive("scenario did not run to its end")
    payloads[0] = init
    try:
        final_cur = open(cur, "rb").read()
    except FileNotFoundError:
        final_cur = None
    return {"events": events, "payloads": payloads, "injected": injected, "pre": pre, "final_cur": final_cur}


def find_targets(an, faults):
    """faults: [(window index, step)] -> list of (syscall name, thread-local ordinal, window, step)"""
    tg = []
    for (win, step) in faults:
        hit = None
        for e in an["events"]:
            if e["window"] != win or e["op"] in ("begin", "end", "mark"):
                continue
            op = {"open": "open", "write": "write", "fsync": "sync", "rename": "rename", "close": "close", "unlink": "unlink"}.get(e["op"])
            if op == step:
                hit = e["call"]
                break
        if hit is None:
            return None       # the step does not occur in the dry run (e.g. generic site has no fsync)
        tg.append((hit["name"], hit["ord"], win, step))
    return tg


def inject_args(targets):
    by = {}
    for (sc, n, _, _) in targets:
        by.setdefault(sc, []).append(n)
    args = []
    for sc, ns in sorted(by.items()):
        ns = sorted(ns)
        if len(ns) == 1:
            args.append("%s:error=EIO:when=%d" % (sc, ns[0]))
        elif len(ns) == 2:
            args.append("%s:error=EIO:when=%d..%d+%d" % (sc, ns[0], ns[1], ns[1] - ns[0]))
        else:
            return None
    return args


def injected_hits(an):
    return sorted((e["window"], {"fsync": "sync"}.get(e["op"], e["op"])) for e in an["events"]
                  if e.get("call") and e["call"]["injected"])


def run_scenario(ctx, bins, sc, idx):
    """Dry run first; then the faults are added one at a time (an injected failure changes which system calls
    follow, so the ordinal of the next target is read off the run that already contains the earlier faults).
    Every injected run is verified: exactly the intended system calls must carry strace's (INJECTED) mark.
    Returns dict(sc, an, runs) or raises Inconclusive."""
    wd = os.path.join(ctx.scratch, "sc", "%s%d" % (sc["site"], idx))
    os.makedirs(wd, exist_ok=True)
    script = os.path.join(wd, "script.json")
    if sc["site"] == "file":
        json.dump({"dir": wd, "sync": sc["sync"], "jobs": sc["jobs"], "steps": sc["steps"]}, open(script, "w"))
        binary, test = bins["file"], "TestVerifC07Proto"
    else:
        json.dump({"dir": wd, "values": sc["values"]}, open(script, "w"))
        binary, test = bins["generic"], "TestVerifC07OffsetProto"
    faults = sorted(tuple(f) for f in sc["faults"])
    order = {"open": 0, "write": 1, "sync": 2, "unlink": 3, "close": 3 if sc["site"] == "generic" else 5, "rename": 4}
    faults.sort(key=lambda f: (f[0], order[f[1]]))
    runs = [0]

    def attempt(rel_targets, guess, tries=12):
        """rel_targets: [(syscall, ordinal relative to the start of the observed part, window, step)].  strace counts
        per thread, and which thread runs the scenario (hence how many such calls it made before the observed part)
        varies from run to run: inject for the guessed history, and when the run turns out to have had a different
        one, adopt that as the next guess."""
        last = None
        for _ in range(tries):
            inject = inject_args([(nm_, guess.get(nm_, 0) + rel, w, st) for (nm_, rel, w, st) in rel_targets]) if rel_targets else []
            if inject is None:
                return None, guess
            try:
                rc, out, calls = run_strace(ctx, binary, test, script, wd, inject)
                runs[0] += 1
                an = analyse(calls, wd)
            except Inconclusive as e:
                last = e
                continue
            names = {t[0] for t in rel_targets}
            if any(an["pre"].get(k, 0) != guess.get(k, 0) for k in names):
                last = Inconclusive("scenario ran on a thread with a different history")
                guess = dict(an["pre"])
                continue
            return an, guess
        raise last or Inconclusive("no run")

    last = None
    for round_ in range(3):
        try:
            an, guess = attempt([], {})
            guess = dict(an["pre"])
            rel_targets = []
            for n, fault in enumerate(faults):
                tg = find_targets(an, [fault])
                if tg is None:
                    return {"sc": sc, "an": None, "skip": "step %r does not occur" % (fault,), "runs": runs[0]}
                name, ordn, win, step = tg[0]
                rel_targets.append((name, ordn - an["pre"].get(name, 0), win, step))
                an, guess = attempt(rel_targets, guess)
                if an is None:
                    return {"sc": sc, "an": None, "skip": "more than two faults of one system call", "runs": runs[0]}
                stray = [i for i in an["injected"] if i[2] is None]
                if injected_hits(an) != sorted(faults[:n + 1]) or stray:
                    raise Inconclusive("injection hit %r (+%d stray), wanted %r" % (injected_hits(an), len(stray), faults[:n + 1]))
            return {"sc": sc, "an": an, "runs": runs[0]}
        except Inconclusive as e:
            last = e
    raise Inconclusive("%s [site=%s sync=%s faults=%r]" % (last, sc["site"], sc.get("sync"), faults))


# ----------------------------------------------------------------------------------------------- held vectors
def held_timeline(sc, an):
    """per event index k (1-based): version number of the 'held' knowledge; versions: list of (held, current)"""
    if sc["site"] == "file":
        cur = {j["src"]: {s["name"]: s["off"] for s in j["streams"]} for j in sc["jobs"]}
        held = {src: [dict(v)] for src, v in cur.items()}
    else:
        cur = dict(sc["values"][0])
        held = [dict(cur)]
    versions = [(copy.deepcopy(held), copy.deepcopy(cur))]
    at = []
    for e in an["events"]:
        if e["op"] == "begin":
            m = e["mark"]
            if sc["site"] == "file" and m[0] == "commit_begin":
                src, name, off = int(m[2]), m[3], int(m[4])
                cur[src][name] = off
                held[src].append(dict(cur[src]))
                versions.append((copy.deepcopy(held), copy.deepcopy(cur)))
            elif sc["site"] == "file" and m[0] == "truncate_begin":
                src = int(m[2])
                cur[src] = {name: 0 for name in cur[src]}
                held[src].append(dict(cur[src]))
                versions.append((copy.deepcopy(held), copy.deepcopy(cur)))
            elif sc["site"] == "file" and m[0] == "remove_begin":
                src = int(m[2])
                cur[src] = {}          # the job is gone: "no offsets" is a legitimate reading from now on
                held[src].append({})
                versions.append((copy.deepcopy(held), copy.deepcopy(cur)))
            elif sc["site"] == "generic" and m[0] == "save_begin":
                cur = dict(sc["values"][int(m[1])])
                held.append(dict(cur))
                versions.append((copy.deepcopy(held), copy.deepcopy(cur)))
        at.append(len(versions) - 1)
    return versions, at


def judge_file(res, held, cur):
    if res.get("panic"):
        return "load_panic"
    if res.get("err"):
        return "load_error"
    seen = {}
    for l in res["table"]:
        seen[l["src"]] = {kv["name"]: kv["off"] for kv in l["streams"]}
    for src in seen:
        if src not in held:
            return "unknown_source"
    verdict = None
    for src, hs in held.items():
        v = seen.get(src, {})
        for name, off in v.items():
            # beyond everything ever committed for the stream (a truncation lowers the current table)
            if off > max(h.get(name, -1) for h in hs):
                return "ahead_of_commits"
        if v not in hs:
            verdict = "vector_never_held"
    return verdict


def judge_generic(res, held, cur):
    if res.get("panic"):
        return "load_panic"
    if res.get("err"):
        return "load_error"
    v = res["value"]
    if v["offset"] > cur["offset"]:
        return "ahead_of_commits"
    if v not in held:
        return "vector_never_held"
    return None


# ----------------------------------------------------------------------------------------------- main
def run(ctx):
    quick = ctx.tier == "quick"
    recs = []

    # ---------------------------------------------------------------- 1. design level
    fcfg = "OffsetsFile_quick.cfg" if quick else "OffsetsFile_thorough.cfg"
    mcfg = "OffsetsFormat_quick.cfg" if quick else "OffsetsFormat_thorough.cfg"
    gen = {"Site": '"generic"', "NJobs": "1", "NStreams": "1", "MaxCommits": "3", "MaxSaves": "3"}
    noexp = {"DoExport": "FALSE"}
    jobs = [
        {"key": "file/faithful", "module": "OffsetsFile", "cfg": fcfg, "expect": "ok", "workers": 6, "timeout": 1500},
        {"key": "file/mutant(D_RenameAfterFailedStep)", "module": "OffsetsFile", "cfg": fcfg,
         "overrides": dict(noexp, D_RenameAfterFailedStep="TRUE"), "expect": "violated",
         "violates": ("FailedStepKeepsOld", "DurableBeforeReplace", "AlwaysLoadable"), "workers": 2},
        {"key": "file/mutant(M_ZeroOffsetsWritten=FALSE)", "module": "OffsetsFile", "cfg": fcfg,
         "overrides": dict(noexp, M_ZeroOffsetsWritten="FALSE"), "expect": "violated",
         "violates": ("AlwaysLoadable",), "workers": 2},
        {"key": "file/mutant(M_TmpStartsEmpty=FALSE)", "module": "OffsetsFile", "cfg": "OffsetsFile_quick.cfg",
         "overrides": dict(noexp, M_TmpStartsEmpty="FALSE"), "expect": "violated",
         "violates": ("AlwaysLoadable",), "workers": 3},
        # ORDER of the steps (M_SyncBeforeRename): the mutant "rename, then fsync" must be rejected by each of the two properties,
        # for both savers
        {"key": "file/mutant(rename-then-fsync)/DurableBeforeReplace", "module": "OffsetsFile", "cfg": "OffsetsFile_order_dbr.cfg",
         "expect": "violated", "violates": ("DurableBeforeReplace",), "workers": 2},
        {"key": "file/mutant(rename-then-fsync)/FailedStepKeepsOld", "module": "OffsetsFile", "cfg": "OffsetsFile_order_fsk.cfg",
         "expect": "violated", "violates": ("FailedStepKeepsOld",), "workers": 2},
        {"key": "generic/mutant(rename-then-fsync)/DurableBeforeReplace", "module": "OffsetsFile", "cfg": "OffsetsFile_order_dbr.cfg",
         "overrides": gen, "expect": "violated", "violates": ("DurableBeforeReplace",), "workers": 2},
        {"key": "generic/mutant(rename-then-fsync)/FailedStepKeepsOld", "module": "OffsetsFile", "cfg": "OffsetsFile_order_fsk.cfg",
         "overrides": gen, "expect": "violated", "violates": ("FailedStepKeepsOld",), "workers": 2},
        {"key": "generic/faithful", "module": "OffsetsFile", "cfg": "OffsetsFile_quick.cfg", "overrides": gen, "expect": "ok", "workers": 2},
        {"key": "generic/mutant(D_NoFsync)", "module": "OffsetsFile", "cfg": "OffsetsFile_quick.cfg",
         "overrides": dict(gen, D_NoFsync="TRUE", **noexp), "expect": "violated",
         "violates": ("DurableBeforeReplace", "AlwaysLoadable"), "workers": 2},
        # one writer per offsets file (the start-up guard of Plugin.Start)
        {"key": "owner/faithful", "module": "OffsetsOwner", "cfg": "OffsetsOwner_quick.cfg", "expect": "ok", "workers": 2},
        {"key": "owner/mutant(M_OneWriterPerFile=FALSE)", "module": "OffsetsOwner", "cfg": "OffsetsOwner_mutant.cfg",
         "expect": "violated", "violates": ("RoundTripOwn", "NeverForeign"), "workers": 2},
        {"key": "format/residual", "module": "OffsetsFormat", "cfg": mcfg, "expect": "ok", "workers": 4},
        {"key": "format/mutant(M_ZeroOffsetsWritten=FALSE)", "module": "OffsetsFormat", "cfg": "OffsetsFormat_mutant.cfg",
         "expect": "violated", "violates": ("R_RoundTrip",), "workers": 2},
        {"key": "format/mutant(M_NamesVerbatim=FALSE)", "module": "OffsetsFormat", "cfg": "OffsetsFormat_mutant.cfg",
         "overrides": {"M_ZeroOffsetsWritten": "TRUE", "M_NamesVerbatim": "FALSE"},
         "expect": "violated", "violates": ("R_RoundTrip",), "workers": 2},
        {"key": "format/mutant(M_KeyIsSourceId=FALSE)", "module": "OffsetsFormat", "cfg": "OffsetsFormat_mutant.cfg",
         "overrides": {"M_ZeroOffsetsWritten": "TRUE", "M_KeyIsSourceId": "FALSE"},
         "expect": "violated", "violates": ("R_RoundTrip",), "workers": 2},
        {"key": "format/faithful(D8)", "module": "OffsetsFormat", "cfg": "OffsetsFormat_quick.cfg",
         "overrides": {"Unconditional": "TRUE"}, "expect": "violated", "violates": ("RoundTrip",), "workers": 2},
    ]
    tl = par_tlc(ctx, jobs)
    file_sched = [p for p in tl["file/faithful"].printed if p.get("site") == "file"]
    gen_sched = [p for p in tl["generic/faithful"].printed if p.get("site") == "generic"]
    tables = [p for p in tl["format/residual"].printed if "jobs" in p]
    if len(file_sched) < 100 or len(gen_sched) < 20 or len(tables) < 1000:
        raise vlib.Infra("TLC exported too little: %d file schedules, %d generic schedules, %d tables"
                         % (len(file_sched), len(gen_sched), len(tables)))
    d6_steps = cex_failed_steps(tl["file/mutant(D_RenameAfterFailedStep)"]) & {"open", "write", "sync"}
    vlib.log("TLC: %d schedules (file), %d (generic), %d tables; both protocol mutants rejected (file mutant via a failed %s); "
             "format counterexample D8" % (len(file_sched), len(gen_sched), len(tables), "/".join(sorted(d6_steps)) or "?"))

    # ---------------------------------------------------------------- 2. build
    bins = {"file": ctx.go_test_build("plugin/input/file"), "generic": ctx.go_test_build("offset")}

    # ---------------------------------------------------------------- 3. round trip (R)
    rt_in = os.path.join(ctx.scratch, "c07_tables.ndjson")
    with open(rt_in, "w") as f:
        for i, tb in enumerate(tables):
            jl = []
            for j in tb["jobs"]:
                jl.append({"src": NUMS[j["src"]], "inode": NUMS[j["inode"]], "file": hx(sym_bytes(j["file"])), "ts": 0,
                           "streams": [{"name": hx(sym_bytes(s["name"])), "off": NUMS[s["off"]]} for s in j["streams"]]})
            tb["_go"] = jl
            f.write(json.dumps({"id": i, "jobs": jl}) + "\n")
    rt_out = os.path.join(ctx.scratch, "c07_rt_out.json")
    rc, txt = ctx.run_bin(bins["file"], "^TestVerifC07RoundTrip$", env={"VERIF_CASES": rt_in, "VERIF_OUT": rt_out, "LOG_LEVEL": "fatal"},
                          timeout=4500)
    if rc != 0 or not os.path.exists(rt_out):
        raise vlib.Infra("round-trip harness failed rc=%s:\n%s" % (rc, txt[-3000:]))
    rt = json.load(open(rt_out))
    if rt["executed"] != len(tables):
        raise vlib.Infra("round-trip harness executed %d of %d tables" % (rt["executed"], len(tables)))
    rt_bad = rt_drift = 0
    for i, (tb, r) in enumerate(zip(tables, rt["results"])):
        want = {}
        for j in tb["_go"]:
            if j["streams"]:
                want[j["src"]] = {s["name"]: s["off"] for s in j["streams"]}
        got = {l["src"]: {kv["name"]: kv["off"] for kv in l["streams"]} for l in r["table"]}
        failed = bool(r.get("err") or r.get("panic"))
        ok = not failed and got == want
        if ok != tb["model_ok"]:
            rt_drift += 1
        if ok:
            continue
        rt_bad += 1
        snames = [s["name"] for j in tb["jobs"] for s in j["streams"]]
        cls = []
        if any(len(n) == 0 for n in snames):
            cls.append("empty")
        if any(4 in n for n in snames):
            cls.append("newline")
        fcls = "newline" if any(4 in j["file"] and j["streams"] for j in tb["jobs"]) else "plain"
        recs.append({"kind": "unloadable_snapshot" if failed else "roundtrip_mismatch",
                     "stream_name_class": "+".join(cls) or "plain", "file_name_class": fcls,
                     "error": (r.get("err") or r.get("panic") or "")[:200], "table": tb["_go"],
                     "written": rt["written"][i], "want": want, "got": got})
    if rt_drift:
        ctx.drift += 1
        vlib.log("MODEL-DRIFT: the transcribed parser (OffsetsFormat.tla) predicts a different outcome than the real "
                 "save/load for %d of %d tables" % (rt_drift, len(tables)))
    vlib.log("round trip: %d tables through the real save+load, %d do not come back" % (len(tables), rt_bad))

    # ---------------------------------------------------------------- 3b. offset-0 family: truncateJob + commit + save + fresh load
    seq_scheds = {}
    for sch in file_sched:
        if any(st["op"] in ("truncate", "remove") for st in sch["steps"]):
            k = json.dumps([(st["op"], st["job"], st["stream"]) for st in sch["steps"]])
            seq_scheds.setdefault(k, sch)
    if len(seq_scheds) < 20:
        raise vlib.Infra("TLC exported only %d schedules with a truncation" % len(seq_scheds))
    seq_cases = []
    for k in sorted(seq_scheds):
        for sync in (False, True):
            sc = file_scenario(seq_scheds[k], sync)
            sc["id"] = len(seq_cases)
            seq_cases.append(sc)
    sq_in = os.path.join(ctx.scratch, "c07_seq.ndjson")
    with open(sq_in, "w") as f:
        for sc in seq_cases:
            f.write(json.dumps({"id": sc["id"], "sync": sc["sync"], "jobs": sc["jobs"], "steps": sc["steps"]}) + "\n")
    sq_out = os.path.join(ctx.scratch, "c07_seq_out.json")
    rc, txt = ctx.run_bin(bins["file"], "^TestVerifC07Seq$", env={"VERIF_CASES": sq_in, "VERIF_OUT": sq_out, "LOG_LEVEL": "fatal"}, timeout=4500)
    if rc != 0 or not os.path.exists(sq_out):
        raise vlib.Infra("sequence harness failed rc=%s:\n%s" % (rc, txt[-3000:]))
    sq = json.load(open(sq_out))
    if sq["executed"] != len(seq_cases):
        raise vlib.Infra("sequence harness executed %d of %d cases" % (sq["executed"], len(seq_cases)))
    seq_loads = seq_zero = 0
    for sc, r in zip(seq_cases, sq["results"]):
        if r.get("panic"):
            recs.append({"kind": "panic_in_sequence", "panic": r["panic"][:300], "sync_mode": sc["sync"], "scenario": sc})
            continue
        # replay the bookkeeping: vectors held by each job after each step
        cur = {j["src"]: {x["name"]: x["off"] for x in j["streams"]} for j in sc["jobs"]}
        held = {src: [dict(v)] for src, v in cur.items()}
        after = []
        for st in sc["steps"]:
            if st["op"] == "commit":
                cur[st["src"]][st["stream"]] = st["off"]
                held[st["src"]].append(dict(cur[st["src"]]))
            elif st["op"] == "truncate":
                cur[st["src"]] = {n: 0 for n in cur[st["src"]]}
                held[st["src"]].append(dict(cur[st["src"]]))
            elif st["op"] == "remove":
                cur[st["src"]] = {}
                held[st["src"]].append({})
            after.append((copy.deepcopy(held), copy.deepcopy(cur)))
        for ld in r["loads"]:
            h, c = after[ld["step"]]
            seq_loads += 1
            if any(0 in v.values() and any(x > 0 for x in v.values()) for v in c.values()) or any(v and all(x == 0 for x in v.values()) for v in c.values()):
                seq_zero += 1
            sub = judge_file(ld["res"], h, c)
            if sub is not None:
                got = {l["src"]: {kv["name"]: kv["off"] for kv in l["streams"]} for l in ld["res"].get("table", [])}
                recs.append({"kind": "sequence_" + sub, "sync_mode": sc["sync"], "at_step": ld["step"], "committed_table": c, "loaded_table": got,
                             "zero_offset_in_table": any(0 in v.values() for v in c.values()), "scenario": sc})
    vlib.log("offset-0 family: %d sequences with a truncation (real truncateJob/commit/save), %d fresh loads compared, %d of them with "
             "a zero offset next to a non-zero one or an all-zero job" % (len(seq_cases), seq_loads, seq_zero))
    if not seq_zero:
        raise vlib.Infra("the truncation family produced no table with a zero offset")

    # ---------------------------------------------------------------- 3c. one writer per offsets file: two real Plugin.Start
    own_cases = [p for p in tl["owner/faithful"].printed if "sp1" in p]
    if len(own_cases) < 25:
        raise vlib.Infra("OffsetsOwner exported only %d spelling pairs" % len(own_cases))
    # the statement does not decide a path through a symlinked directory: observed and reported, never judged
    own_cases = own_cases + [{"sp1": "plain", "sp2": "symlink", "sameFile": None, "secondRefused": None}]
    ow_in = os.path.join(ctx.scratch, "c07_owner.ndjson")
    with open(ow_in, "w") as f:
        for i, c in enumerate(own_cases):
            f.write(json.dumps({"id": i, "sp1": c["sp1"], "sp2": c["sp2"]}) + "\n")
    ow_out = os.path.join(ctx.scratch, "c07_owner_out.json")
    rc, txt = ctx.run_bin(bins["file"], "^TestVerifC07Owner$", env={"VERIF_CASES": ow_in, "VERIF_OUT": ow_out, "LOG_LEVEL": "fatal"}, timeout=900)
    if rc != 0 or not os.path.exists(ow_out):
        raise vlib.Infra("owner harness failed rc=%s:\n%s" % (rc, txt[-3000:]))
    ow = json.load(open(ow_out))
    if ow["executed"] != len(own_cases):
        raise vlib.Infra("owner harness executed %d of %d cases" % (ow["executed"], len(own_cases)))
    own_refused = own_both = 0
    symlink_note = None
    for c, r in zip(own_cases, ow["results"]):
        if r.get("panic") or r.get("first_refused"):
            raise vlib.Infra("owner harness: the first pipeline did not start: %r" % r)
        foreign = [l["src"] for l in r["loaded"] if l["src"] != 1001]
        own_ok = any(l["src"] == 1001 and any(kv["off"] == 500 for kv in l["streams"]) for l in r["loaded"])
        if c["sameFile"] is None:
            symlink_note = ("both pipelines started" if r["both_started"] else "the second pipeline was refused") + \
                           (" and pipeline 1 then loads back %s" % ("its own table" if own_ok and not foreign else "a FOREIGN table %r" % r["loaded"])
                            if r["both_started"] else "")
            continue
        if r["both_started"]:
            own_both += 1
        else:
            own_refused += 1
        if c["sameFile"] and r["both_started"]:
            recs.append({"kind": "two_writers_one_offsets_file", "spelling1": c["sp1"], "spelling2": c["sp2"], "path1": r["path1"], "path2": r["path2"],
                         "foreign_sources_loaded": foreign, "own_table_loaded": own_ok, "load_error": r.get("load_err", ""), "loaded": r["loaded"]})
        elif not c["sameFile"] and r["both_started"] and (foreign or not own_ok):
            recs.append({"kind": "foreign_table_loaded", "spelling1": c["sp1"], "spelling2": c["sp2"], "loaded": r["loaded"]})
        elif not c["sameFile"] and not r["both_started"]:
            ctx.drift += 1
            vlib.log("MODEL-DRIFT: Plugin.Start refused a second pipeline on a DIFFERENT offsets file (%s vs %s)" % (r["path1"], r["path2"]))
    vlib.log("one writer per file: %d spelling pairs through two real Plugin.Start: %d second starts refused, %d admitted; "
             "NOTE (not decided by the statement) same file through a symlinked directory: %s"
             % (len(own_cases) - 1, own_refused, own_both, symlink_note))

    # ---------------------------------------------------------------- 4. scenarios under strace (T)
    lim_f, lim_g = (90, 30) if quick else (5000, 2500)
    chosen_f, uniq_f, shapes_f = pick_schedules(ctx, file_sched, lim_f)
    # the fault schedule that distinguishes the D_RenameAfterFailedStep mutant from the code must be among the replayed ones
    def has_d6(s):
        # the mutant's counterexample may fail several steps of one save (write AND sync); the repaired code stops at the first
        # failing step, so a replayable schedule has a non-empty subset of those failures in one save
        return any((set(st["fails"]) & {"open", "write", "sync"}) and (set(st["fails"]) & {"open", "write", "sync"}) <= d6_steps
                   for st in s["steps"] if st["op"] == "save")
    if d6_steps and not any(has_d6(s) for s in chosen_f):
        # TLC's shortest counterexample is one of several (parallel BFS): take a schedule with exactly that fault combination in
        extra = [s for s in file_sched if has_d6(s)]
        chosen_f += extra[:2]
    if d6_steps and not any(has_d6(s) for s in chosen_f):
        raise vlib.Infra("the mutant counterexample's fault schedule %r is not among the exported schedules" % sorted(d6_steps))
    # leftover family (mechanism M_TmpStartsEmpty): a save that leaves its temp file behind (failed rename, or failed
    # write/sync whose clean-up unlink fails too), then a job goes away so that the next snapshot is SHORTER, then a
    # successful save -- the offsets file must still load
    def leftover(s):
        stage = 0
        for st in s["steps"]:
            f = set(st["fails"])
            if stage == 0 and st["op"] == "save" and ("rename" in f or ("unlink" in f and f & {"write", "sync"})):
                stage = 1
            elif stage == 1 and st["op"] == "remove":
                stage = 2
            elif stage == 2 and st["op"] == "save" and not f:
                return True
        return False
    left = {}
    for sch in file_sched:
        if leftover(sch):
            left.setdefault(sched_key(sch), sch)
    if not left:
        raise vlib.Infra("TLC exported no schedule of the leftover-temp-file family")
    have = {sched_key(x) for x in chosen_f}
    lk = [k for k in sorted(left) if k not in have]
    ctx.rng.shuffle(lk)
    chosen_f += [left[k] for k in lk[:(10 if quick else 300)]]
    n_left = sum(1 for x in chosen_f if leftover(x))
    chosen_g, uniq_g, shapes_g = pick_schedules(ctx, gen_sched, lim_g)
    scen = [file_scenario(s, False) for s in chosen_f]
    # persistence_mode=sync: every commit saves; a sample of the same schedules
    scen += [file_scenario(s, True) for s in chosen_f[:(20 if quick else 500)]]
    scen += [generic_scenario(s) for s in chosen_g]
    if getattr(ctx, "replay", None):
        scen = [r["scenario"] for r in json.load(open(ctx.replay)) if "scenario" in r] or scen
    done, inconclusive, skipped, strace_runs = [], 0, 0, 0
    with concurrent.futures.ThreadPoolExecutor(max_workers=min(vlib.NCPU, 16)) as ex:
        futs = [ex.submit(run_scenario, ctx, bins, sc, i) for i, sc in enumerate(scen)]
        for f in futs:
            try:
                r = f.result()
            except Inconclusive as e:
                inconclusive += 1
                vlib.log("inconclusive scenario:", str(e)[:200])
                continue
            strace_runs += r["runs"]
            if r["an"] is None:
                skipped += 1
                continue
            done.append(r)
    if len(done) < 0.8 * (len(scen) - skipped) or not done:
        raise vlib.Infra("only %d of %d scenarios could be followed under strace (%d inconclusive)" % (len(done), len(scen), inconclusive))

    # both savers must have been observed, offset.Save also with a failing fsync (the old file has to stay in place and loadable)
    nfile = sum(1 for r in done if r["sc"]["site"] == "file")
    ngen = sum(1 for r in done if r["sc"]["site"] == "generic")
    ngen_sync = sum(1 for r in done if r["sc"]["site"] == "generic" and any(f[1] == "sync" for f in r["sc"]["faults"]))
    nfile_sync = sum(1 for r in done if r["sc"]["site"] == "file" and any(f[1] == "sync" for f in r["sc"]["faults"]))
    if not getattr(ctx, "replay", None) and (nfile < 10 or ngen < 10 or ngen_sync < 1 or nfile_sync < 1):
        raise vlib.Infra("too few traced scenarios: offsetDB.save %d (%d with a failing fsync), offset.Save %d (%d with a failing fsync)"
                         % (nfile, nfile_sync, ngen, ngen_sync))

    # ---------------------------------------------------------------- 5. trace validation by TLC
    step_desc, tviol, tdrift = {}, [], []
    for site in ("file", "generic"):
        trs = [(i, r) for i, r in enumerate(done) if r["sc"]["site"] == site]
        if not trs:
            continue
        path = os.path.join(ctx.scratch, "c07_trace_%s.ndjson" % site)
        nlines = 0
        with open(path, "w") as f:
            for i, r in trs:
                f.write(json.dumps({"tr": i, "k": 0, "op": "reset", "name": "", "name2": "", "fd": 0, "ok": True, "trunc": False,
                                    "app": False, "w": 0, "n": len(r["an"]["payloads"][0])}) + "\n")
                nlines += 1
                for k, e in enumerate(r["an"]["events"], 1):
                    if e["op"] == "mark":
                        continue
                    if e["fd"] > 255:
                        raise vlib.Infra("descriptor number above 255")
                    f.write(json.dumps({"tr": i, "k": k, "op": e["op"], "name": e["name"], "name2": e["name2"], "fd": e["fd"],
                                        "ok": e["ok"], "trunc": e["trunc"], "app": e["app"], "w": e["w"], "n": e["n"]}) + "\n")
                    nlines += 1
        ov = {"Site": '"%s"' % site}
        res = ctx.tlc("OffsetsFileTrace", "OffsetsFileTrace.cfg", workers=1, files={path: "c07_trace.ndjson"}, overrides=ov,
                      deadlock=False, timeout=4500, name="trace/%s" % site)
        if not res.ok:
            raise vlib.Infra("trace validation run failed (%s %s):\n%s" % (res.violated, res.kind, res.out[-3000:]))
        fin = [p for p in res.printed if p.get("final")]
        if not fin or fin[-1]["lines"] != nlines:
            raise vlib.Infra("trace validation did not consume the whole trace file (%s)" % site)
        for p in res.printed:
            if "inodes" in p:
                step_desc[(p["tr"], p["k"])] = p
        for v in fin[-1]["viols"]:
            tviol.append(v)
        for d in fin[-1]["drifts"]:
            tdrift.append(d)
        ctx.traces_validated += len(trs)
    for v in tviol:
        sc = done[v["tr"]]["sc"]
        recs.append({"kind": v["kind"], "step": v["step"], "steps": sorted(v["steps"]), "site": SITE_NAME[sc["site"]],
                     "sync_mode": sc.get("sync", False), "at_event": v["k"], "scenario": sc})
    if tdrift:
        ctx.drift += len(tdrift)
        for d in tdrift[:5]:
            evs = done[d["tr"]]["an"]["events"]
            win = evs[d["k"] - 1]["window"]
            vlib.log("MODEL-DRIFT: the real %s does not follow the modelled protocol at event %d of trace %d: %s while pc=%s; "
                     "the window's calls: %s; injected faults %r"
                     % (SITE_NAME[done[d["tr"]]["sc"]["site"]], d["k"], d["tr"], d["op"], d["pc"],
                        " ".join("%s%s" % (e["op"], "" if e["ok"] else "!") for e in evs if e["window"] == win and e["op"] not in ("begin", "end", "mark")),
                        done[d["tr"]]["sc"]["faults"]))

    # cross-check with the declarative expectation exported with the schedule: save k may replace the file?
    for i, r in enumerate(done):
        sc, an = r["sc"], r["an"]
        if not sc.get("mayReplace") or sc.get("sync"):
            continue
        wins = [e["window"] for e in an["events"] if e["op"] == "begin" and e["mark"][0] == "save_begin"]
        for n, w in enumerate(wins):
            replaced = any(e["window"] == w and e["op"] == "rename" and e["ok"] and e["name2"] == "cur" for e in an["events"])
            if replaced and n < len(sc["mayReplace"]) and not sc["mayReplace"][n]:
                if not any(v["tr"] == i for v in tviol):
                    recs.append({"kind": "replaced_although_step_failed", "site": SITE_NAME[sc["site"]], "save": n + 1, "scenario": sc})

    # ---------------------------------------------------------------- 6. materialise disk states, real load()
    contents = {"file": {}, "generic": {}}       # site -> bytes|None -> id

    def cid(site, b):
        d = contents[site]
        if b not in d:
            d[b] = len(d)
        return d[b]

    views = []     # (trace idx, k, view kind, taint tuple, content id): one per distinct (kind, taint, content, held-version)
    timelines = {}
    prefix_cache = {}
    for i, r in enumerate(done):
        sc, an = r["sc"], r["an"]
        site, pl = sc["site"], an["payloads"]
        timelines[i] = held_timeline(sc, an)
        at = timelines[i][1]
        seen = set()

        def cat(segs):       # content = sequence of segments [write id, first byte, last byte] (1-based, inclusive)
            return b"".join(pl[w][a - 1:b] for (w, a, b) in segs)

        def add(k, kind, taint, c):
            key = (kind, taint, c, at[k - 1])
            if key not in seen:
                seen.add(key)
                views.append((i, k, kind, taint, c))

        for k in range(1, len(an["events"]) + 1):
            d = step_desc.get((i, k))
            if d is None:
                continue
            ino = {x["ino"]: x for x in d["inodes"]}
            if d["now"] == 0:
                add(k, "now", (), cid(site, None))
            else:
                add(k, "now", tuple(sorted(ino[d["now"]]["taint"])), cid(site, cat(ino[d["now"]]["vol"])))
            for c in d["cand"]:
                if c == 0:
                    add(k, "crash", (), cid(site, None))
                    continue
                x = ino[c]
                taint = tuple(sorted(x["taint"]))
                ck = (i, json.dumps(x["vol"]), json.dumps(x["base"]), x["keep"])
                if ck not in prefix_cache:
                    full = cat(x["vol"])
                    lo = min(x["keep"], len(full))
                    prefix_cache[ck] = [cid(site, cat(x["base"]))] + [cid(site, full[:n]) for n in range(lo, len(full) + 1)]
                for c2 in prefix_cache[ck]:
                    add(k, "crash", taint, c2)
    # sanity of the observation itself: the modelled live content at the end of a trace must be the real file
    lost_track = 0
    for i, r in enumerate(done):
        an = r["an"]
        ks = [k for k in range(1, len(an["events"]) + 1) if (i, k) in step_desc]
        if not ks:
            continue
        d = step_desc[(i, ks[-1])]
        ino = {x["ino"]: x for x in d["inodes"]}
        model = None if d["now"] == 0 else b"".join(an["payloads"][w][a - 1:b] for (w, a, b) in ino[d["now"]]["vol"])
        if model != an["final_cur"]:
            lost_track += 1
    if lost_track:
        ctx.drift += 1
        vlib.log("MODEL-DRIFT: in %d of %d traces the offsets file on disk at the end is not what the traced system calls "
                 "produce in the file-system model (an unmodelled system call is in use)" % (lost_track, len(done)))
    loadres = {}
    for site, test, binary in (("file", "TestVerifC07Load", bins["file"]), ("generic", "TestVerifC07OffsetLoad", bins["generic"])):
        if not contents[site]:
            continue
        cin = os.path.join(ctx.scratch, "c07_disks_%s.ndjson" % site)
        with open(cin, "w") as f:
            for b, n in contents[site].items():
                f.write(json.dumps({"id": n, "absent": b is None, "content": "" if b is None else hx(b)}) + "\n")
        cout = os.path.join(ctx.scratch, "c07_disks_%s_out.json" % site)
        rc, txt = ctx.run_bin(binary, "^%s$" % test, env={"VERIF_CASES": cin, "VERIF_OUT": cout, "LOG_LEVEL": "fatal"}, timeout=4500)
        if rc != 0 or not os.path.exists(cout):
            raise vlib.Infra("load harness failed rc=%s:\n%s" % (rc, txt[-3000:]))
        o = json.load(open(cout))
        if o["executed"] != len(contents[site]):
            raise vlib.Infra("load harness executed %d of %d disk states" % (o["executed"], len(contents[site])))
        loadres[site] = {x["id"]: x for x in o["results"]}
    agg = {}
    nviews = 0
    byid = {site: {n: b for b, n in contents[site].items()} for site in contents}
    for (i, k, kind, taint, c) in views:
        sc = done[i]["sc"]
        site = sc["site"]
        versions, at = timelines[i]
        held, cur = versions[at[k - 1]]
        res = loadres[site][c]
        nviews += 1
        sub = judge_file(res, held, cur) if site == "file" else judge_generic(res, held, cur)
        if sub is None:
            continue
        cause, step = "none", "none"
        if taint:
            t0 = taint[0]
            cause, _, step = t0.partition(":")
            step = step or "none"
            if len(taint) > 1:
                cause = "+".join(t.partition(":")[0] for t in taint)
        key = (i, kind, sub, cause, step)
        if key not in agg:
            b = byid[site][c]
            agg[key] = {"kind": "bad_disk_state", "sub": sub, "view": kind, "cause": cause, "step": step, "site": SITE_NAME[site],
                        "count": 0, "at_event": k, "content": None if b is None else hx(b), "load": {x: res.get(x) for x in ("err", "panic", "table", "value") if res.get(x) is not None},
                        "sync_mode": sc.get("sync", False), "scenario": sc}
        agg[key]["count"] += 1
    recs += list(agg.values())
    ndisk = sum(len(v) for v in contents.values())
    vlib.log("strace: %d scenarios followed (%d strace runs, %d inconclusive, %d not applicable); %d (event, view) pairs, "
             "%d distinct disk contents loaded by the real load()" % (len(done), strace_runs, inconclusive, skipped, nviews, ndisk))

    # ---------------------------------------------------------------- 7. concurrency
    conc_stats = []
    for mode, ms in (("0", 2500 if quick else 20000), ("1", 1500 if quick else 10000)):
        cout = os.path.join(ctx.scratch, "c07_conc_%s.json" % mode)
        rc, txt = ctx.run_bin(bins["file"], "^TestVerifC07Conc$", timeout=1800,
                              env={"VERIF_OUT": cout, "VERIF_C07_MILLIS": ms, "VERIF_C07_SYNC": mode, "LOG_LEVEL": "fatal"})
        if not os.path.exists(cout):
            # a crash of the harness process inside save/commit is a real-code failure in a scenario the property quantifies over
            if "panic:" in txt or "fatal error:" in txt:
                recs.append({"kind": "crash_under_concurrency", "sync_mode": mode == "1", "output": txt[-1500:]})
                continue
            raise vlib.Infra("concurrency harness failed rc=%s:\n%s" % (rc, txt[-3000:]))
        o = json.load(open(cout))
        conc_stats.append({k: o[k] for k in ("commits", "saves", "loads", "distinct_loaded_vectors", "sync")})
        if o["loads"] < 50 or o["saves"] < 20 or o["commits"] < 20:
            raise vlib.Infra("concurrency harness made too little progress: %r" % conc_stats[-1])
        seen = set()
        for v in o["violations"] or []:
            if v["kind"] in seen:
                continue
            seen.add(v["kind"])
            recs.append({"kind": "concurrent_" + v["kind"], "sync_mode": mode == "1", "detail": v})
    vlib.log("concurrency: %s" % json.dumps(conc_stats))

    # ---------------------------------------------------------------- 8. classification, evidence
    bykind = {}
    for r in recs:
        bykind[r["kind"]] = bykind.get(r["kind"], 0) + 1
    vlib.log("violation records by kind (before matching known findings): %s" % json.dumps(bykind, sort_keys=True))
    ctx.classify(recs)
    kinds = {r["kind"] for r in recs}
    if "unloadable_snapshot" not in kinds:
        ctx.drift += 1
        vlib.log("MODEL-DRIFT: D8 (unloadable stream/file names) did not reproduce; OffsetsFormat.tla's D8Class is stale")

    ctx.evaluations = len(tables) + seq_loads + nviews + sum(s["loads"] for s in conc_stats)
    nt = set()
    for r in done:
        sc = r["sc"]
        nt.add(("sched", sc["site"], sc.get("sync", False), tuple(sorted(sc["faults"])), len(r["an"]["events"])))
    for tb in tables:
        if not tb["d8"] and any(any(x != 1 for x in s["name"]) for j in tb["jobs"] for s in j["streams"]):
            nt.add(("table", json.dumps(tb["jobs"])))
    ctx.nontrivial = nt
    ctx.traces_validated += len(tables)
    # every table and every fault shape is executed; of the schedules that differ only in which job/stream commits
    # where, a seeded sample unless the limit covers them all
    ctx.exhaustive = len(chosen_f) == uniq_f and len(chosen_g) == uniq_g
    ctx.rule = ("(o) one writer per file: every ordered pair of offsets_file spellings (plain, ./, //, x/../, another file) through two real "
                "Plugin.Start, refusal compared with OffsetsOwner.tla, foreign entries after both saved = violation.  (a0) offset 0: every TLC schedule containing a truncation run in-process through the real truncateJob/commit/save "
                "and a fresh real load after every save (%d sequences, async and sync mode).  " % len(seq_cases) +
                "(a) round trip: every job table TLC enumerates from OffsetsFormat.tla (%d; names over {a : space newline - e-acute} "
                "incl. the empty name, plus 50 stream names / 6 file names made of format directives ('%%d', '%%%%', 'a%%20b', '%%!d(MISSING)'), "
                "backslash, quotes, tab, CR, '#', braces, YAML-ish scalars, offsets 0/1/2^63-1, ids 1/2^64-1) through the real save and a fresh real load; non-trivial = "
                "table outside the D8 class with at least one special character in a stream name.  (b) protocol: %d distinct "
                "schedules (file) / %d (generic) exported by TLC, %d distinct fault shapes; %s executed by the real code under "
                "strace with the failing steps injected, each system-call trace replayed by TLC through OffsetsFileTrace.tla; "
                "non-trivial = distinct (site, mode, injected faults, trace length).  (c) every disk content the crash semantics "
                "allows after every system call (all byte prefixes) loaded by the real load().  (d) concurrent commits/saves/loads."
                % (len(tables), uniq_f, uniq_g, shapes_f + shapes_g, "all fault shapes and a seeded sample of %d schedules" % len(scen)))
    ctx.extra.update({"owner_spelling_pairs": len(own_cases) - 1, "owner_second_start_refused": own_refused, "owner_both_started": own_both,
                      "owner_symlinked_directory_observation": symlink_note, "traced_scenarios": {"offsetDB.save": nfile, "offsetDB.save with failing fsync": nfile_sync,
                                           "offset.Save": ngen, "offset.Save with failing fsync": ngen_sync},
                      "leftover_tempfile_schedules_replayed": n_left, "truncation_sequences": len(seq_cases), "truncation_loads": seq_loads, "truncation_loads_with_zero_offset": seq_zero,
                      "round_trip_tables": len(tables), "round_trip_failures": rt_bad, "scenarios_followed": len(done),
                      "scenarios_inconclusive": inconclusive, "scenarios_not_applicable": skipped, "strace_runs": strace_runs,
                      "disk_views_checked": nviews, "distinct_disk_contents_loaded": ndisk, "concurrency": conc_stats,
                      "trace_protocol_violations": len(tviol), "trace_drifts": len(tdrift)})
    for r in done[:2]:
        ctx.sample({"site": r["sc"]["site"], "faults": r["sc"]["faults"],
                    "events": [{k: v for k, v in e.items() if k in ("op", "name", "name2", "ok", "w")} for e in r["an"]["events"] if e["op"] != "mark"][:30]})
    ctx.sample({"table": tables[len(tables) // 2]["_go"]})
    ctx.assumptions += [
        "crash semantics: per inode, content as of the last successful fsync or any byte prefix of the current content not shorter "
        "than the synced part; rename atomic; directory entries never known durable (the code never fsyncs the directory), so after "
        "a crash the name may refer to any inode ever renamed onto it - the weakest POSIX-plausible reading; an absent offsets file "
        "loads as 'no offsets', which the scenarios' jobs never held (they start from a previous run's file)",
        "the faithful configuration has both mutant switches off (D6 repaired by f12db3f, D7 by 5cb7036); a recurrence of either "
        "behaviour in the real code is a VIOLATION (their known_findings entries are status=fixed)",
        "failing steps are injected by strace (error=EIO, the system call is not executed): a failing write leaves nothing in the "
        "file; PARTIAL failing writes (short write followed by an error) cannot be injected without a source hook and are covered at "
        "model level only (OffsetsFile.tla, Partials)",
        "a crash is not executed; every post-crash content the model allows after each observed system call is materialised instead",
        "one writer per offsets file is a stated mechanism (OffsetsOwner.tla, M_OneWriterPerFile): paths are compared after lexical "
        "normalisation; the same file reached through a symlinked directory is observed and reported but not judged",
        "cross-job atomicity of a snapshot is not demanded (the code locks job by job); the file name stored in the file is not compared",
        "concurrency clause: probabilistic (timed stress), per-job staircase vectors make a torn snapshot recognisable",
    ]
