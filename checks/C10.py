"""C10 -- kafka input never acknowledges (marks) a record that is not finished.

1. TLC checks specs/KafkaInput.tla: with spread routing as the code configures it (D_Spread) the design admits a mark
   that passes an unfinished record (known finding D10, must be reproduced at design level); with per-partition FIFO
   routing MarkSafe holds; MarkOwn, MarkMonotone and the packing round trip hold in both.
2. The real Plugin.Commit / packing functions / pconsumer.consume feed a real pipeline in spread mode with a real,
   never connected franz-go client; scenarios (directed D10 schedule + seeded random ones) are recorded and TLC
   validates every trace against specs/KafkaMon.tla.
"""
import json
import os

import vlib

LEVEL = "model_checking"


def scenarios(ctx, n):
    rng = ctx.rng
    out = []
    # directed: record 1 of a partition is kept by its action while record 2 passes, is sent and committed
    out.append(dict(run=1, name="D10-directed", workers=2, batch=1, cap=8, single=False, seed=1,
                    recs=[dict(id=1, topic=0, part=3, off=100, epoch=5, cls="P", delay_us=60000),
                          dict(id=2, topic=0, part=3, off=101, epoch=5, cls="P", delay_us=0)]))
    # directed: record 1 is kept by its action while records 2 (not decodable) and 3 (empty-ish) of the same partition are refused at In
    out.append(dict(run=0, name="refused-behind-unfinished", workers=1, batch=1, cap=8, single=True, seed=2,
                    recs=[dict(id=1, topic=1, part=0, off=10, epoch=1, cls="P", delay_us=80000),
                          dict(id=2, topic=1, part=0, off=11, epoch=1, cls="R", delay_us=0),
                          dict(id=3, topic=1, part=0, off=12, epoch=1, cls="R", delay_us=0)]))
    # leader-epoch rewind inside one assignment (log truncated after an unclean leader election): offsets are handed out again
    # under a higher epoch; every record the consumer was handed must enter the pipeline, old-epoch records that were
    # replaced no longer count
    for j in range(3):
        n1 = rng.randint(2, 6)
        back = rng.randint(1, n1 - 1)
        n2 = back + rng.randint(1, 4)
        o = rng.choice([0, 100, 2 ** 20])
        e = rng.choice([0, 5, 65534])
        recs = [dict(id=i + 1, topic=0, part=1, off=o + i, epoch=e, cls="P", delay_us=rng.choice([0, 50, 300])) for i in range(n1)]
        recs += [dict(id=n1 + i + 1, topic=0, part=1, off=o + n1 - back + i, epoch=e + 1, cls=rng.choice(["P", "P", "D"]),
                      delay_us=rng.choice([0, 50, 300])) for i in range(n2)]
        out.append(dict(run=100000 + j, name="epoch-rewind-%d" % j, workers=rng.choice([1, 2]), batch=rng.choice([1, 2]), cap=16, single=True,
                        seed=ctx.seed * 31 + j, recs=recs))
    # a rebalance takes the partitions away (the real revoke callback) while every record that was handed over still sits in the
    # output: nothing may be marked by then (franz-go commits the marks right after the callback)
    for j in range(3):
        nrec = rng.randint(2, 6)
        o = rng.choice([0, 100, 2 ** 20])
        recs = [dict(id=i + 1, topic=0, part=2, off=o + i, epoch=4, cls="P", delay_us=0) for i in range(nrec)]
        out.append(dict(run=100100 + j, name="revoke-with-records-in-flight-%d" % j, workers=2, batch=rng.choice([1, 2]), cap=16, single=rng.random() < 0.5,
                        seed=ctx.seed * 37 + j, recs=recs, revoke=True))
    # a dead queue behind a failing backend: a record that is given up is finished when the dead queue has acknowledged it, not before
    for j in range(3):
        nrec = rng.randint(3, 7)
        o = rng.choice([0, 100, 2 ** 20])
        recs = [dict(id=i + 1, topic=1, part=4, off=o + i, epoch=2, cls=("F" if i == j % nrec or rng.random() < 0.3 else "P"), delay_us=rng.choice([0, 50])) for i in range(nrec)]
        out.append(dict(run=100200 + j, name="dead-queue-behind-failing-backend-%d" % j, workers=rng.choice([1, 2]), batch=1, cap=16, single=True,
                        seed=ctx.seed * 41 + j, recs=recs, dq=True))
    for k in range(n):
        run = k + 2
        nrec = rng.randint(2, 14)
        nparts = rng.choice([1, 1, 2, 3])
        base_off = {}
        recs = []
        for i in range(nrec):
            tp = (rng.randrange(0, 2), rng.choice([0, 1, 7, 65535][:nparts + 1]))
            off = base_off.get(tp, rng.choice([0, 1, 5, 2 ** 20, 2 ** 30]))  # trace offsets stay below 2^31 (TLC integers); 2^47-1: packing cases
            base_off[tp] = off + 1
            recs.append(dict(id=i + 1, topic=tp[0], part=tp[1], off=off, epoch=rng.choice([0, 1, 65535]) if i == 0 else recs[0]["epoch"],
                             cls=rng.choice(["P", "P", "P", "D", "R", "S"]), delay_us=rng.choice([0, 0, 50, 300, 2000])))
        out.append(dict(run=run, name="c10-rnd-%d" % run, workers=rng.choice([1, 2, 3]), batch=rng.choice([1, 2, 3]),
                        cap=rng.choice([2, 8, 32]), single=rng.random() < 0.3, seed=ctx.seed * 1000 + run, recs=recs))
    return out


def broker_scenarios(ctx, n):
    """REAL Plugin.Start / Commit / Stop against the in-process broker: topics lists (also with a topic named twice), some
    records acknowledged before Stop and some still unfinished"""
    rng = ctx.rng
    out = []
    # directed: a topic named twice in front of another one; the later topic is acknowledged, the duplicated one is all unfinished
    out.append(dict(run=999, name="broker-duplicated-topic", topics=["va", "va", "vb"],
                    recs=[dict(id=1, topic="va", part=0, epoch=3, ack=False), dict(id=2, topic="va", part=0, epoch=3, ack=False),
                          dict(id=3, topic="va", part=0, epoch=3, ack=False), dict(id=4, topic="vb", part=0, epoch=3, ack=True),
                          dict(id=5, topic="vb", part=0, epoch=3, ack=True)]))
    names = ["va", "vb", "vc"]
    for k in range(n):
        nt = rng.choice([1, 2, 3])
        topics = names[:nt]
        cfg_topics = list(topics)
        if rng.random() < 0.5:      # an easy copy-paste slip in a long list; Kafka itself does not care
            cfg_topics.insert(rng.randrange(0, len(cfg_topics)), rng.choice(topics))
        recs = []
        acked_prefix = {}
        for i in range(rng.randint(2, 9)):
            t = rng.choice(topics)
            part = 0
            key = (t, part)
            # within a partition the output acknowledges a prefix (one processor): the rest is unfinished at Stop
            stop = acked_prefix.setdefault(key, rng.random() < 0.35)
            ack = not stop and rng.random() < 0.8
            if not ack:
                acked_prefix[key] = True
            recs.append(dict(id=i + 1, topic=t, part=part, epoch=3, ack=ack))
        out.append(dict(run=1000 + k, name="broker-%d" % k, topics=cfg_topics, recs=recs))
    # back pressure: the pipeline is slow to take the first record while the broker keeps handing out small fetches; whatever the
    # poll loop does meanwhile, every record handed out must enter the pipeline and nothing may be committed past one that did not
    for j in range(2):
        nrec = rng.randint(12, 20)
        recs = [dict(id=i + 1, topic="va", part=0, epoch=3, ack=True) for i in range(nrec)]
        out.append(dict(run=1900 + j, name="broker-back-pressure-%d" % j, topics=["va"], recs=recs, per_fetch=1, stall_ms=rng.choice([700, 900]),
                        max_consumers=rng.choice([1, 2])))
    # shutdown of a whole pipeline (specs/Shutdown.tla): the backend answers for the first records only; Pipeline.Stop while the
    # rest hangs in the output; the broker must not receive a commit that passes a record that was never delivered
    for j in range(3):
        nrec = rng.randint(3, 8)
        recs = [dict(id=i + 1, topic="va", part=0, epoch=3, ack=False) for i in range(nrec)]
        out.append(dict(run=1950 + j, name="shutdown-backend-down-%d" % j, topics=["va"], recs=recs, lifecycle=rng.randint(1, nrec - 1)))
    return out


def run(ctx):
    binary = ctx.go_test_build("plugin/input/kafka")
    thorough = ctx.tier == "thorough"
    big = {"NRec": "9", "NProcs": "3"} if thorough else {"NRec": "6", "NProcs": "3"}
    res = ctx.tlc_expect_ok("KafkaInput", "KafkaInput_residual.cfg", timeout=5400, deadlock=False, overrides=big,
                            name="KafkaInput/per-partition-FIFO")
    if thorough:
        ctx.tlc_expect_ok("KafkaInput", "KafkaInput_residual.cfg", timeout=9000, deadlock=False,
                          overrides={"NRec": "7", "NProcs": "3", "Parts": "{0, 1, 2}"}, name="KafkaInput/per-partition-FIFO, three partitions")
    pack = [p for p in res.printed if isinstance(p, dict) and "pack" in p]
    if not pack:
        raise vlib.Infra("no packing cases exported")
    cases = pack[-1]["pack"]
    # TLC integers are 32-bit: extend the boundary set with the large offsets, using the same formulas
    for idx in (0, 3):
        for part in (0, 65535):
            for off in (2 ** 31, 2 ** 47 - 1):
                for epoch in (0, 65535):
                    cases.append(dict(idx=idx, part=part, off=off, epoch=epoch, src=idx * 65536 + part,
                                      packed=off * 65536 + epoch, mark=off + 1))
    d10 = ctx.tlc("KafkaInput", "KafkaInput_faithful.cfg", timeout=1800, deadlock=False, name="KafkaInput/spread")
    if d10.ok or d10.violated != "MarkSafe":
        raise vlib.Infra("design model does not reproduce D10 under spread routing (violated=%s)" % d10.violated)
    ctx.states += d10.distinct
    ctx.transitions += d10.generated
    # shutdown of a whole pipeline: the input makes its position durable before the output abandons what is in flight
    ctx.tlc_expect_ok("Shutdown", "Shutdown_ok.cfg", timeout=900, deadlock=False, overrides={"N": "6"} if thorough else None, name="Shutdown/faithful")
    sm = ctx.tlc("Shutdown", "Shutdown_mut.cfg", timeout=900, deadlock=False, name="Shutdown/mutant output stops first")
    if sm.ok or sm.violated != "ShutdownSafe":
        raise vlib.Infra("spec mutant M_InputStopsBeforeOutput is not rejected by ShutdownSafe (violated=%s)" % sm.violated)
    scs = scenarios(ctx, 2000 if thorough else 240)
    inp = os.path.join(ctx.scratch, "c10_in.json")
    out = os.path.join(ctx.scratch, "c10_trace.ndjson")
    json.dump({"scenarios": scs, "pack": cases}, open(inp, "w"))
    rc, txt = ctx.run_bin(binary, "^TestVerifC10$", env={"VERIF_CASES": inp, "VERIF_OUT": out}, timeout=4500)
    if rc != 0 or not os.path.exists(out) or not os.path.exists(out + ".pack"):
        import core
        crash = core.classify_crash(txt)       # a panic raised inside file.d's own code while running a scenario is a violation record
        if crash is None:
            raise vlib.Infra("C10 harness failed rc=%s:\n%s" % (rc, txt[-3000:]))
        ctx.classify([dict(crash, kind="panic_in_pipeline_under_kafka_input")])
        return
    pk = json.load(open(out + ".pack"))
    recs = [{"kind": "pack_mismatch", "case": b} for b in pk["pack_bad"]]
    mon = ctx.tlc("KafkaMon", "KafkaMon.cfg", workers=1, files={out: "trace.ndjson"}, timeout=2700, deadlock=False,
                  name="KafkaMon/trace")
    rep = [p for p in mon.printed if isinstance(p, dict) and "viol" in p]
    if not mon.ok or not rep:
        raise vlib.Infra("trace validation failed:\n%s" % mon.out[-3000:])
    by_run = {s["run"]: s for s in scs}
    shapes = set()
    for x in rep[-1]["viol"]:
        v = x["v"]
        recs.append({"kind": v["kind"], "id": v["id"], "other": v["other"], "info": v["info"], "run": x["run"],
                     "single_processor": bool((by_run.get(x["run"]) or {}).get("single")), "dead_queue": bool((by_run.get(x["run"]) or {}).get("dq")),
                     "scenario": by_run.get(x["run"])})
    for s in scs:
        if len({(r["topic"], r["part"]) for r in s["recs"]}) < len(s["recs"]):
            shapes.add(json.dumps([[r["topic"], r["part"], r["cls"], r["delay_us"] > 0] for r in s["recs"]]))
    # broker family: real Start / Stop
    bsc = broker_scenarios(ctx, 36 if thorough else 8)
    binp = os.path.join(ctx.scratch, "c10_broker_in.json")
    bout = os.path.join(ctx.scratch, "c10_broker_trace.ndjson")
    json.dump(bsc, open(binp, "w"))
    rc, txt = ctx.run_bin(binary, "^TestVerifC10Broker$", env={"VERIF_CASES": binp, "VERIF_OUT": bout}, timeout=4500)
    if rc != 0 or not os.path.exists(bout):
        raise vlib.Infra("C10 broker harness failed rc=%s:\n%s" % (rc, txt[-3000:]))
    mon2 = ctx.tlc("KafkaMon", "KafkaMon.cfg", workers=1, files={bout: "trace.ndjson"}, timeout=2700, deadlock=False, name="KafkaMon/broker-trace")
    rep2 = [p for p in mon2.printed if isinstance(p, dict) and "viol" in p]
    if not mon2.ok or not rep2:
        raise vlib.Infra("trace validation (broker family) failed:\n%s" % mon2.out[-3000:])
    bby = {s["run"]: s for s in bsc}
    for x in rep2[-1]["viol"]:
        v = x["v"]
        if v["kind"] == "not_idle":
            ctx.drift += 1      # the consumer did not hand over every record within 20 s: inconclusive, not a verdict
            continue
        recs.append({"kind": v["kind"], "id": v["id"], "other": v["other"], "info": v["info"], "run": x["run"], "scenario": bby.get(x["run"])})
    ctx.extra["broker_scenarios"] = len(bsc)
    ctx.classify(recs)
    ctx.evaluations = len(scs) + len(bsc) + pk["pack_checked"]
    ctx.traces_validated = len(scs) + len(bsc)
    ctx.nontrivial = shapes
    ctx.rule = ("scenario = records (topic, partition, offset, epoch, class, action delay) fed through the real pconsumer into a "
                "real spread-mode pipeline; non-trivial/distinct = distinct (topic, partition, class, delayed?) sequences in "
                "which at least two records share a partition; plus %d packing boundary cases" % pk["pack_checked"])
    ctx.sample(scs[0])
    ctx.sample(scs[1])
    ctx.extra["trace_lines_validated"] = rep[-1]["lines"]
    ctx.assumptions += ["franz-go MarkCommitOffsets/MarkedOffsets are exercised on a real client that never connects",
                        "the real Plugin.Start/Stop run against a tiny in-process broker (single node, single group member) in the broker family; "
                        "the spread-mode pipeline family applies UseSpread/DisableStreams as Start does and uses a client that never connects",
                        "packing for offsets above 2^31 is compared with the spec's formulas evaluated outside TLC (32-bit integers)"]
