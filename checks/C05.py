"""C05 -- in-flight events never exceed capacity; none leaks or is handed out twice.

1. TLC: the slot/ownership clauses of the detailed pool specifications (EventPoolStd: SingleOwner, NoNilHandout, Bounded,
   ZeroAtEnd; EventPoolLowMem: Bounded, CounterSound) exhaustively, plus the pool part of specs/Pipeline.tla (see C01).
2. Real pools: holder-counting stress on capacities 1..3 with 4 and 16 concurrent readers, both pool kinds, and a
   get/back cycle for every size-class boundary up to 2^31 (in use back to exactly zero, no slot lost).
3. The shared pipeline scenarios of checks/C01.py at capacities 1..3 with refusals, holds, splits: ownership and the
   pool's own counter are evaluated by TLC on every recorded step (PipelineMon).
"""
import importlib.util
import json
import os

import core
import vlib

LEVEL = "model_checking"
PID = "C05"
_spec = importlib.util.spec_from_file_location("c01", os.path.join(os.path.dirname(__file__), "C01.py"))
_c01 = importlib.util.module_from_spec(_spec)
_spec.loader.exec_module(_c01)


def run(ctx):
    thorough = ctx.tier == "thorough"
    ctx._core_bin = ctx.go_test_build("pipeline")
    ctx.tlc_expect_ok("EventPoolStd", "EventPoolStd_ok.cfg", timeout=2700, deadlock=False,
                      overrides={"Capacity": "2", "Getters": '{"g1", "g2", "g3"}', "Rounds": "2" if thorough else "1"}, name="EventPoolStd/slots")
    ctx.tlc_expect_ok("EventPoolLowMem", "EventPoolLowMem_fixed.cfg", timeout=2700, deadlock=False,
                      overrides={"Capacity": "2"} if thorough else None, name="EventPoolLowMem/counter")
    out = os.path.join(ctx.scratch, "c05_pools.json")
    rc, txt = ctx.run_bin(ctx._core_bin, "^TestVerifC05Pools$", env={"VERIF_OUT": out}, timeout=3600)
    if rc != 0 or not os.path.exists(out):
        crash = core.classify_crash(txt)
        if crash is None:
            raise vlib.Infra("C05 pool harness failed rc=%s:\n%s" % (rc, txt[-3000:]))
        ctx.classify([crash])
    else:
        recs = []
        res = json.load(open(out))
        for r in res:
            ctx.evaluations += 1
            if r["family"] == "stress":
                ctx.extra["pool_stress_gets"] = ctx.extra.get("pool_stress_gets", 0) + r["gets"]
                if r["max_held"] > r["capacity"]:
                    recs.append({"kind": "pool_over_capacity", "pool": r["pool"], "capacity": r["capacity"], "max_held": r["max_held"], "readers": r["readers"]})
                if r["double_owner"]:
                    recs.append({"kind": "pool_double_owner", "pool": r["pool"], "capacity": r["capacity"], "count": r["double_owner"]})
                if r["inuse_end"] != 0 or r["waiters_end"] != 0:
                    recs.append({"kind": "pool_not_zero_at_idle", "pool": r["pool"], "capacity": r["capacity"], "inuse": r["inuse_end"], "waiters": r["waiters_end"]})
            else:
                if r["blocked"] or r["inuse_end"] != 0:
                    recs.append({"kind": "pool_slot_leaked", "pool": r["pool"], "size": r["size"], "blocked": r["blocked"], "inuse": r["inuse_end"]})
        ctx.classify(recs)
        ctx.sample(res[0])
        ctx.traces_validated += len(res)
    # every way In can refuse a record: none of its exits keeps a pool event (7 refusals against a capacity of 2)
    outr = os.path.join(ctx.scratch, "c05_refusals.json")
    rc, txt = ctx.run_bin(ctx._core_bin, "^TestVerifC05Refusals$", env={"VERIF_OUT": outr}, timeout=1800)
    if rc != 0 or not os.path.exists(outr):
        crash = core.classify_crash(txt)
        if crash is None:
            raise vlib.Infra("C05 refusal harness failed rc=%s:\n%s" % (rc, txt[-3000:]))
        ctx.classify([crash])
    else:
        rr = json.load(open(outr))
        ctx.evaluations += len(rr)
        exits = {r["exit"] for r in rr if r["refused"] > 0}
        if not {"oversize", "wrong_cri", "below_stream_offset", "banned", "undecodable", "pass_event"} <= exits:
            raise vlib.Infra("some refusal exits of In were not reached: %s" % sorted(exits))
        ctx.extra["in_refusal_exits_exercised"] = sorted(exits)
        ctx.classify([{"kind": "refused_record_keeps_pool_event", "pool": r["pool"], "exit": r["exit"], "inuse": r["inuse_end"], "reader_blocked": r["blocked"]}
                      for r in rr if r["blocked"] or r["inuse_end"] != 0])
    _c01.run(ctx, pid=PID, families=(("pool", 150, 800), ("commit", 40, 200)))
