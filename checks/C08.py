"""C08 -- batcher: bounded size, bounded staleness, in-order commit, safe Stop.

1. TLC: specs/BatcherProto.tla (mutex / channel / worker granularity): SizeBound (count and bytes), CommitInSeqOrder,
   CommitOnlySent, CommitOnce, Staleness and the liveness AllCommitted hold without Stop; with Stop the pinned code
   (send after mu.Unlock) reaches "send on closed channel" (D9, must be reproduced at design level) and the repaired order
   (send under the lock) is safe and Stop terminates.  Plus the batcher part of specs/Pipeline.tla (see C01).
2. Real Batcher through its public API: byte/count bounds, staleness with heartbeat-only flushes, regular/child/
   child-parent mixes, scripted completion orders of concurrent sends -> traces validated by TLC (PipelineMon);
   Stop racing with 8 concurrent adders in a child process (300/2000 trials).
3. The shared pipeline scenarios of checks/C01.py with batcher-centred families.
"""
import importlib.util
import json
import os

import core
import vlib

LEVEL = "model_checking"
PID = "C08"
_spec = importlib.util.spec_from_file_location("c01", os.path.join(os.path.dirname(__file__), "C01.py"))
_c01 = importlib.util.module_from_spec(_spec)
_spec.loader.exec_module(_c01)


def direct_scenarios(ctx, n):
    rng = ctx.rng
    out = []
    for k in range(n + 28):
        run = 5000 + k
        fam = k % 6 if k < n else 5      # the long-time-out family is judged on a median: it gets enough runs of its own
        nev = rng.randint(1, 14)
        kinds = ["r"] * nev
        if fam == 0:      # byte limit only / with count
            sc = dict(workers=rng.choice([1, 2, 3]), count=rng.choice([0, 0, 3, 5]), bytes=rng.choice([3, 5, 10, 64]), flush_ms=20,
                      sizes=[rng.choice([1, 1, 2, 3, 7, 20, 70]) for _ in range(nev)], order=rng.choice(["fifo", "lifo", "random"]), stale=False)
        elif fam == 1:    # completion orders of concurrent sends
            sc = dict(workers=rng.choice([2, 3, 4]), count=rng.choice([1, 2]), bytes=0, flush_ms=10, sizes=[1] * nev,
                      order=rng.choice(["lifo", "random"]), stale=False)
        elif fam == 2:    # kinds
            kinds = [rng.choice(["r", "r", "c", "p", "p"]) for _ in range(nev)]
            # children of a split carry no bytes of their own (processor.Spawn leaves Size at 0)
            sc = dict(workers=rng.choice([1, 2]), count=rng.choice([1, 2, 3]), bytes=0, flush_ms=10, sizes=[0 if x == "c" else 1 for x in kinds],
                      order=rng.choice(["fifo", "random"]), stale=False)
        elif fam == 4:    # an Add queued on the mutex behind the heartbeat while the open batch has expired
            nev = rng.choice([2, 4, 6])
            kinds = ["r"] * nev
            sc = dict(workers=2, count=10, bytes=0, flush_ms=20, sizes=[1] * nev, order="fifo", stale=False, contend=True)
        elif fam == 5:    # a lonely event right behind a batch that went out by size, with a LONG flush time-out: its batch is opened by
            # Add at a random phase of the heartbeat; it must go out within the time-out plus one heartbeat period (100 ms)
            kinds = ["r"] * 3
            sc = dict(workers=1, count=2, bytes=0, flush_ms=1500, sizes=[1, 1, 1], order="fifo", stale=True, phase_ms=rng.randint(1, 400))
        else:             # staleness: fewer events than the count limit, nothing else ever arrives
            nev = rng.randint(1, 4)
            kinds = rng.choice([["r"] * nev, ["r"] * nev, ["c"] * nev, [rng.choice(["r", "c"]) for _ in range(nev)]])
            # (a flush time-out of 0 is a time-out like any other: whatever is in the batch is handed over at once)
            sc = dict(workers=rng.choice([1, 2]), count=50, bytes=0, flush_ms=rng.choice([0, 5, 30, 80]), sizes=[0 if x == "c" else 1 for x in kinds],
                      order="fifo", stale=True)
        if sc["count"] == 0 and sc["bytes"] == 0:
            sc["count"] = 2
        sc.setdefault("contend", False)
        sc.setdefault("phase_ms", 0)
        sc.update(run=run, name="direct-%d-%d" % (fam, run), kinds=kinds, adders=rng.choice([1, 1, 2, 3]) if fam < 3 else 1, seed=ctx.seed * 7919 + k)
        out.append(sc)
    return out


def run(ctx):
    thorough = ctx.tier == "thorough"
    ctx._core_bin = ctx.go_test_build("pipeline")
    # 1. BatcherProto
    ctx.tlc_expect_ok("BatcherProto", "BatcherProto_base.cfg", timeout=2700, deadlock=False, name="BatcherProto/no-stop")
    ctx.tlc_expect_ok("BatcherProto", "BatcherProto_base.cfg", timeout=2700, deadlock=False,
                      overrides={"Sizes": "{1, 2}", "BatchBytes": "3", "BatchCount": "0"}, name="BatcherProto/bytes")
    ctx.tlc_expect_ok("BatcherProto", "BatcherProto_stop.cfg", timeout=2700, deadlock=False, name="BatcherProto/stop (send under the lock)")
    d9 = ctx.tlc("BatcherProto", "BatcherProto_stop.cfg", timeout=1800, deadlock=False, overrides={"SendUnderLock": "FALSE"},
                 name="BatcherProto/stop send-after-unlock (mutant = the defect D9 repaired in 08b19bf)")
    if d9.ok or d9.violated != "StopSafe":
        raise vlib.Infra("spec with the send after mu.Unlock does not reach the closed-channel send (violated=%s)" % d9.violated)
    for sw, cfgname, inv in (("M_HeartbeatOneSection", "BatcherProto_base.cfg", "HandOverOnce"),
                             ("M_StopLeavesPartial", "BatcherProto_stop.cfg", "CommitInSeqOrder")):
        m = ctx.tlc("BatcherProto", cfgname, timeout=1800, deadlock=False, overrides={sw: "FALSE"}, name="BatcherProto/%s off (mutant)" % sw)
        if m.ok or m.violated != inv:
            raise vlib.Infra("spec with %s off is not rejected by %s (violated=%s)" % (sw, inv, m.violated))
    # 2a. direct scenarios -> trace validation
    scs = direct_scenarios(ctx, 400 if thorough else 80)
    cases = os.path.join(ctx.scratch, "c08_cases.ndjson")
    with open(cases, "w") as f:
        for s in scs:
            f.write(json.dumps(s) + "\n")
    trace = os.path.join(ctx.scratch, "c08_trace.ndjson")
    rc, txt = ctx.run_bin(ctx._core_bin, "^TestVerifC08Direct$", env={"VERIF_CASES": cases, "VERIF_OUT": trace}, timeout=3600)
    if rc != 0 or not os.path.exists(trace):
        crash = core.classify_crash(txt)
        if crash is None:
            raise vlib.Infra("C08 direct harness failed rc=%s:\n%s" % (rc, txt[-3000:]))
        ctx.classify([crash])
    else:
        viol, nlines = core.validate(ctx, trace, maxid=16)
        ctx.traces_validated += len(scs)
        ctx.evaluations += len(scs)
        by_run = {s["run"]: s for s in scs}
        recs = core.records(viol, by_run, core.KINDS["C08"] | {"batch_bytes_exceeded", "batch_stale", "parent_sent", "not_idle", "unaccounted"})
        stale = [r for r in recs if r["kind"] == "batch_stale"]
        nstale = sum(1 for s in scs if s["stale"])
        if stale and len(stale) < max(3, nstale // 2):
            # a timing miss must reproduce broadly before it is reported
            ctx.drift += len(stale)
            vlib.log("warning: %d of %d staleness runs exceeded their bound (not reported)" % (len(stale), nstale))
            recs = [r for r in recs if r["kind"] != "batch_stale"]
        # long flush time-out: how long did the lonely third event wait beyond the time-out?  One heartbeat period at most; judged on
        # the median over the family (single samples on a loaded machine are not)
        longruns = {s["run"] for s in scs if s.get("phase_ms")}
        shortruns = {s["run"]: s["flush_ms"] for s in scs if s["stale"] and not s.get("phase_ms")}
        extra, control = [], []
        for line in open(trace):
            e = json.loads(line)
            if e.get("ev") == "Stale" and e.get("run") in longruns and e.get("first") == 3:
                extra.append(e["waited"] - 1500)
            elif e.get("ev") == "Stale" and e.get("run") in shortruns:
                control.append(e["waited"] - shortruns[e["run"]])       # the same machine, the same heartbeat, short time-outs
        control.sort()
        ctl = control[len(control) // 2] if control else 0
        if longruns and len(extra) < len(longruns) // 2:
            raise vlib.Infra("long-time-out staleness family: only %d of %d runs measured" % (len(extra), len(longruns)))
        if extra:
            extra.sort()
            med = extra[len(extra) // 2]
            ctx.extra["lonely_event_wait_beyond_flush_timeout_ms"] = {"runs": len(extra), "median": med, "max": extra[-1],
                                                                      "median_of_short_timeout_runs": ctl}
            # beyond one heartbeat period + slack, AND not explained by the machine (the short-time-out runs wait as long as ever)
            if med > 100 + 150 and med - max(ctl, 0) > 200:
                recs.append({"kind": "batch_stale_long_timeout", "median_beyond_timeout_ms": med, "max_ms": extra[-1], "runs": len(extra),
                             "allowed_ms": "one heartbeat period (100) + 150 slack on the median"})
        ctx.classify(recs)
        ctx.sample(scs[0])
    # 2b. Stop vs Add
    out = os.path.join(ctx.scratch, "c08_stop.json")
    rc, txt = ctx.run_bin(ctx._core_bin, "^TestVerifC08Stop$", env={"VERIF_OUT": out, "VERIF_C08_STOP": "1", "VERIF_C08_TRIALS": 2000 if thorough else 300},
                          timeout=2700)
    if rc != 0 or not os.path.exists(out):
        raise vlib.Infra("C08 stop harness failed rc=%s:\n%s" % (rc, txt[-3000:]))
    st = json.load(open(out))
    ctx.evaluations += 2000 if thorough else 300
    ctx.extra["stop_race_trials"] = 2000 if thorough else 300
    recs = []
    if st["panic"]:
        where = "trySendBatchAndUnlock" if "trySendBatchAndUnlock" in st["panic"] else "other"
        cls = "send_on_closed_channel" if "send on closed channel" in st["panic"] else "other"
        recs.append({"kind": "stop_panic", "panic_class": cls, "where": where, "panic": st["panic"][:600]})
    elif not st["done"]:
        raise vlib.Infra("stop child did not finish and did not panic: %s" % st)
    if st["bad_commits"]:
        recs.append({"kind": "stop_commit_of_unsent_or_twice", "count": st["bad_commits"]})
    if st.get("out_of_order") or st.get("before_send_return"):
        recs.append({"kind": "stop_commit_out_of_order", "later_event_first": st.get("out_of_order", 0),
                     "before_send_return": st.get("before_send_return", 0), "example": st.get("example", "")})
    ctx.classify(recs)
    # 3. shared pipeline scenarios
    _c01.run(ctx, pid=PID, families=(("batch", 100, 500), ("commit", 40, 200), ("retry", 40, 200)))
