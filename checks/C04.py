"""C04 -- no wedge: every accepted event is eventually finalized; a reader blocked on a full pool resumes.

1. TLC, detailed protocol specifications: EventPoolLowMem.tla and EventPoolStd.tla (atomics, lock, condition
   variable, heartbeat as separate steps) -- NoWedge and the liveness property AllDone under fairness hold; with the
   heartbeat condition inverted / the heartbeat removed TLC must find the wedge (mechanism switches); the trap
   property NeverLostWakeup yields the schedule of the lost-wake-up window.
   Pipeline.tla under fairness (FairSpec): EventuallyQuiescent for several configurations; NoStuck (safety form) is
   part of the exhaustive base configuration.
2. Real code: the lost-wake-up window is constructed on the REAL pools with the `verif` hook points as scheduler gate
   (heartbeat interval shortened in-package) and the getter must resume within a generous bound; ordinary blocking
   and churn scenarios; and end-to-end progress runs of the real pipeline (capacity down to 1, single processor,
   hold/collapse runs ended only by stream time-outs, partially filled batches flushed only by the batch timer) whose
   traces TLC validates (monitors: idle reached, every accepted event accounted for).
"""
import json
import os

import core
import vlib

LEVEL = "model_checking"


def progress_scenarios(ctx, n, start):
    rng = ctx.rng
    out = []
    for k in range(n):
        run = start + k
        fam = k % 6
        nev = rng.randint(2, 12)
        if fam == 0:      # capacity 1..2: reader blocks on the pool for almost every event
            sc = core.base(run, cap=rng.choice([1, 1, 2]), pool=rng.choice(["std", "low_memory"]), workers=rng.choice([1, 2]),
                           batch=1, single=rng.random() < 0.5,
                           lines=core.random_lines(rng, nev, rng.choice([1, 2, 3]), ["a", "b"], ["P", "D", "P", "R"]))
        elif fam == 1:    # hold / collapse runs that only a stream time-out can flush
            sc = core.base(run, cap=rng.choice([2, 4, 16]), pool=rng.choice(["std", "low_memory"]), workers=rng.choice([1, 2]),
                           batch=rng.choice([1, 2]), timeout_ms=rng.choice([10, 30]), single=rng.random() < 0.3,
                           lines=core.random_lines(rng, nev, rng.choice([1, 2]), rng.choice([["a"], ["a", "b"]]),
                                                   rng.choice([["H", "C", "C", "P", "H"], ["H", "N", "C", "N"], ["H", "N"], ["G", "P", "Q"], ["G", "C", "P", "G"]])))
        elif fam == 5:    # a run of chunks (class U: collapsed, nothing held) on one source that goes silent: the stream's time-out ends
            # the run (the action answers it with discard) and the ONE processor must go and serve the other source
            t = rng.choice([10, 30])
            nk = rng.randint(1, 3)
            lines = [dict(id=i + 1, src=1, stream="a", cls="U") for i in range(nk)]
            lines += [dict(id=nk + 1, src=2, stream="a", cls="P", wait_ms=t + 250), dict(id=nk + 2, src=2, stream="a", cls=rng.choice(["P", "D"]))]
            sc = core.base(run, cap=8, pool=rng.choice(["std", "low_memory"]), workers=1, batch=1, timeout_ms=t, single=True, lines=lines)
        elif fam == 2:    # partially filled batches: only the flush timer can hand them over
            sc = core.base(run, cap=16, workers=rng.choice([1, 2, 3]), batch=rng.choice([4, 7, 16]), flush_ms=rng.choice([5, 20, 50]),
                           lines=core.random_lines(rng, nev, rng.choice([1, 2]), ["a", "b"], ["P", "P", "D"]))
        elif fam == 4:    # split: the children fill a batch exactly, the parent opens the next one ALONE (it is not an iterable
                          # event) -- only the flush timer can hand that batch over
            sc = core.base(run, cap=16, workers=rng.choice([1, 2]), batch=rng.choice([2, 2, 1, 4]), flush_ms=rng.choice([5, 20]),
                           lines=core.random_lines(rng, rng.choice([1, 1, 2, 3, 5]), 1, ["a"], rng.choice([["S"], ["S", "S", "D"], ["S", "P"]])))
        else:             # capacity smaller than the batch size: progress depends on the flush timer AND the pool
            cap = rng.choice([1, 2, 3])
            sc = core.base(run, cap=cap, pool=rng.choice(["std", "low_memory"]), workers=rng.choice([1, 2]), batch=cap + rng.choice([1, 3]),
                           flush_ms=rng.choice([5, 20]), lines=core.random_lines(rng, nev, rng.choice([1, 2]), ["a", "b"], ["P", "D", "H", "C"]))
        sc["name"] = "progress-%d-%d" % (fam, run)
        out.append(sc)
    return out


def run(ctx):
    thorough = ctx.tier == "thorough"
    binary = ctx.go_test_build("pipeline")
    ctx._core_bin = binary
    # 1. design level: detailed pool protocols
    big = {"Getters": '{"g1", "g2", "g3"}', "Rounds": "2"}
    ctx.tlc_expect_ok("EventPoolLowMem", "EventPoolLowMem_fixed.cfg", timeout=2700, deadlock=False, name="EventPoolLowMem/faithful")
    ctx.tlc_expect_ok("EventPoolStd", "EventPoolStd_ok.cfg", timeout=2700, deadlock=False,
                      overrides={"Capacity": "2", "Getters": '{"g1", "g2", "g3"}', "Rounds": "2"} if thorough else None,
                      name="EventPoolStd/faithful")
    for mod, cfg, what in (("EventPoolLowMem", "EventPoolLowMem_d1.cfg", "heartbeat condition inverted"),
                           ("EventPoolLowMem", "EventPoolLowMem_hbexit.cfg", "heartbeat goroutine exits when nobody waits and is never restarted"),
                           ("EventPoolStd", "EventPoolStd_nohb.cfg", "heartbeat removed")):
        r = ctx.tlc(mod, cfg, timeout=900, deadlock=False, name="%s/mutant (%s)" % (mod, what))
        if r.ok or r.violated != "NoWedge":
            raise vlib.Infra("spec mutant '%s' of %s does not wedge (violated=%s): mechanism vacuous" % (what, mod, r.violated))
    # stream / streamer protocol at mutex granularity
    ctx.tlc_expect_ok("StreamProto", "StreamProto_base.cfg", timeout=2700, deadlock=False,
                      overrides={"NEvents": "4"} if thorough else None, name="StreamProto/faithful")
    for sw, prop in (("M_Recharge", "ChargedRight"), ("M_SignalOnPut", None), ("M_UnblockOnlyIfEmpty", "NoEventLost"),
                     ("M_CommitCheckUnderLock", "CommitMonotone"), ("M_UnblockRechecksBlocked", "NoCodePanic")):
        r = ctx.tlc("StreamProto", "StreamProto_base.cfg", timeout=900, deadlock=False, overrides={sw: "FALSE"}, name="StreamProto/mutant-%s" % sw)
        if r.ok:
            raise vlib.Infra("spec mutant %s of StreamProto is not rejected: mechanism vacuous" % sw)
    trap = ctx.tlc("EventPoolLowMem", "EventPoolLowMem_trap.cfg", timeout=900, deadlock=False, name="EventPoolLowMem/trap")
    if trap.ok or trap.violated != "NeverLostWakeup":
        raise vlib.Infra("trap property did not produce the lost-wake-up schedule")
    ctx.sample({"lost_wakeup_schedule_from_TLC": trap.trace[-1][1].get("gate", "")})
    # Pipeline.tla under fairness
    split = {"Classes": '{"S"}', "KidsPer": "2", "KidBase": "20", "MaxId": "22"}     # children fill the batch, the parent sits alone in the next one
    ctx.tlc_expect_ok("Pipeline", "Pipeline_k.cfg", timeout=1800, deadlock=False, name="Pipeline/chunk runs (class U)")
    km = ctx.tlc("Pipeline", "Pipeline_k_mut.cfg", timeout=1800, deadlock=False, name="Pipeline/mutant-M_DiscardResetsBusy")
    if km.ok or km.violated != "TimeoutEndsTheWait":
        raise vlib.Infra("spec mutant M_DiscardResetsBusy is not rejected by TimeoutEndsTheWait (violated=%s)" % km.violated)
    lives = [{}, {"Classes": '{"P", "H", "C"}'}, {"Strs": '{"a", "b"}', "Capacity": "1"}, split]
    if thorough:
        lives.append({"HasDQ": "TRUE", "MaxFails": "2", "Classes": '{"P"}'})
    for ov in lives:
        ctx.tlc_expect_ok("Pipeline", "Pipeline_live.cfg", timeout=2700, deadlock=False, overrides=ov, name="Pipeline/live %s" % json.dumps(ov))
    r = ctx.tlc("Pipeline", "Pipeline_live.cfg", timeout=900, deadlock=False, overrides=dict(split, M_TimerFlushesAny="FALSE"),
                name="Pipeline/live mutant (heartbeat flushes only batches with deliverable events)")
    if r.ok or r.violated != "EventuallyQuiescent":
        raise vlib.Infra("spec mutant M_TimerFlushesAny is not rejected by EventuallyQuiescent (violated=%s): mechanism vacuous" % r.violated)
    # 2. real pools: constructed window + ordinary blocking + churn
    out = os.path.join(ctx.scratch, "c04_pools.json")
    rc, txt = ctx.run_bin(binary, "^TestVerifC04Pools$", env={"VERIF_OUT": out}, timeout=2700)
    if rc != 0 or not os.path.exists(out):
        crash = core.classify_crash(txt)
        if crash is None:
            raise vlib.Infra("C04 pool harness failed rc=%s:\n%s" % (rc, txt[-3000:]))
        ctx.classify([crash])
        return
    res = json.load(open(out))
    groups = {}
    for r in res:
        groups.setdefault((r["scenario"], r["pool"]), []).append(r)
    recs = []
    gate_seen = 0
    for (scen, pool), rs in sorted(groups.items()):
        bad = [r for r in rs if not r["resumed"]]
        gate_seen += sum(1 for r in rs if r.get("gate_seen"))
        ctx.evaluations += len(rs)
        ctx.traces_validated += len(rs)
        if len(bad) == len(rs):           # must reproduce in every trial before it is reported
            recs.append({"kind": "pool_waiter_not_resumed", "pool": pool, "scenario": scen, "trials": len(rs),
                         "bound_ms": rs[0]["bound_ms"], "heartbeat_ms": rs[0]["heartbeat_ms"], "inuse": bad[0]["inuse"],
                         "waiters": bad[0]["waiters"]})
        elif bad:
            ctx.drift += 1
            vlib.log("warning: %s/%s missed its bound in %d of %d trials (not reported: must reproduce every time)" % (scen, pool, len(bad), len(rs)))
        if scen == "churn":
            for r in rs:
                if r["resumed"] and (r["inuse"] != 0 or r["waiters"] != 0):
                    recs.append({"kind": "pool_not_zero_after_churn", "pool": pool, "inuse": r["inuse"], "waiters": r["waiters"]})
    if gate_seen == 0:
        raise vlib.Infra("the hook points lowmem.beforeWait/std.beforeWait were never reached: window not exercised")
    ctx.extra["lost_wakeup_windows_constructed"] = gate_seen
    ctx.classify(recs)
    ctx.sample(res[0])
    # a pool that loses a slot per event of some size wedges the readers once `capacity` of them have passed, with nothing in
    # flight: get/back cycles for every size class (1 .. 2^31, +-1) on both pools, more cycles than the capacity
    outp = os.path.join(ctx.scratch, "c04_poolsizes.json")
    rc, txt = ctx.run_bin(binary, "^TestVerifC05Pools$", env={"VERIF_OUT": outp}, timeout=3600)
    if rc != 0 or not os.path.exists(outp):
        crash = core.classify_crash(txt)
        if crash is None:
            raise vlib.Infra("pool size-class harness failed rc=%s:\n%s" % (rc, txt[-3000:]))
        ctx.classify([crash])
        return
    prs = [r for r in json.load(open(outp)) if r["family"] == "size_class"]
    ctx.evaluations += len(prs)
    ctx.extra["pool_size_classes_cycled"] = len(prs)
    ctx.classify([{"kind": "pool_get_blocked_with_nothing_in_flight", "pool": r["pool"], "size": r["size"], "capacity": r["capacity"]} for r in prs if r["blocked"]])
    # lock order between stream.mu and the streamer's blocked list (LockOrder.tla: the faithful model never deadlocks, the mutant --
    # tryUnblock called under blockedMu -- does)
    ctx.tlc_expect_ok("LockOrder", "LockOrder_ok.cfg", timeout=900, deadlock=True, name="LockOrder/faithful")
    r = ctx.tlc("LockOrder", "LockOrder_mut.cfg", timeout=900, deadlock=True, name="LockOrder/mutant (heartbeat holds blockedMu over tryUnblock)")
    if r.ok or r.kind != "deadlock":
        raise vlib.Infra("spec mutant M_HeartbeatWorksOnCopy of LockOrder does not deadlock (%s)" % r.violated)
    # 2b. the real stream: two finalizations of one stream in a constructed window (StreamProto: M_CommitCheckUnderLock) and racing
    out3 = os.path.join(ctx.scratch, "c04_stream.json")
    rc, txt = ctx.run_bin(binary, "^TestVerifC04Stream$", env={"VERIF_OUT": out3}, timeout=900)
    if rc != 0 or not os.path.exists(out3):
        crash = core.classify_crash(txt)
        if crash is None:
            raise vlib.Infra("C04 stream harness failed rc=%s:\n%s" % (rc, txt[-3000:]))
        ctx.classify([crash])
        return
    srecs = []
    sres = json.load(open(out3))
    by = {}
    for r in sres:
        by.setdefault(r["scenario"], []).append(r)
    for scen, rs in sorted(by.items()):
        ctx.evaluations += len(rs)
        bad = [r for r in rs if not r["ok"]]
        if bad and scen == "stale-blocked-copy":
            srecs.append({"kind": "heartbeat_judges_stream_served_since_its_copy", "scenario": scen, "what": bad[0]["what"], "trials": len(rs), "failed": len(bad)})
        elif bad and scen == "blocked-streams-keep-flowing":
            srecs.append({"kind": "blocked_streams_wedged", "scenario": scen, "what": bad[0]["what"], "delivered": bad[0].get("rounds", 0)})
        elif bad and (len(bad) == len(rs) or scen == "commit-race"):       # constructed windows must reproduce in every trial
            srecs.append({"kind": "stream_commit_went_back", "scenario": scen, "what": bad[0]["what"], "trials": len(rs), "failed": len(bad)})
        elif bad:
            ctx.drift += 1
    ctx.extra["stream_commit_race_rounds"] = sum(r.get("rounds", 0) for r in sres)
    ctx.classify(srecs)
    # 3. end-to-end progress on the real pipeline
    win = core.window_scenarios(ctx, 24 if thorough else 8, 9000)
    core.execute_and_validate(ctx, "C04", win, par=1)
    core.execute_and_validate(ctx, "C04", core.attend_scenarios(ctx, 40 if thorough else 12, 9100), par=4)
    core.execute_and_validate(ctx, "C04", core.detach_scenarios(ctx, 60 if thorough else 16, 9200), par=8)
    # processor-pool growth: ProcGrowth.tla (liveness under fairness of joinStream and growProcs; mutant = a processor sleeping in
    # blockGet is not counted as active) and the situation on the real pipeline
    ctx.tlc_expect_ok("ProcGrowth", "ProcGrowth_ok.cfg", timeout=900, deadlock=False, name="ProcGrowth/faithful")
    r = ctx.tlc("ProcGrowth", "ProcGrowth_mut.cfg", timeout=900, deadlock=False, name="ProcGrowth/mutant")
    if r.ok or r.violated != "Attended":
        raise vlib.Infra("spec mutant M_BlockedCountsAsActive is not rejected (violated=%s)" % r.violated)
    procs = 2 * (os.cpu_count() or 8)           # runtime.GOMAXPROCS(0) * 2 in the harness process
    if "GOMAXPROCS" in os.environ:
        procs = 2 * int(os.environ["GOMAXPROCS"])
    core.execute_and_validate(ctx, "C04", core.growprocs_scenarios(ctx, 6 if thorough else 2, 9400, procs), par=2)
    judged = 0
    for line in open(ctx._last_trace):
        e = json.loads(line)
        if e.get("ev") == "Attend" and "procs" in e and e.get("want") == 1:
            judged += 1
    if judged == 0:
        raise vlib.Infra("the all-processors-blocked situation was never set up (processor count of the harness process differs from %d?)" % procs)
    ctx.extra["all_processors_blocked_windows"] = judged
    scen = progress_scenarios(ctx, 1000 if thorough else 100, 1)
    for i in range(0, len(scen), 100):
        core.execute_and_validate(ctx, "C04", scen[i:i + 100], par=6)
    ctx.rule = ("pool scenarios: (pool kind, scenario, trial) with the lost-wake-up window constructed through hook gates; progress "
                "scenarios: seeded (capacity, pool, processors, batch size vs capacity, flush/time-out intervals, hold/collapse lines). "
                "distinct non-trivial = distinct finishing-order shapes of the progress runs (see C01) ")
    ctx.assumptions += ["bounded time is judged against generous wall-clock bounds (>= 100x the shortened heartbeat, 15 s for a whole run)",
                        "Go scheduler fairness", "heartbeat intervals shortened through in-package fields (wakeupInterval) -- the production value is 5 s"]
