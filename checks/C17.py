"""C17 -- mask hides every matched secret and touches nothing else.

1. TLC checks specs/Mask.tla exhaustively on ABSTRACT submatch tables (every table a regexp engine could
   return on a value of <= MaxLen characters, <= 2 matches, <= 2 groups: nested / absent / descending /
   overlapping): the step-by-step transcription of Mask.maskValue (deviation D13 switched on = the code as
   written) returns only acceptable outputs and panics exactly in the situations PanicSituation names; the
   functional predicates are consistent (ExactImpliesWeaker) and non-vacuous (RejectsSurvivor, RejectsDamage,
   and the tally of exported case classes: every branch of Repl, every situation, every outcome explored).
   Thorough also checks the repaired loop (D13 off) on every table.
2. Direction T (code -> spec): the Go driver enumerates regexps x group selections x strings x modes x leaf
   kinds and small events x process/ignore lists x match rules, runs the REAL Plugin.Do (through the real
   Start) and logs what happened; specs/MaskTrace.tla evaluates the specification's predicates on EVERY
   logged record (TLC, batches of records, several TLC processes side by side) and reports the failing ones.
   A stress family starts several real instances on ONE shared config object (as the processors of a
   pipeline do) with do_if-guarded masks and runs them concurrently over events whose do_if outcomes
   alternate; every distinct (event, outcome) is a record judged for that event alone.  Detection of a
   sharing bug there depends on the interleaving (probabilistic); correct code has one outcome per event.
3. A failing record is a violation record; D13 (panic on absent / descending / nested groups) and D18
   (named D16 in Mask.tla: process/ignore marks not inherited once another list goes deeper) are genuine
   defects of the unchanged code, matched by narrow signatures in known_findings.json; everything else =>
   VIOLATION.
"""
import glob
import json
import os
import shutil
import subprocess
import threading
import time
from concurrent.futures import ThreadPoolExecutor

import vlib

LEVEL = "model_checking"

# classes of abstract cases that must have been explored (non-vacuity of the specification run)
REQUIRED_CLASSES = {
    "outcome done": lambda c: c["o"] == "done",
    "outcome nomatch": lambda c: c["o"] == "nomatch",
    "outcome panic": lambda c: c["o"] == "panic",
    "Repl asterisks, uncapped": lambda c: c["o"] == "done" and c["m"] == "mask" and not c["cap"] and c["n"] > 0,
    "Repl asterisks, capped by max_count": lambda c: c["o"] == "done" and c["m"] == "mask" and c["cap"],
    "Repl replace word": lambda c: c["o"] == "done" and c["m"] == "replace" and c["n"] > 0,
    "Repl cut": lambda c: c["o"] == "done" and c["m"] == "cut" and c["n"] > 0,
    "multi-byte character inside a selected range": lambda c: c["o"] == "done" and c["wide"],
    "empty selected range": lambda c: c["o"] == "done" and c["e"],
    "two or more selected ranges, disjoint ascending": lambda c: c["o"] == "done" and c["n"] >= 2 and c["da"],
    "situation descending": lambda c: c["s"] == "descending" and c["o"] == "panic",
    "situation nested": lambda c: c["s"] == "nested" and c["o"] == "panic",
    "situation overlapping": lambda c: c["s"] == "overlapping" and c["o"] == "panic",
    "situation absent_last": lambda c: c["s"] == "absent_last" and c["o"] == "panic",
}


def _tally(res):
    counts = {k: 0 for k in REQUIRED_CLASSES}
    for c in res.printed:
        for k, f in REQUIRED_CLASSES.items():
            if f(c):
                counts[k] += 1
    return counts


def _trace_shard(ctx, idx, path, workers, lock, agg):
    """one TLC process validating one file of records"""
    d = os.path.join(ctx.scratch, "trace%03d" % idx)
    os.makedirs(d)
    for f in ("Mask.tla", "MaskTrace.tla", "MaskTrace.cfg"):
        shutil.copy(os.path.join(vlib.SPECS, f), d)
    os.replace(path, os.path.join(d, "c17_records.ndjson"))
    cmd = ["java", "-XX:+UseParallelGC", "-XX:ParallelGCThreads=2", "-Xss64m", "-Xmx4g", "-cp", vlib.TLA_CP,
           "tlc2.TLC", "-metadir", os.path.join(d, "meta"), "-workers", str(workers), "-config", "MaskTrace.cfg",
           "-noGenerateSpecTE", "-deadlock", "MaskTrace"]
    t = time.time()
    try:
        p = subprocess.run(cmd, cwd=d, stdout=subprocess.PIPE, stderr=subprocess.STDOUT, timeout=2700, text=True,
                           errors="replace")
    except subprocess.TimeoutExpired:
        raise vlib.Infra("TLC timeout validating record file %d" % idx)
    res = vlib.TLCResult()
    res.out = p.stdout
    vlib.parse_tlc(res.out, res)
    if not res.ok:
        raise vlib.Infra("trace validation run %d failed without verdict:\n%s" % (idx, res.out[-3000:]))
    n = sum(1 for _ in open(os.path.join(d, "c17_records.ndjson")))
    if res.distinct != n:
        raise vlib.Infra("trace validation run %d evaluated %d of %d records" % (idx, res.distinct, n))
    with lock:
        agg["records"] += n
        agg["wall"] += time.time() - t
        agg["runs"] += 1
        agg["verdicts"] += res.printed
    shutil.rmtree(os.path.join(d, "meta"), ignore_errors=True)
    return d


def _bytes(v):
    return bytes(v).decode("utf-8", "replace")


def run(ctx):
    thorough = ctx.tier == "thorough"

    # ---- 1. the specification on abstract tables
    model = {}
    # quick: length <= 2 over {a, e-acute} and length <= 3 over {a}; thorough: length <= 3 over {a, e-acute} and
    # length <= 4 over {a}  (each: <= 2 matches, 1-2 groups, every group list, every mode)
    cfgs = ["Mask_quick.cfg", "Mask_quick3.cfg"] if not thorough else ["Mask_thorough.cfg", "Mask_thorough4.cfg"]
    total = {k: 0 for k in REQUIRED_CLASSES}
    for cfg in cfgs:
        res = ctx.tlc_expect_ok("Mask", cfg, timeout=4500, deadlock=False)
        cl = _tally(res)
        model[cfg] = {"cases": len(res.printed), "classes": cl}
        for k, v in cl.items():
            total[k] += v
        vlib.log("spec %s: %d abstract cases, %d states, %.0fs" % (cfg, len(res.printed), res.distinct, res.wall))
        res.printed = []
    missing = [k for k, v in total.items() if v == 0]
    if missing:
        raise vlib.Infra("abstract enumeration is vacuous: no explored case of class %s" % missing)
    if thorough:
        res = ctx.tlc_expect_ok("Mask", "Mask_repaired.cfg", timeout=4500, deadlock=False, overrides={"MaxLen": "3"})
        vlib.log("spec Mask_repaired.cfg (D13 off, repaired loop acceptable on every table): %d states, %.0fs"
                 % (res.distinct, res.wall))
    # every match of the engine (n = -1) is rewritten: the mutant "first match only when the text starts with an anchor"
    mut0 = ctx.tlc("Mask", "Mask_mutant_allmatches.cfg", timeout=900, deadlock=False, workers=4,
                   name="Mask/mutant M_AllMatches (expected violation)")
    if mut0.ok or mut0.violated != "ReturnsAcceptable":
        raise vlib.Infra("mutant M_AllMatches=FALSE was not rejected by TLC (violated=%s)" % mut0.violated)
    vlib.log("spec Mask_mutant_allmatches.cfg (first match only for anchored text): rejected by TLC (ReturnsAcceptable, "
             "%d-state counterexample)" % len(mut0.trace))
    model["M_AllMatches"] = {"mutant_rejected": True, "mutant_trace_len": len(mut0.trace)}
    # the do_if dimension: evaluate-once mechanism accepted, its mutant (re-evaluation per value on the partially
    # masked event) rejected -- a spec-mutant run: TLC MUST find the violation, otherwise the model is blind to it
    res = ctx.tlc_expect_ok("MaskDoIf", "MaskDoIf_quick.cfg", timeout=900, deadlock=False,
                            overrides={"NF": "4"} if thorough else None)
    vlib.log("spec MaskDoIf_quick.cfg (do_if decided on the original event): %d states, %.0fs" % (res.distinct, res.wall))
    mut = ctx.tlc("MaskDoIf", "MaskDoIf_mutant.cfg", timeout=900, deadlock=False, name="MaskDoIf/mutant (expected violation)")
    if mut.ok or mut.violated != "DoIfOnOriginal":
        raise vlib.Infra("mutant M_DoIfOnOriginalEvent=FALSE was not rejected by TLC (violated=%s): MaskDoIf.tla no longer "
                         "distinguishes the mechanism" % mut.violated)
    vlib.log("spec MaskDoIf_mutant.cfg (do_if re-evaluated per value): rejected by TLC with a %d-state counterexample"
             % len(mut.trace))
    model["MaskDoIf"] = {"mechanism_states": res.distinct, "mutant_rejected": True, "mutant_trace_len": len(mut.trace)}
    # match rules under several instances: stateless evaluation accepted, scratch buffer on the shared rule set rejected
    res = ctx.tlc_expect_ok("MaskRules", "MaskRules_quick.cfg", timeout=900, deadlock=False, workers=4)
    mut = ctx.tlc("MaskRules", "MaskRules_mutant.cfg", timeout=900, deadlock=False, workers=4,
                  name="MaskRules/mutant (expected violation)")
    if mut.ok or mut.violated != "DecisionIsFunctionOfValue":
        raise vlib.Infra("mutant M_MatchStateless=FALSE was not rejected by TLC (violated=%s): MaskRules.tla no longer "
                         "distinguishes the mechanism" % mut.violated)
    vlib.log("spec MaskRules_quick.cfg (rule decision = function of (rule, value), 3 instances): %d states; mutant "
             "(scratch buffer on the shared rule set, 2 instances) rejected with a %d-state counterexample"
             % (res.distinct, len(mut.trace)))
    # number / index of masks: a per-field mask set that can hold every index accepted, a W-bit set rejected
    res2 = ctx.tlc_expect_ok("MaskSet", "MaskSet_quick.cfg", timeout=900, deadlock=False, workers=4)
    mut2 = ctx.tlc("MaskSet", "MaskSet_mutant.cfg", timeout=900, deadlock=False, workers=4,
                   name="MaskSet/mutant (expected violation)")
    if mut2.ok or mut2.violated != "IndexIndependent":
        raise vlib.Infra("mutant M_MaskSetUnbounded=FALSE was not rejected by TLC (violated=%s): MaskSet.tla no longer "
                         "distinguishes the mechanism" % mut2.violated)
    vlib.log("spec MaskSet_quick.cfg (a mask's scope does not depend on its index, 4 masks): %d states; mutant (set over "
             "indices < 2, 3 masks) rejected with a %d-state counterexample" % (res2.distinct, len(mut2.trace)))
    model["MaskSet"] = {"mechanism_states": res2.distinct, "mutant_rejected": True, "mutant_trace_len": len(mut2.trace)}
    # all-digit path elements address object members and array elements alike; "arrays only" rejected
    res3 = ctx.tlc_expect_ok("MaskPath", "MaskPath_quick.cfg", timeout=300, deadlock=False, workers=4)
    mut3 = ctx.tlc("MaskPath", "MaskPath_mutant.cfg", timeout=300, deadlock=False, workers=4,
                   name="MaskPath/mutant (expected violation)")
    if mut3.ok or mut3.violated != "ElementAddressesMember":
        raise vlib.Infra("mutant M_NumericKeyAddressesObjectMember=FALSE was not rejected by TLC (violated=%s)" % mut3.violated)
    vlib.log("spec MaskPath_quick.cfg (a path element addresses object members and array elements alike): %d states; mutant "
             "(all-digit elements address arrays only) rejected with a %d-state counterexample" % (res3.distinct, len(mut3.trace)))
    model["MaskPath"] = {"mechanism_states": res3.distinct, "mutant_rejected": True, "mutant_trace_len": len(mut3.trace)}
    # sequences of events through one instance; rule value lists of different lengths
    for mod, okcfg, mutcfg, inv, what in (
            ("MaskSeq", "MaskSeq_quick.cfg", "MaskSeq_mutant.cfg", "EventAlone",
             "no state across events / per-mask hit counter survives to the next event"),
            ("MaskRuleMatch", "MaskRuleMatch_quick.cfg", "MaskRuleMatch_mutant.cfg", "SomeValueMatches",
             "every value of a rule is tried / only the shortest length can match when case-insensitive")):
        ov = {"MaxData": "4", "MaxVal": "3", "MaxVals": "2"} if (thorough and mod == "MaskRuleMatch") else None
        r = ctx.tlc_expect_ok(mod, okcfg, timeout=900, deadlock=False, workers=8, overrides=ov)
        mu = ctx.tlc(mod, mutcfg, timeout=300, deadlock=False, workers=4, name="%s/mutant (expected violation)" % mod)
        if mu.ok or mu.violated != inv:
            raise vlib.Infra("mutant of %s was not rejected by TLC (violated=%s)" % (mod, mu.violated))
        vlib.log("spec %s (%s): mechanism %d states ok; mutant rejected (%s, %d-state counterexample)"
                 % (mod, what, r.distinct, inv, len(mu.trace)))
        model[mod] = {"mechanism_states": r.distinct, "mutant_rejected": True, "mutant_trace_len": len(mu.trace)}
    model["MaskRules"] = {"mechanism_states": res.distinct, "mutant_rejected": True, "mutant_trace_len": len(mut.trace)}
    ctx.extra["abstract_model"] = model

    # ---- 2. the real plugin: records
    binary = ctx.go_test_build("plugin/action/mask")
    outdir = os.path.join(ctx.scratch, "c17rec")
    summ = os.path.join(ctx.scratch, "c17_summary.json")
    env = {"VERIF_OUT": outdir, "VERIF_SUMMARY": summ, "VERIF_C17_PER_FILE": "8000"}
    if ctx.replay:
        keys = sorted({r["key"] for r in json.load(open(ctx.replay)) if r.get("key")})
        kp = os.path.join(ctx.scratch, "c17_replay_keys.json")
        json.dump(keys, open(kp, "w"))
        env["VERIF_C17_REPLAY"] = kp
    t0 = time.time()
    rc, txt = ctx.run_bin(binary, "^TestVerifC17$", env=env, timeout=4500)
    if rc != 0 or not os.path.exists(summ):
        raise vlib.Infra("C17 driver failed rc=%s:\n%s" % (rc, txt[-3000:]))
    sm = json.load(open(summ))
    files = sorted(glob.glob(os.path.join(outdir, "c17_rec_*.ndjson")))
    vlib.log("driver: %d leaf runs + %d event runs of the real Plugin.Do (%d distinct records, %d files), %d configs "
             "(%d rejected by the plugin's own validation), %d panics, %.0fs"
             % (sm["leaf"], sm["events"], sm["unique_records"], len(files), sm["configs"], sm["skipped_configs"],
                sm["panics"], time.time() - t0))
    vlib.log("stress: %d concurrent runs of Do on instances sharing one config (%d ms per config, %d changes of event "
             "between consecutive runs), %d distinct (config, event, outcome) records"
             % (sm.get("stress_runs", 0), sm.get("stress_ms_per_config", 0), sm.get("stress_alternations", 0),
                sm.get("stress_outcomes", 0)))
    vlib.log("stress, match rules shared by 4 instances (each fed its own values; %d ms per config, 60%% at the default "
             "GOMAXPROCS, 40%% at GOMAXPROCS=1): %d concurrent evaluations of Do, %d of them started while another instance "
             "was inside Do" % (sm.get("rule_stress_ms_per_config", 0), sm.get("rule_stress_runs", 0),
                                sm.get("rule_stress_overlapped", 0)))
    if not ctx.replay and (sm.get("stress_runs", 0) < 2000 or sm.get("stress_outcomes", 0) < 24
                           or sm.get("rule_stress_runs", 0) < 2000):
        raise vlib.Infra("stress family did not run: %s" % sm)
    vlib.log("do_if-order family (a mask's do_if reads a field the plugin itself rewrites; field before / after / between "
             "the secrets): %d runs" % sm.get("doif_order_runs", 0))
    if not ctx.replay and sm.get("doif_order_runs", 0) < 200:
        raise vlib.Infra("do_if-order family did not run: %s" % sm)
    vlib.log("many-masks family (matching masks with / without own process / ignore lists behind 0, 1, 62, 63, 64, 65, 130 "
             "silent masks): %d runs" % sm.get("many_masks_runs", 0))
    if not ctx.replay and sm.get("many_masks_runs", 0) < 150:
        raise vlib.Infra("many-masks family did not run: %s" % sm)
    vlib.log("numeric-keys family (all-digit path elements x array index / object key / absent, global and mask-specific "
             "lists): %d runs" % sm.get("numeric_key_runs", 0))
    if not ctx.replay and sm.get("numeric_key_runs", 0) < 100:
        raise vlib.Infra("numeric-keys family did not run: %s" % sm)
    vlib.log("sequence family (2-3 masks x applied_field / metric_name set or not, every 2- and 3-event sequence through ONE "
             "instance): %d runs; rule-values family (prefix / suffix / contains x case x invert x value lists of different "
             "lengths): %d runs" % (sm.get("sequence_runs", 0), sm.get("rule_value_runs", 0)))
    if not ctx.replay and (sm.get("sequence_runs", 0) < 5000 or sm.get("rule_value_runs", 0) < 100):
        raise vlib.Infra("sequence / rule-values family did not run: %s" % sm)
    if not files or sm["unique_records"] == 0:
        raise vlib.Infra("driver produced no records")
    if not ctx.replay and (sm["leaf"] < 20000 or sm["events"] < 1000 or sm["matched"] < 10000):
        raise vlib.Infra("driver produced implausibly few records: %s" % sm)

    # the records themselves are needed again for the violation reports: index by id lazily
    info_path = os.path.join(outdir, "c17_info.ndjson")

    # ---- 3. TLC judges every record
    par, workers = (5, 3)
    lock = threading.Lock()
    agg = {"records": 0, "wall": 0.0, "runs": 0, "verdicts": []}
    t0 = time.time()
    with ThreadPoolExecutor(par) as ex:
        dirs = list(ex.map(lambda a: _trace_shard(ctx, a[0], a[1], workers, lock, agg), enumerate(files)))
    twall = time.time() - t0
    if agg["records"] != sm["unique_records"]:
        raise vlib.Infra("TLC evaluated %d records, the driver wrote %d" % (agg["records"], sm["unique_records"]))
    ctx.tlc_runs.append({"name": "MaskTrace/MaskTrace.cfg x%d record files" % agg["runs"], "generated": agg["records"],
                         "distinct": agg["records"], "depth": 0, "ok": True, "violated": None,
                         "wall_s": round(twall, 2), "cpu_wall_sum_s": round(agg["wall"], 2)})
    vlib.log("TLC validated %d records in %d runs, %.0fs wall; %d records fail some predicate"
             % (agg["records"], agg["runs"], twall, len(agg["verdicts"])))

    # ---- 4. violation records
    bad = {}
    for v in agg["verdicts"]:
        if v.get("assumption"):
            raise vlib.Infra("record %s breaks an assumption of the specification (malformed table / replacement "
                             "bytes inside the value): driver or spec out of date" % v.get("id"))
        bad[v["id"]] = v
    recs = []
    if bad:
        info = {}
        for line in open(info_path):
            r = json.loads(line)
            if r["id"] in bad:
                info[r["id"]] = r
        raw = {}
        for d in dirs:
            for line in open(os.path.join(d, "c17_records.ndjson")):
                # cheap pre-filter on the id prefix
                i = int(line[6:line.index(",")])
                if i in bad:
                    raw[i] = json.loads(line)
        for i, v in sorted(bad.items()):
            r, inf = raw[i], info.get(i, {})
            rec = {"fail": v["fail"], "fails": "+".join(v["fail"]), "situation": v["situation"],
                   "key": inf.get("key", ""), "id": i}
            if r["k"] == "L":
                rec.update({"re": inf.get("re"), "groups_configured": r["gc"], "groups": r["G"], "mode": r["mode"],
                            "max_count": r["mc"], "word": _bytes(r["word"]), "leaf": r["lk"], "value": _bytes(r["val"]),
                            "T": r["T"], "family": inf.get("fam")})
                if r["res"] == "panic":
                    rec.update({"kind": "panic", "panic_class": r["pc"], "panic_bounds": r["pb"],
                                "panic_as_modelled": bool(v["as_modelled"]), "panic": inf.get("pmsg", "")})
                else:
                    rec.update({"kind": "wrong_output", "after": _bytes(r["out"]), "after_kind": r["ok"],
                                "keys": r["keys"], "metric": r["met"], "mask_metric": r["mmet"],
                                "disjoint_ascending": bool(v["da"])})
            else:
                rec.update({"kind": "tree", "as_modelled": bool(v["as_modelled"]), "config": inf.get("conf"),
                            "event": inf.get("src"), "panic": inf.get("pmsg", ""),
                            "after": [[".".join(a["p"]), a["t"], _bytes(a["v"])] for a in r["after"]]})
            recs.append(rec)
    ctx.classify(recs)
    for f in vlib.load_findings(ctx.pid):
        if f.get("status") == "known" and f["id"] not in ctx.known_hits and not ctx.replay:
            vlib.log("note: known finding %s was NOT reproduced on this tree (fixed? then its entry is stale)" % f["id"])

    # ---- 5. evidence
    ctx.evaluations = agg["records"]
    ctx.traces_validated = (sm["leaf"] + sm["events"] + sm.get("stress_runs", 0) + sm.get("doif_order_runs", 0)
                            + sm.get("many_masks_runs", 0) + sm.get("numeric_key_runs", 0) + sm.get("sequence_runs", 0)
                            + sm.get("rule_value_runs", 0))
    ctx.nontrivial = sm["matched"] + sm["events"]
    ctx.exhaustive = thorough
    ctx.rule = ("record = one execution of the real Plugin.Do (started by the real Start): leaf records = curated regexp "
                "family x every non-empty subset and order of its groups, [0], lists containing 0 x all strings over "
                "{a,b,e-acute} up to length 4 (core; extended families: length 5%s, three-group regexps -- %s) x "
                "{asterisks max_count 0/1/2, replace word, cut} x {string, number}; card / phone / name / e-mail shapes "
                "from the repository tests; event records = nested objects / arrays / non-string leaves x 1-2 masks x "
                "global and per-mask process / ignore lists x match rules; do_if-order family = 1-2 masks whose do_if reads a "
                "field that an earlier mask, a later mask or the mask itself rewrites x events with that field before / "
                "after / between the secrets (later key, nested object, array); many-masks family = the matching masks (own process "
                "list, own ignore list, none + global lists) before / behind K in {0,1,62,63,64,65,130} masks that match nothing, "
                "judged with the silent masks projected away; numeric-keys family = all-digit path elements in global ignore / "
                "process lists and mask-specific lists x the addressed node being an array element, an object member with "
                "that key, or absent; sequence family = every 2- and 3-event sequence (mask A only / B only / both / none) through "
                "ONE instance x 2-3 masks x applied_field / metric_name set or not, each event judged alone; rule-values family = "
                "one match rule x {prefix, suffix, contains} x case_insensitive x invert x value lists of 1-3 values of different "
                "lengths; anchors families = expressions with leading ^ / \\A, trailing $, top-level alternation of "
                "an anchored and a free branch, (?m)^ over multi-line values; stress family = 4 instances started on ONE "
                "shared config (do_if-guarded masks, match rules, own lists) run concurrently over events with alternating "
                "do_if outcomes, and masks with match_rules (prefix / suffix / contains, case_insensitive on/off, invert, and/or, "
                "two rule sets) whose shared RuleSet objects are evaluated by the 4 instances on their own distinct values "
                "(default GOMAXPROCS and GOMAXPROCS=1), one record per distinct (config, event, outcome). Every record is evaluated by TLC against "
                "Mask.tla (identical records once). Non-trivial = the regexp matched (T non-empty; counted by the driver) "
                "or the record is an event." % ("-6" if thorough else "", "all" if thorough else "seeded 4% sample"))
    ctx.extra.update({"driver": sm, "failing_records": len(bad),
                      "records_by_verdict": _count(recs)})
    for r in recs[:2]:
        ctx.sample({k: r[k] for k in r if k not in ("after", "config")})
    for d in dirs[:1]:
        with open(os.path.join(d, "c17_records.ndjson")) as fh:
            for k, line in enumerate(fh):
                if k in (700, 3000):
                    ctx.sample(json.loads(line))
    ctx.assumptions += [
        "the regexp engine is the trusted base: its table T is an input of the specification (checked well-formed)",
        "values never contain bytes of the configured replacement ('*', 'X', 'Y'): which output bytes are replacement "
        "is then decidable from the output alone",
        "empty values are not processed (nothing to hide); the applied mark of an empty-matching regexp on an empty "
        "value is left open",
        "an empty selected range may render as the replace word or as nothing; overlapping / nested / descending "
        "selections only have to satisfy OutsideKept and SecretGone",
        "chains of two masks are judged where the first mask's result is uniquely determined; match rules are "
        "exercised on single-mask configurations (the statement does not say which value a later mask's rules see)",
        "events are JSON objects; do_if of a mask is exercised with field equal / prefix / suffix / contains, not, or "
        "conditions only (its own semantics belong to C14); its decision is demanded to be a function of the event as "
        "it arrived (MaskDoIf.tla: evaluate-once mechanism accepted, per-value re-evaluation rejected)",
        "the stress family (instances sharing one config, concurrent Do) detects a sharing bug only if a harmful "
        "interleaving occurs during its bounded run (%d ms per config): detection is probabilistic, absence of an alarm "
        "is not a proof; on correct code each event has exactly one outcome, so it cannot raise a false alarm"
        % sm.get("stress_ms_per_config", 0),
    ]


def _count(recs):
    c = {}
    for r in recs:
        k = "%s/%s/%s" % (r["kind"], r["situation"], r["fails"])
        c[k] = c.get(k, 0) + 1
    return c
