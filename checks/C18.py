"""C18 -- keep_fields and remove_fields select exactly the configured paths.

1. TLC checks specs/FieldSelect.tla exhaustively over the small scope (families of documents x selector
   lists): the transcriptions of cfg.ParseFieldSelector, cfg.ParseNestedFields, keep_fields.traverseFieldsTree
   (per-depth delete buffers) and remove_fields' Dig+Suicide loop equal the declarative Keep / Remove / Norm
   (exactly with an order-preserving delete; up to member order under the named deviation D_SwapDelete, which
   is what insane-json's Suicide does), the declarative functions are the statement read in terms of paths,
   Untouched and Idempotent hold; every case is exported with the declaratively expected documents.
2. Every exported case is executed on the REAL plugins (real Start on selector strings with escaped dots,
   real Do on a real insaneJSON root, twice per instance) and the encoded result is compared as an ordered
   token sequence with the expectation.
   WIDE cases (document contains the marker member): the marker is widened to 1 / 99 / 100 / 101 / 150 / 250
   never-selected members junk_i (specification lemma WidthIndependent), document and expectation alike, and the
   events go through ONE plugin instance in ascending and (second instance) descending width.
   The spec mutant ~M_DepthBuffersDisjoint ("all depth buffers are windows of one backing array", Cap = 2) must be
   rejected by TLC (FieldSelect_mutant_sharedbuf.cfg) and accepted with the mechanism switched on.
   EVENT KINDS: every ordinary case also runs as a CHILD event (built as processor.Spawn builds it) and as a
   CHILD-PARENT event; a seeded sample of cases, grouped by selector list, runs end to end on a running pipeline
   [split, keep_fields | remove_fields] with the documents as the elements of the split array.  The spec mutant
   ~M_AllDocumentKindsFiltered ("only regular events are filtered") must be rejected by TLC.
   INSTANCES: for a seeded sample of selector lists, N >= 4 real plugin instances are started from ONE shared config
   object (as the pipeline starts one plugin per processor) and run concurrently for a bounded time on their own
   documents; every result is compared; the overlap achieved is reported.  The spec mutant ~M_BuffersPerInstance
   ("instances share the backing arrays") must be rejected by TLC, the faithful two-instance model must pass.
   NAME LENGTH: every ordinary case runs once more with its names replaced by a name table of the lengths 1 ... 1000
   (specification lemma RenameInvariant); the spec mutant ~M_NamesComparedWhole ("a name of NameW or more characters
   is never found") must be rejected by TLC.
   NUMBER OF SELECTORS: ordinary cases run once more with the list padded to 9 / 10 / 16 / 40 selectors by selectors
   no document matches (lemma PadIrrelevant; every 2nd case in quick); the spec mutant ~M_RemovePerSelector ("delete
   while scanning the members by index") must be rejected by TLC.
3. A difference is a violation record {plugin, kind, as_swap_delete_model, event, ...}; records matching a
   known finding are KNOWN-FINDING, everything else is a VIOLATION.
"""
import concurrent.futures
import json
import os
import re

import vlib

LEVEL = "model_checking"
PKGS = ["plugin/action/keep_fields", "plugin/action/remove_fields"]
_INIT = re.compile(r"Finished computing initial states: (\d+) distinct state")


def _has_junk(v):
    if not isinstance(v, list):
        return False
    if v[0] == 0:
        return any(v[i] == 9 or _has_junk(v[i + 1]) for i in range(1, len(v) - 1, 2))
    return any(_has_junk(x) for x in v[1:])


def run(ctx):
    total = None
    # the two harness binaries are compiled in the background while TLC runs
    ctx.overlay_json()
    pool = concurrent.futures.ThreadPoolExecutor(max_workers=1)     # one at a time: go_test_build is not re-entrant
    builds = {pkg: pool.submit(ctx.go_test_build, pkg) for pkg in PKGS}
    if ctx.replay:
        cases = [r["case"] for r in json.load(open(ctx.replay))]
        cases = list(dict.fromkeys(cases))
    else:
        cfg = "FieldSelect_quick.cfg" if ctx.tier == "quick" else "FieldSelect_thorough.cfg"
        res = ctx.tlc_expect_ok("FieldSelect", cfg, timeout=2700 if ctx.tier == "quick" else 3000, deadlock=False)
        cases = [ln[5:-1] for ln in res.out.splitlines() if ln.startswith('"C18 [') and ln.endswith(']"')]
        m = _INIT.search(res.out)
        if not m:
            raise vlib.Infra("cannot find the number of initial states in the TLC output")
        docs = int(m.group(1))
        if len(cases) != res.distinct - docs:
            raise vlib.Infra("TLC exported %d cases but explored %d case states" % (len(cases), res.distinct - docs))
        if len(cases) < 100000:
            raise vlib.Infra("TLC exported only %d cases" % len(cases))
        res.out = ""
        # mechanism check: the spec with one shared backing array for all depth buffers must violate Keep
        # (so the small scope contains the situation that distinguishes it), the spec as the code is must not
        mut = ctx.tlc("FieldSelect", "FieldSelect_mutant_sharedbuf.cfg", timeout=1800, deadlock=False,
                      name="mutant shared backing array (must be rejected)")
        if mut.ok or mut.violated != "MutantInv":
            raise vlib.Infra("spec mutant ~M_DepthBuffersDisjoint was not rejected by TLC (%s)\n%s" %
                             (mut.violated, mut.out[-1500:]))
        if ctx.tier == "thorough":
            ctx.tlc_expect_ok("FieldSelect", "FieldSelect_mutant_sharedbuf.cfg", timeout=1800, deadlock=False, count=False,
                              overrides={"M_DepthBuffersDisjoint": "TRUE"}, name="same scope, buffers disjoint (must pass)")
        mk = ctx.tlc("FieldSelect", "FieldSelect_mutant_kinds.cfg", timeout=1800, deadlock=False,
                     name="mutant only regular events filtered (must be rejected)")
        if mk.ok or mk.violated != "MutantKindInv":
            raise vlib.Infra("spec mutant ~M_AllDocumentKindsFiltered was not rejected by TLC (%s)\n%s" %
                             (mk.violated, mk.out[-1500:]))
        # two plugin instances with interleaved buffer operations: as the code is (own buffers) must pass,
        # the mutant "instances share the backing arrays" must be rejected
        ctx.tlc_expect_ok("FieldSelect", "FieldSelect_instances.cfg", timeout=1800, deadlock=False,
                          name="two instances, all interleavings of buffer operations (must pass)")
        mi = ctx.tlc("FieldSelect", "FieldSelect_mutant_instances.cfg", timeout=1800, deadlock=False,
                     name="mutant instances share the backing arrays (must be rejected)")
        if mi.ok or mi.violated != "InstInv":
            raise vlib.Infra("spec mutant ~M_BuffersPerInstance was not rejected by TLC (%s)\n%s" %
                             (mi.violated, mi.out[-1500:]))
        mn = ctx.tlc("FieldSelect", "FieldSelect_mutant_names.cfg", timeout=1800, deadlock=False,
                     name="mutant long names never found (must be rejected)")
        if mn.ok or mn.violated != "MutantInv":
            raise vlib.Infra("spec mutant ~M_NamesComparedWhole was not rejected by TLC (%s)\n%s" %
                             (mn.violated, mn.out[-1500:]))
        msc = ctx.tlc("FieldSelect", "FieldSelect_mutant_scan.cfg", timeout=600, deadlock=False,
                      name="mutant delete while scanning by index (must be rejected)")
        if msc.ok or msc.violated != "MutantScanInv":
            raise vlib.Infra("spec mutant ~M_RemovePerSelector was not rejected by TLC (%s)\n%s" %
                             (msc.violated, msc.out[-1500:]))
        cex = re.search(r"State 2:.*?\n(.*?)\n\s*\n", mut.out, re.S)
        ctx.extra["spec_mutants_rejected"] = ["M_DepthBuffersDisjoint=FALSE: " +
                                              (" ".join(cex.group(1).split())[:700] if cex else "?"),
                                              "M_AllDocumentKindsFiltered=FALSE: MutantKindInv violated",
                                              "M_BuffersPerInstance=FALSE: InstInv violated",
                                              "M_NamesComparedWhole=FALSE: MutantInv violated",
                                              "M_RemovePerSelector=FALSE: MutantScanInv violated"]
        total = len(cases)
        ctx.extra["documents"] = docs
        ctx.rng.shuffle(cases)          # the whole exported scope is replayed in both tiers; the seed orders it
    path = os.path.join(ctx.scratch, "c18_cases.ndjson")
    with open(path, "w") as f:
        f.write("\n".join(cases))
        f.write("\n")

    # end-to-end sample: cases that share the selector list become the elements of one split array
    e2e_path = os.path.join(ctx.scratch, "c18_e2e.ndjson")
    groups, wgroups = {}, {}
    for ln in cases[:60000]:
        t = json.loads(ln)
        (wgroups if _has_junk(t[1]) else groups).setdefault((t[0], json.dumps(t[2])), []).append(ln)
    want_groups = 30 if ctx.tier == "quick" else 200
    picked = [g[:12] for g in sorted(groups.values(), key=len, reverse=True)[:4 * want_groups]]
    ctx.rng.shuffle(picked)
    picked = picked[:want_groups]
    with open(e2e_path, "w") as f:
        for g in picked:
            f.write(json.dumps(g) + "\n")

    # concurrent-instances sample: groups of >= 4 cases with one selector list (wide ones first: long collect phases)
    stress_path = os.path.join(ctx.scratch, "c18_stress.ndjson")
    n_stress = 3 if ctx.tier == "quick" else 10
    stress = []
    for pool in (wgroups, groups):
        cand = [g[:8] for g in pool.values() if len(g) >= 4]
        ctx.rng.shuffle(cand)
        stress += cand[:n_stress]
    if ctx.replay:
        # re-execute the recorded cases concurrently too: every selector list of the replay, padded to 4 documents
        stress = [(g * 4)[:max(4, min(8, len(g)))] for pool in (wgroups, groups) for g in pool.values()][:40]
    elif len(stress) < 2:
        raise vlib.Infra("no groups for the concurrent-instances run")
    with open(stress_path, "w") as f:
        for g in stress:
            f.write(json.dumps(g) + "\n")
    stress_ms = 350 if ctx.tier == "quick" else 600

    recs = []
    per_plugin = {}
    for pkg in PKGS:
        name = pkg.rsplit("/", 1)[1]
        binary = builds[pkg].result()
        out = os.path.join(ctx.scratch, "c18_out_%s.json" % name)
        rc, txt = ctx.run_bin(binary, "^TestVerifC18$",
                              env={"VERIF_CASES": path, "VERIF_OUT": out, "VERIF_E2E": e2e_path, "VERIF_STRESS": stress_path,
                                   "VERIF_STRESS_MS": stress_ms, "VERIF_NAME_EVERY": 3 if ctx.tier == "quick" else 1, "VERIF_PAD_EVERY": 2 if ctx.tier == "quick" else 1, "VERIF_NAME_ALL": 1 if ctx.replay else 0,
                                   "LOG_LEVEL": "error"}, timeout=9000)
        if rc != 0 or not os.path.exists(out):
            raise vlib.Infra("C18 harness (%s) failed rc=%s:\n%s" % (name, rc, txt[-3000:]))
        r = json.load(open(out))
        if r["bad_lines"] or r["executed"] != len(cases):
            raise vlib.Infra("harness %s executed %d of %d cases (%d unreadable)" %
                             (name, r["executed"], len(cases), r["bad_lines"]))
        if r["predictor_disagrees"]:
            raise vlib.Infra("harness %s: order predictor disagrees with the specification's transcription on %d cases" %
                             (name, r["predictor_disagrees"]))
        if r["stress_groups"] != len(stress):
            raise vlib.Infra("harness %s ran %d of %d concurrent groups" % (name, r["stress_groups"], len(stress)))
        if r["e2e_groups"] != len(picked):
            raise vlib.Infra("harness %s ran %d of %d end-to-end groups" % (name, r["e2e_groups"], len(picked)))
        per_plugin[name] = {k: r[k] for k in ("executed", "events", "wide_cases", "e2e_groups", "e2e_documents", "stress_groups", "stress_instances",
                                              "stress_do_calls", "stress_overlapping_do_calls", "nontrivial", "reordering_predicted",
                                              "mismatch_counts")}
        for m in r["mismatches"] or []:
            recs.append(m)
    ctx.extra["per_plugin"] = per_plugin
    ctx.evaluations = sum(p["executed"] for p in per_plugin.values())
    ctx.traces_validated = sum(p["events"] for p in per_plugin.values())     # every Do call is compared
    ctx.nontrivial = sum(p["nontrivial"] for p in per_plugin.values())
    ctx.exhaustive = not ctx.replay
    ctx.rule = ("case = (JSON object with unique keys over the names a, b, 'a.b', 'a.b.a', 'b.a', <= 5 members, depth <= 3, leaf kinds 1 / \"s\" / "
                "null / [] / [{\"a\":1}] / {}; list of 1-3 selectors of length <= 3 over the same names, written with "
                "escaped dots, short-first / long-first / with a repeat), enumerated exhaustively by TLC per family (%s "
                "cases); every case is run on the real keep_fields and remove_fields (Start + Do as regular event twice, as child event, as child-parent event, and (every 3rd case in quick, every case in thorough) once with names of one of the lengths 1..1000) and the encoded "
                "event compared token by token with the declarative expectation; cases with the marker member are widened "
                "to 1/99/100/101/150/250 junk members per marker and run through one instance in ascending and one in "
                "descending width (12 events). Non-trivial = (case, plugin) pairs whose "
                "expected result is neither the unchanged document nor {} (counted by the harness)."
                % (total if total is not None else "replayed %d" % len(cases)))
    for c in cases[:3]:
        ctx.sample({"case": c, "format": "[family, document, selectors, expected keep, expected remove, "
                                         "model keep under D_SwapDelete or 0, model remove or 0]"})
    ctx.assumptions += [
        "key names are non-numeric: insane-json Dig indexes ARRAYS by a decimal path element (remove_fields 'x.0' deletes "
        "element 0 of array x while keep_fields ignores such a path); that addressing mode is not judged here",
        "unique keys per object (as the property quantifies); objects have at most 5 members, so insane-json's map mode "
        "(> 16 members) is not exercised",
        "time-out / unlock events (nil Root) are outside the property; child events are built as processor.Spawn builds them "
        "(direct) or by the real split action on a running single-processor pipeline (sampled)",
        "concurrency of plugin instances is bound by a timed concurrent run (Do cannot be split): N = min(8, max(4, GOMAXPROCS)) "
        "instances from one Config, overlap measured; the two-instance TLC model interleaves at the granularity of buffer "
        "operations (append / delete loop / reset)",
        "selector strings use the documented backslash escape only (the undocumented '..' form of ParseFieldSelector is "
        "transcribed in the spec but not driven)",
    ]
    ctx.classify(recs)
