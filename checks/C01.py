"""C01 -- commit frontier safety: nothing is committed past an unfinished event.

1. TLC checks specs/Pipeline.tla (design model of the data path, one action per critical section) exhaustively:
   C01 (and the sibling properties) hold in every reachable state without a dead queue; with a dead queue the
   residual property holds and the known finding D2 is reproduced at design level.
2. TLC generates gate-level schedules: shortest counterexamples of the specification with one mechanism disabled
   (commit in batch-sequence order, no input notification on discard, detach only when committed, monotone stream
   commit, retry keeps the batch uncommitted, dead queue empties the batch) and random simulated behaviours.
3. The schedules are replayed into the REAL pipeline through plugin-boundary gates, together with seeded random
   runs; every run is recorded and TLC validates the traces against the property monitors (PipelineMon.tla).
"""
import core
import vlib

LEVEL = "model_checking"
PID = "C01"

MUTANTS = [
    ("M_SeqCommit", {"Classes": '{"P"}', "Strs": '{"a"}'}),
    ("M_NoNotifyOnDiscard", {}),
    ("M_CommitMax", {}),
    ("M_RetryHolds", {"Classes": '{"P"}', "Strs": '{"a"}', "MaxFails": "1", "Retry": "1"}),
    ("M_DQEmptiesBatch", {"Classes": '{"P"}', "Strs": '{"a"}', "MaxFails": "2", "HasDQ": "TRUE", "MaxId": "2"}),
    # split: the children fill a batch, the parent (whose Commit the input sees) sits in the next one
    ("M_SeqCommit", dict(core.SPLIT, MaxId="22")),
    ("M_TimerFlushesAny", dict(core.SPLIT, MaxId="22")),
    # a child held by the join-like action right behind the split: Spawn's closing time-outs flush it before the parent goes on
    ("M_SpawnFlushesBusy", dict(core.SPLIT, MaxId="22", Classes='{"P", "Y"}')),
    # a selective join-like action: an event its selector does not match must still go through it while it holds a run
    ("M_BusyTakesAll", {"Classes": '{"H", "N", "C"}', "Strs": '{"a"}', "_cfg": "Pipeline_props.cfg"}),
    # refused by the input's own PassEvent (the file input after a restart): the pooled event goes back exactly once
    ("M_RefusedBackOnce", {"Classes": '{"P", "X"}', "Strs": '{"a"}', "Capacity": "2"}),
]


def real_split_stage(ctx, pid):
    import json
    import os
    thorough = ctx.tier == "thorough"
    binary = ctx.go_test_build("plugin/action/split")
    rng = ctx.rng
    scs = []
    for k in range(60 if thorough else 16):
        nl = rng.randint(2, 6)
        lines = [dict(id=i + 1, shape=rng.choice(["objects", "objects", "strings", "numbers", "mixed", "empty", "scalar", "absent"]), n=rng.randint(1, 3))
                 for i in range(nl)]
        scs.append(dict(run=80000 + k, name="real-split-%d" % k, batch=rng.choice([1, 2, 3, 4]), workers=rng.choice([1, 2]), flush_ms=rng.choice([5, 20]),
                        lines=lines))
    cases = os.path.join(ctx.scratch, "c01_split_cases.ndjson")
    with open(cases, "w") as f:
        for sc in scs:
            f.write(json.dumps(sc) + "\n")
    out = os.path.join(ctx.scratch, "c01_split_trace.ndjson")
    rc, txt = ctx.run_bin(binary, "^TestVerifC01Split$", env={"VERIF_CASES": cases, "VERIF_OUT": out}, timeout=1800)
    if rc != 0 or not os.path.exists(out):
        crash = core.classify_crash(txt)
        if crash is None:
            raise vlib.Infra("real-split harness failed rc=%s:\n%s" % (rc, txt[-3000:]))
        ctx.classify([crash])
        return
    viol, nlines = core.validate(ctx, out, maxid=64)
    ctx.evaluations += len(scs)
    ctx.traces_validated += len(scs)
    ctx.extra["real_split_runs"] = len(scs)
    by_run = {sc["run"]: sc for sc in scs}
    kinds = core.KINDS[pid] | {"commit_unacked", "not_idle", "unaccounted"}
    ctx.classify(core.records(viol, by_run, kinds))


def run(ctx, pid=PID, families=(("commit", 120, 600), ("retry", 60, 300)), mutants=MUTANTS):
    thorough = ctx.tier == "thorough"
    ctx._core_bin = ctx.go_test_build("pipeline")      # fail fast if the tree does not build
    # 1. design level
    import os
    dev = os.environ.get("VERIF_DEV_SKIP_DESIGN") == "1"     # development aid for mutation testing only
    if not dev:
      ctx.tlc_expect_ok("Pipeline", "Pipeline_base.cfg", timeout=4500, deadlock=False,
                      overrides={"MaxId": "4"} if thorough else None, name="Pipeline/base")
      ctx.tlc_expect_ok("Pipeline", "Pipeline_base.cfg", timeout=4500, deadlock=False,
                      overrides={"Classes": '{"P", "H", "C"}', "Strs": '{"a"}', "MaxId": "4" if thorough else "3"}, name="Pipeline/hold")
      ctx.tlc_expect_ok("Pipeline", "Pipeline_base.cfg", timeout=4500, deadlock=False,
                      overrides={"Classes": '{"N", "H", "C", "P"}', "Strs": '{"a"}', "MaxId": "4" if thorough else "3"}, name="Pipeline/hold-selective")
      ctx.tlc_expect_ok("Pipeline", "Pipeline_res.cfg", timeout=4500, deadlock=False,
                      overrides={"HasDQ": "TRUE", "MaxFails": "2", "Classes": '{"P"}', "Strs": '{"a"}',
                                 "MaxId": "4" if thorough else "3"}, name="Pipeline/dq-residual")
      ctx.tlc_expect_ok("Pipeline", "Pipeline_base.cfg", timeout=4500, deadlock=False,
                      overrides=dict(core.SPLIT, BatchCount="1") if thorough else dict(core.SPLIT), name="Pipeline/split")
      if thorough:
          ctx.tlc_expect_ok("Pipeline", "Pipeline_base.cfg", timeout=4500, deadlock=False, overrides=dict(core.SPLIT), name="Pipeline/split-batch2")
      ctx.tlc_expect_ok("Pipeline", "Pipeline_res.cfg", timeout=4500, deadlock=False,
                      overrides=dict(core.SPLIT, HasDQ="TRUE", MaxFails="2", MaxId="24" if thorough else "22"), name="Pipeline/split-dq-residual")
      ctx.tlc_expect_ok("Pipeline", "Pipeline_base.cfg", timeout=4500, deadlock=False,
                      overrides=dict(core.SPLIT, Classes='{"P", "Y", "H"}'), name="Pipeline/split-held-child")
    d2 = ctx.tlc("Pipeline", "Pipeline_d2.cfg", timeout=2700, deadlock=False,
                 overrides={"HasDQ": "TRUE", "MaxFails": "2", "Classes": '{"P"}', "Strs": '{"a"}'}, name="Pipeline/dq-D2")
    if d2.ok:
        raise vlib.Infra("design model no longer reproduces known finding D2; specification is stale")
    # 2. schedules
    scen = []
    groups = []            # (model constants, run numbers) of the runs generated from the model: validated for conformance
    run_no = 1
    d2last = d2.trace[-1][1]
    scen.append(core.scripted(run_no, "D2-design-counterexample", core.parse_lines(d2last["lines"]),
                              core.parse_sched(d2last["sched"]),
                              {"Capacity": 4, "NWorkers": 2, "BatchCount": 1, "Retry": 0, "HasDQ": True}))
    run_no += 1
    for sw, ov in mutants:
        ov = dict(ov)
        cfg = ov.pop("_cfg", "Pipeline_base.cfg")
        lines, steps, violated = core.mutant_schedule(ctx, sw, ov, cfg=cfg)
        scen.append(core.scripted(run_no, "mutant-%s" % sw, lines, steps, core.consts_of(ov)))
        groups.append((core.consts_of(ov), [run_no]))
        ctx.sample({"schedule_from_spec_mutant": sw, "violates_in_mutant_spec": violated, "lines": lines, "steps": steps})
        run_no += 1
    for ov in ({}, {"BatchCount": "2"}, {"HasDQ": "TRUE", "MaxFails": "2", "Classes": '{"P"}'},
               {"Classes": '{"P", "H", "C"}', "Strs": '{"a"}', "MaxId": "4"}, {"Classes": '{"N", "H", "C"}', "Strs": '{"a"}', "MaxId": "4"},
               {"Capacity": "1", "Classes": '{"P", "D", "R", "X"}'}, dict(core.SPLIT), dict(core.SPLIT, BatchCount="1", Classes='{"P", "S", "H"}'),
               dict(core.SPLIT, Classes='{"P", "Y", "H"}')):
        g = []
        for lines, steps in core.simulated_schedules(ctx, 60 if thorough else 12, ov):
            scen.append(core.scripted(run_no, "sim-%d" % run_no, lines, steps, core.consts_of(ov)))
            g.append(run_no)
            run_no += 1
        groups.append((core.consts_of(ov), g))
    for fam, nq, nt in families:
        scen += core.random_scenarios(ctx, 2 * nt if thorough else nq, fam, start_run=run_no)   # thorough: twice the table's count
        run_no = scen[-1]["run"] + 1
    scen += core.directed_scenarios(run_no)
    run_no = scen[-1]["run"] + 1
    # streams that saw time-outs and then detach / re-charge while acknowledgements are outstanding (every accepted event accounted for)
    det = core.detach_scenarios(ctx, 24 if thorough else 8, run_no)
    run_no += len(det)
    scen += det
    stp = core.stopretry_scenarios(ctx, 12 if thorough else 4, run_no)
    run_no += len(stp)
    scen += stp
    # the put || tryUnblock window (sequential: it pins the process to one P for an instant)
    win = core.window_scenarios(ctx, 24 if thorough else 8, run_no)
    run_no += len(win)
    core.execute_and_validate(ctx, pid, win, par=1)
    if pid == "C01":
        # a delivery function that panics: nothing of its batch is acknowledged to the input (child process: the panic ends it)
        import json
        outp = os.path.join(ctx.scratch, "c01_panic.json")
        rc, txt = ctx.run_bin(ctx._core_bin, "^TestVerifC01Panic$", env={"VERIF_OUT": outp, "VERIF_C01_PANIC": "1"}, timeout=600)
        if rc != 0 or not os.path.exists(outp):
            raise vlib.Infra("C01 panic harness failed rc=%s:\n%s" % (rc, txt[-2000:]))
        pr = json.load(open(outp))
        if pr["sends"] < 1:
            raise vlib.Infra("the panicking delivery function was never called: %s" % pr)
        ctx.evaluations += 1
        ctx.extra["delivery_function_panic"] = {k: pr[k] for k in ("child_panic", "sends", "commits", "survived")}
        if pr["commits"] > 0:
            ctx.classify([{"kind": "commit_after_delivery_panicked", "commits": pr["commits"], "sends": pr["sends"], "process_survived": pr["survived"]}])
    if pid in ("C01", "C09"):
        bud = core.budget_scenarios(ctx, run_no)
        run_no += len(bud)
        core.execute_and_validate(ctx, pid, bud, par=4)
    # 3. real code + trace validation, in chunks
    chunk = 150
    for i in range(0, len(scen), chunk):
        core.execute_and_validate(ctx, pid, scen[i:i + chunk])
        if i == 0 and groups:
            # conformance of the model-generated runs: each must be a behaviour of Pipeline.tla (PipelineTrace.tla)
            acc, rej = core.conformance(ctx, ctx._last_trace, groups)
            ctx.extra["conformance_runs_accepted"] = acc
            ctx.extra["conformance_runs_rejected"] = rej[:10]
            ctx.drift += len(rej)
            for r in rej[:5]:
                vlib.log("MODEL-DRIFT: run %s is not a behaviour of Pipeline.tla (followed %s of %s lines; next: %s)" % (r["run"], r["reached"], r["lines"], r["next_line"]))
            first = next((g for g in groups if g[1]), None)
            if first:
                ok = core.conformance_selftest(ctx, ctx._last_trace, first[0], first[1][0])
                ctx.extra["conformance_rejects_corrupted_trace"] = ok
                if ok is False:
                    raise vlib.Infra("trace specification accepted a corrupted trace: binding is vacuous")
    # 4. the REAL split action in front of a batched output: every shape of the split field (the harness-owned split above spawns
    #    whatever it is told; the real plugin decides by the field's content)
    real_split_stage(ctx, pid)
    ctx.rule = ("scenario = (lines with source/stream/class, configuration, gate-level schedule or seed); schedules come from "
                "TLC counterexamples of spec mutants, TLC simulation of Pipeline.tla and a seeded random generator. "
                "Non-trivial/distinct = distinct renamed sequences of send-return/commit/drop steps of runs in which a "
                "later-read event finished before an earlier one or a batch was given up (counted from the traces).")
    ctx.assumptions += ["harness-owned input/action/output plugins around the real Pipeline, Batcher and RetriableBatcher",
                        "action chain limited to filter + join-like action (classes P,D,B,H,C,R,E)",
                        "a schedule the real code cannot follow is counted as diverged, never as a violation"]
