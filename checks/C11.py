"""C11 -- HTTP input: the events are the body's lines however the body is chunked; 200 only after every
line was handed over; concurrent requests never mix.

1. TLC checks specs/HttpChunk.tla exhaustively in small scope:
   * serial configuration: the step-by-step transcription of serveBulk/processBulk/processChunk (carry-over
     buffer, pooled buffers re-used by the next request, source-id free list, the EOF flavours of the last
     read, empty reads, reader errors) satisfies the declarative oracle Expected(body) = SplitOnNL(body)
     (LinesExact, LinesPrefix, CarryIsTail, OKOnlyAfterAllLines, NoOKOnError, NoForeignBytes, ...) for every
     body x every split into reads x every end flavour, for one request and for two successive requests
     (second body shorter); every case is exported with the declaratively expected lines;
   * concurrent configuration: two requests interleaved at the granularity of the shared operations
     (SidExclusive, NoMixing); buffers have identity and are OWNED from the pool Get to the explicit Put step, the
     In call of the final flush is not atomic (the pipeline may copy the bytes later): BufOwned, PendingStable;
   * the end of the stream is a dimension: io.EOF | io.ErrUnexpectedEOF (with or without data) | another error; only
     io.EOF ends a body cleanly;
   * gz configuration: the three-step sequence good gzip request, gzip request with a bad header (Reset of the pooled
     reader fails), two overlapping gzip requests; the pooled *gzip.Reader objects have identity and an owner
     (PoolHoldsEachObjectOnce, ReaderIsMine);
   * gzone / mes / hdr configurations: one request x its compressed size (Content-Length), x the pipeline's
     max_event_size, x Content-Type and the plugin's meta option: none of them changes what is handed over
     (M_GzipStreamUnbounded, M_CarryUnbounded, M_BodyOnlyReadByBulk);
   * spec mutants (carry-over dropped, final flush missing / unconditional, pooled buffer not re-sliced,
     status before the flush, source id released early, buffers put back before the last In, io.ErrUnexpectedEOF
     taken for the end of the body, gzip reader put twice, decompressed stream limited by Content-Length, carry-over
     capped at max_event_size) must each be REJECTED by the invariants; where a window is needed TLC must also
     construct it from the observable invariants ("another request takes the buffer between the Put and the moment
     the pending In copies the bytes", "two requests hold the same gzip reader").
2. Every exported case is replayed on the REAL plugin (real Start with address "off", real ServeHTTP),
   plain and gzip; a seeded family blows the symbols up so that lines cross the real read buffer; a seeded
   family serves requests over disjoint alphabets in parallel on one plugin (with and without a rendezvous
   inside Read); a seeded family constructs the blocked-In window on the real plugin: the recording controller's In
   parks on request A's k-th call (mostly its unterminated last line) BEFORE the bytes are copied, request B (line
   split over two reads, carry-over written into a pooled buffer) is served meanwhile from inside that call, then A's
   In goes on; once with GOMAXPROCS(1), once with the default.  In-calls (bytes as the pipeline would copy them),
   status and its position are compared with the specification's expectation.  Every serial case is also run with
   a REAL truncated gzip payload (cut inside the header / the deflate data / the trailer, never on a member boundary)
   and a clean transport EOF (a 200 is a violation unless all lines were handed over), and under a pipeline whose
   max_event_size is below / equal to / above the longest line.  Gzip requests WITH a Content-Length and highly
   repetitive bodies (ratios 50 .. 1000) must hand over every line.  The gzip sequence is constructed on the real
   plugin (GC off): good request, bad-header request, a white-box look that the pool does not hand the same
   *gzip.Reader to two holders, then request A blocked in its first In while B is served.
"""
import copy
import json
import os
import re
import threading

import vlib

LEVEL = "model_checking"

SPEC_MUTANTS = [  # (Mutant, Mode)
    ("no_reslice_on_get", "serial"), ("no_final_flush", "serial"), ("flush_always", "serial"),
    ("drop_carry", "serial"), ("early_status", "serial"), ("sid_early_release", "conc"),
    ("put_before_last_in", "serial"),   # mechanism M_PutAfterLastIn off: rejected by the ownership invariant BufOwned
    ("ueof_is_eof", "serial"),          # io.ErrUnexpectedEOF counts as the end of the body: rejected by OKOnlyAfterAllLines
    ("gz_double_put", "gz"),            # failed Reset puts the pooled gzip reader back AND the deferred Put runs: PoolHoldsEachObjectOnce
]
# mechanism M_GzipStreamUnbounded off (decompressed stream limited to Content-Length * R, clean EOF at the limit): needs
# bodies longer than 2 x their compressed size, i.e. the gzone configuration


def read_buf_len():
    try:
        src = open(os.path.join(vlib.REPO, "plugin/input/http/http.go")).read()
        m = re.search(r"readBufDefaultLen\s*=\s*(\d+)\s*\*\s*(\d+)", src)
        if m:
            return int(m.group(1)) * int(m.group(2))
        m = re.search(r"readBufDefaultLen\s*=\s*(\d+)", src)
        if m:
            return int(m.group(1))
    except OSError:
        pass
    return 16 * 1024


def has_symbol(req):
    return any(s != 0 for s in req["body"])


def in_calls_on_both_sides(req):
    """a non-empty line is complete inside the first read and another non-empty line ends later: a request that
    waits inside its 2nd Read has In calls before and after the rendezvous"""
    first = req["body"][:req["sizes"][0]]
    done, cur = 0, 0
    for s in first:
        if s == 0:
            done += 1 if cur else 0
            cur = 0
        else:
            cur += 1
    return done >= 1 and sum(1 for l in req["exp"] if l) > done


def build_cases(ctx, exported):
    """serial: every exported case; long + conc: seeded derivations of exported cases."""
    quick = ctx.tier == "quick"
    rng = ctx.rng
    rb = read_buf_len()
    lines = []
    nid = 0
    for c in exported:
        lines.append({"fam": "serial", "id": nid, "reqs": c["reqs"]})
        nid += 1
    # ---- long lines: symbols blown up to runs so that lines / reads cross the real read buffer
    scales = [rb - 1, rb, rb + 1, 2 * rb + 5, rb // 3 + 1, rb // 2, 3000, 2 * rb + rb // 2]
    cand = [c for c in exported if all(has_symbol(r) for r in c["reqs"][:1])]
    n_long = 3000 if quick else 40000
    for _ in range(n_long):
        c = rng.choice(cand)
        gz = 1 if rng.random() < 0.4 else 0
        lines.append({"fam": "long", "id": nid, "reqs": c["reqs"], "scale": rng.choice(scales),
                      "unlim": rng.random() < 0.5, "gz": gz, "trunc": bool(gz and rng.random() < 0.4),
                      "mes": rng.choice([0, 0, 1, 2, 3, 4]), "ctype": rng.choice([0, 0, 1, 2, 3, 4, 4, 5])})
        nid += 1
    # ---- over a real TCP connection to a real net/http server in front of a plugin WITH the meta option, every
    #      Content-Type, with Content-Length or chunked, plain and gzip
    clean = [c["reqs"][0] for c in exported if len(c["reqs"]) == 1 and c["reqs"][0]["end"] in ("with", "after")]
    for i in range(400 if quick else 4000):
        lines.append({"fam": "srv", "id": nid, "reqs": [rng.choice(clean)], "ctype": 1 + (i // 2) % 5, "gz": (i // 10) % 2,
                      "scale": rng.choice([1, 1, 7, 300, 9000])})
        nid += 1
    # ---- compressibility and Content-Length: gzip requests WITH a Content-Length whose highly repetitive body inflates
    #      about 50 / 99 / 100 / 101 / 150 / 300 / 1000 times (0: as much as it gets), one member and multi-member
    def repeatable(r):
        e = r["exp"]
        return r["end"] in ("with", "after") and r["sizes"] and has_symbol(r) and \
            (any(e[:-1]) or (r["body"][-1] == 0 and bool(e[-1])))
    rep_ok = [c["reqs"][0] for c in exported if len(c["reqs"]) == 1 and repeatable(c["reqs"][0])]
    targets = [50, 99, 100, 101, 150, 300, 1000, 0]
    for i in range((12 if quick else 120) * len(targets) * 2):
        lines.append({"fam": "ratio", "id": nid, "reqs": [rng.choice(rep_ok)], "ratio": targets[i % len(targets)],
                      "gzmode": 2 + (i // len(targets)) % 2, "size": rng.choice([60000, 150000, 300000]),
                      "scale": rng.choice([1, 7, 40])})
        nid += 1
    # ---- concurrent rounds
    single = [c["reqs"][0] for c in exported if len(c["reqs"]) == 1 and c["reqs"][0]["end"] in ("with", "after")]
    barrier_ok = [r for r in single if len(r["sizes"]) >= 2 and not r["zr"] and has_symbol(r)]
    both_sides = [r for r in barrier_ok if in_calls_on_both_sides(r)]
    n_rounds = 300 if quick else 3000
    for i in range(n_rounds):
        g = (2, 4, 8)[i % 3]
        pool = both_sides if i % 2 == 0 and both_sides else barrier_ok
        lines.append({"fam": "conc", "id": nid, "barrier": True, "scale": rng.choice([1, 1, 5, 64]), "gz": 0,
                      "g": [[rng.choice(pool)] for _ in range(g)]})
        nid += 1
    for i in range(n_rounds):
        g = (2, 4, 8)[i % 3]
        lines.append({"fam": "conc", "id": nid, "barrier": False, "scale": rng.choice([1, 1, 7, 300, 5000]),
                      "gz": i % 2, "g": [[rng.choice(single) for _ in range(rng.randint(1, 6))] for _ in range(g)]})
        nid += 1
    # ---- blocked In: request A's k-th In call (mostly: its last, unterminated line) blocks before the bytes are
    #      copied; request B, whose first read ends in the middle of a line (it writes a carry-over into a pooled
    #      buffer), is served meanwhile; then A's In goes on.  Executed with GOMAXPROCS(1) and with the default.
    a_any = [r for r in single if r["exp"] and has_symbol(r)]
    a_tail = [r for r in a_any if r["body"][-1] != 0]
    b_split = [r for r in single if len(r["sizes"]) >= 2 and not r["zr"] and r["body"][r["sizes"][0] - 1] != 0]
    n_gate = 400 if quick else 4000
    for i in range(n_gate):
        if i % 10 < 7:
            a, k = rng.choice(a_tail), -1
        else:
            a = rng.choice(a_any)
            k = rng.randint(1, len(a["exp"]))
        lines.append({"fam": "conc", "id": nid, "gate_k": k, "scale": rng.choice([1, 1, 5, 64]), "gz": 0,
                      "g": [[a], [rng.choice(b_split)]]})
        nid += 1
    # ---- gzip reader pool: a good gzip request, one with a bad gzip header (Reset of the pooled reader fails), then
    #      gzip request A blocked inside its FIRST In call (one gzip member per read chunk: A still needs its reader
    #      afterwards) while gzip request B is served completely.  GC off, GOMAXPROCS(1) and default.
    n_gzseq = 150 if quick else 1500
    for i in range(n_gzseq):
        lines.append({"fam": "conc", "id": nid, "gate_k": 1, "gzseq": True, "gzmode": 3, "scale": rng.choice([1, 5, 64, 5000]),
                      "gz": 1, "g": [[rng.choice(both_sides)], [rng.choice(a_any)]]})
        nid += 1
    return lines


def shared_reader_in_trace(trace):
    """the counterexample has a state in which two requests hold the same gzip reader object"""
    for _, v in trace:
        m = re.search(r"<<([^>]*)>>", v.get("zr", ""))
        if m:
            ids = [x.strip() for x in m.group(1).split(",")]
            held = [x for x in ids if x and x != "0"]
            if len(held) != len(set(held)):
                return True
    return False


def window_in_trace(trace):
    """the counterexample has a state in which request i's last In is pending (pc = inlast) while another request
    holds the same event buffer: B took the buffer between A's Put and the moment A's In copies the bytes"""
    for _, v in trace:
        pcs = re.findall(r'"(\w+)"', v.get("pc", ""))
        ids = re.findall(r"id \|-> (\d+)", v.get("eb", ""))
        pool = re.findall(r"id \|-> (\d+)", v.get("poolE", ""))
        for i, p in enumerate(pcs):
            if p != "inlast" or i >= len(ids) or ids[i] == "0":
                continue
            for j, q in enumerate(pcs):
                if j != i and j < len(ids) and ids[j] == ids[i] and q in ("getSid", "read", "chunk") and ids[i] not in pool:
                    return True
    return False


def tlc_ok(ctx, *a, **kw):
    """tlc_expect_ok, tried a second time when the JVM died without a verdict (killed from outside)."""
    try:
        return ctx.tlc_expect_ok(*a, **kw)
    except vlib.Infra as e:
        if "without verdict" not in str(e):
            raise
        vlib.log("note: TLC died without a verdict, trying once more")
        ctx.tlc_runs.pop()
        return ctx.tlc_expect_ok(*a, **kw)


def run(ctx):
    quick = ctx.tier == "quick"
    cfg = "HttpChunk_quick.cfg" if quick else "HttpChunk_thorough.cfg"
    # Side runs (the other configurations, the spec mutants) in three background lanes while the harness is built and
    # run.  vlib.Ctx.tlc numbers its run directories with a plain counter, so every lane works on its own shallow copy
    # of the context with a disjoint counter range (same scratch dir, same tlc_runs list: list.append is atomic); the
    # state counts of the copies are added to the context after the join.
    side = {"killed": [], "conc": None, "exc": None}

    def expect_rejected(c, cfg, name, overrides=None, by=None):
        r = c.tlc("HttpChunk", cfg, timeout=900, deadlock=False, workers=4, overrides=overrides, name="spec-mutant/" + name)
        if r.ok or r.kind != "invariant" or (by and r.violated not in by):
            raise vlib.Infra("spec mutant %s is not rejected by %s (%s/%s): the specification lost its discriminating "
                             "power" % (name, " / ".join(by) if by else "the invariants", r.violated, r.kind))
        return r

    def lane_conc(c):
        side["conc"] = tlc_ok(c, "HttpChunk", "HttpChunk_conc.cfg", timeout=900 if quick else 5000, deadlock=False,
                              seed=ctx.seed, workers=8, overrides=None if quick else {"ConcLen": "3"})

    def lane_mutants(c):
        for mut, mode in SPEC_MUTANTS:
            r = expect_rejected(c, "HttpChunk_mutant.cfg", mut, {"Mutant": '"%s"' % mut, "Mode": '"%s"' % mode})
            side["killed"].append("%s->%s" % (mut, r.violated))

    def lane_modes(c):
        # mechanism M_PutAfterLastIn off against the OBSERVABLE invariants only, two interleaved requests: TLC must
        # construct the window (B takes the buffer between A's Put and A's last In copying the bytes)
        r = expect_rejected(c, "HttpChunk_mutobs.cfg", "put_before_last_in(observable,conc)")
        if not window_in_trace(r.trace):
            raise vlib.Infra("counterexample of put_before_last_in does not show the hand-over window:\n%s" % r.out[-3000:])
        side["killed"].append("put_before_last_in(conc,observable)->%s[window: other request holds the buffer of a pending In]" % r.violated)
        # gzip reader pool: the faithful three-step sequence, and the double-put switch against the observable invariants
        tlc_ok(c, "HttpChunk", "HttpChunk_gz.cfg", timeout=900 if quick else 5000, deadlock=False, seed=ctx.seed, workers=8,
               overrides={"GzLen": "1" if quick else "2"})
        r = expect_rejected(c, "HttpChunk_gzobs.cfg", "gz_double_put(observable,gz)")
        if not shared_reader_in_trace(r.trace):
            raise vlib.Infra("counterexample of gz_double_put does not show two requests holding one reader:\n%s" % r.out[-3000:])
        side["killed"].append("gz_double_put(gz,observable)->%s[two requests hold the same gzip reader]" % r.violated)
        # compressed size / Content-Length as a dimension: the whole decompressed body whatever the ratio
        # (M_GzipStreamUnbounded; the switch needs bodies longer than 2 x their compressed size: gzone configuration)
        tlc_ok(c, "HttpChunk", "HttpChunk_gzone.cfg", timeout=900, deadlock=False, seed=ctx.seed, workers=8,
               overrides={"GzLen": "4" if quick else "5"})
        r = expect_rejected(c, "HttpChunk_gzone.cfg", "gz_limit_clean_eof", {"Mutant": '"gz_limit_clean_eof"'},
                            by=("LinesExact", "OKOnlyAfterAllLines"))
        side["killed"].append("gz_limit_clean_eof->%s" % r.violated)
        # the pipeline's max_event_size as a dimension: the bytes handed to In are the line's bytes whatever it is
        # (M_CarryUnbounded)
        tlc_ok(c, "HttpChunk", "HttpChunk_mes.cfg", timeout=900, deadlock=False, seed=ctx.seed, workers=8,
               overrides={"MaxLen": "4" if quick else "5"})
        r = expect_rejected(c, "HttpChunk_mesobs.cfg", "carry_capped(LinesExact only)", by=("LinesExact",))
        side["killed"].append("carry_capped->%s" % r.violated)
        # Content-Type x meta option: what is handed over depends on the body bytes alone (M_BodyOnlyReadByBulk)
        tlc_ok(c, "HttpChunk", "HttpChunk_hdr.cfg", timeout=300, deadlock=False, seed=ctx.seed, workers=8,
               overrides={"MaxLen": "3" if quick else "4"})
        r = expect_rejected(c, "HttpChunk_hdr.cfg", "meta_drains_form", {"Mutant": '"meta_drains_form"'},
                            by=("LinesExact", "OKOnlyAfterAllLines"))
        side["killed"].append("meta_drains_form->%s" % r.violated)

    lanes = []
    if not ctx.replay:
        for n, fn in enumerate((lane_conc, lane_mutants, lane_modes)):
            c = copy.copy(ctx)
            c._n, c.states, c.transitions = 1000 * (n + 1), 0, 0

            def work(fn=fn, c=c):
                try:
                    fn(c)
                except BaseException as e:  # re-raised in the main thread
                    side["exc"] = side["exc"] or e
            t = threading.Thread(target=work)
            t.start()
            lanes.append((t, c))
    try:
        res = tlc_ok(ctx, "HttpChunk", cfg, timeout=900 if quick else 7200, deadlock=False, seed=ctx.seed)
        exported = res.printed
        if len(exported) < 10000:
            raise vlib.Infra("TLC exported only %d cases" % len(exported))
        n_exported = len(exported)
        r, lines = replay_cases(ctx, exported, quick)
    finally:
        for t, c in lanes:
            t.join()
            ctx.states += c.states
            ctx.transitions += c.transitions
    if side["exc"] is not None:
        raise side["exc"]
    killed, conc = sorted(side["killed"]), side["conc"]
    evaluate(ctx, r, lines, n_exported, killed, conc)


def replay_cases(ctx, exported, quick):
    if ctx.replay:
        lines = [r["case"] for r in json.load(open(ctx.replay)) if r.get("case")]
    else:
        lines = build_cases(ctx, exported)
    path = os.path.join(ctx.scratch, "c11_cases.ndjson")
    with open(path, "w") as f:
        for c in lines:
            f.write(json.dumps(c, separators=(",", ":")) + "\n")
    out = os.path.join(ctx.scratch, "c11_out.json")
    binary = ctx.go_test_build("plugin/input/http")
    rc, txt = ctx.run_bin(binary, "^TestVerifC11$", env={"VERIF_CASES": path, "VERIF_OUT": out},
                          timeout=1200 if quick else 7200)
    if rc != 0 or not os.path.exists(out):
        raise vlib.Infra("C11 harness failed rc=%s:\n%s" % (rc, txt[-3000:]))
    r = json.load(open(out))
    if r["executed"] != len(lines):
        raise vlib.Infra("harness executed %d of %d cases" % (r["executed"], len(lines)))
    return r, lines


def evaluate(ctx, r, lines, n_exported, killed, conc):
    st = r["stats"]
    if not ctx.replay:
        # the replay must have exercised what it claims to exercise (otherwise the harness is stale: infra, not verdict)
        if st["requests_with_line_longer_than_read_buffer"] == 0:
            raise vlib.Infra("no request had a line longer than the real read buffer (%s)" % r.get("read_buf_len"))
        if st["second_requests_started_with_pooled_carry_buffer"] == 0:
            raise vlib.Infra("no second request found a pooled buffer: pool re-use is not exercised")
        if st["status_200"] == 0:
            raise vlib.Infra("no request was answered with 200")
        if st["gate_in_blocked_while_other_request_served"] == 0 or st["gate_blocked_in_was_unterminated_last_line"] == 0:
            raise vlib.Infra("the blocked-In window was never constructed")
        if st["gzseq_runs"] == 0 or st["gzseq_good_request_200"] == 0 or st["gzseq_bad_header_request_not_200"] == 0:
            raise vlib.Infra("the gzip sequence (good request, bad header, two overlapping requests) was not constructed")
        if min(st["gzip_payload_cut_inside_header"], st["gzip_payload_cut_inside_deflate_data"], st["gzip_payload_cut_inside_trailer"]) == 0 \
                or st["requests_ending_with_io_ErrUnexpectedEOF"] == 0:
            raise vlib.Infra("truncated gzip payloads / io.ErrUnexpectedEOF bodies were not exercised in every class")
        if min(st["ratio_requests_inflating_more_than_300_times"], st["ratio_requests_inflating_at_most_100_times"],
               st["ratio_requests_multi_member"]) == 0 or \
                st["ratio_requests_inflating_more_than_100_times"] <= st["ratio_requests_inflating_more_than_300_times"]:
            raise vlib.Infra("gzip requests with a Content-Length were not exercised at ratios below 100, between 100 and 300 and above")
        if min(st["requests_with_over_limit_line_crossing_a_read_boundary"], st["requests_with_max_event_size_equal_to_their_longest_line"],
               st["requests_with_max_event_size_above_their_longest_line"]) == 0:
            raise vlib.Infra("max_event_size below / equal to / above the longest line was not exercised")
        if min(st["requests_with_meta_and_urlencoded_content_type"], st["requests_through_real_http_server_urlencoded"]) == 0:
            raise vlib.Infra("plugins with the meta option / urlencoded Content-Type / the real HTTP server were not exercised")
        if st["gate_pool_handover_probe_hits"] == 0:
            raise vlib.Infra("a sync.Pool Put made inside the blocked In never reached the Get of the request served meanwhile")

    ctx.evaluations = st["requests"]
    ctx.traces_validated = st["requests"]
    ctx.nontrivial = st["cases_line_crossing_read_boundary"]
    ctx.exhaustive = not ctx.replay
    ctx.extra["harness_stats"] = st
    ctx.extra["spec_mutants_rejected"] = killed
    ctx.extra["exported_cases"] = n_exported
    ctx.extra["conc_model_states"] = conc.distinct if conc else 0
    if st.get("truncated_gzip_acknowledged_with_all_lines_handed_over"):
        vlib.log("note: %d truncated gzip payloads were acknowledged after ALL lines of the body had been handed over (allowed)"
                 % st["truncated_gzip_acknowledged_with_all_lines_handed_over"])
    if st.get("non_200_on_clean_body"):
        vlib.log("note: %d clean requests were not answered with 200 (allowed by the statement)" % st["non_200_on_clean_body"])
    if st.get("model_drift_calls_on_error_requests"):
        ctx.drift += st["model_drift_calls_on_error_requests"]
        vlib.log("MODEL-DRIFT: %d failed requests handed over other lines than the transcription (no property involved)"
                 % st["model_drift_calls_on_error_requests"])
    if st.get("gate_other_request_did_not_finish_while_in_blocked"):
        vlib.log("note: %d times the other request did not finish while an In call was blocked (no window, no verdict)"
                 % st["gate_other_request_did_not_finish_while_in_blocked"])
    if st.get("conc_barrier_timeouts"):
        vlib.log("note: a rendezvous of concurrent requests inside Read was not reached (%d)" % st["conc_barrier_timeouts"])
    ctx.rule = ("case = 1-2 successive requests, each (body over {a,\\r,\\n} up to the length bound, split of the body "
                "into reads, end flavour (n,EOF)|(n,nil)+(0,EOF)|(0,err)|(0,ErrUnexpectedEOF)|(n,ErrUnexpectedEOF), optional (0,nil) reads), enumerated exhaustively by "
                "TLC (%d cases); ALL of them replayed on the real plugin (Start address=off, ServeHTTP) plain, gzip and gzip with the payload cut short (header / deflate data / trailer), "
                "and again under a pipeline with max_event_size below / equal to / above the longest line (%d requests), and through "
                "a plugin WITH the meta option with every Content-Type and a URL query (%d requests; %d more over a real TCP "
                "connection to a net/http server), plus "
                "%d gzip requests WITH a Content-Length and a highly repetitive body (ratios 50..1000, up to %d bytes, max ratio %d), "
                "%d seeded long-line derivations (symbols blown up to runs around the real read-buffer size) and %d seeded "
                "concurrent rounds (2/4/8 parallel requests over disjoint alphabets, half of them with a rendezvous inside "
                "Read) and %d blocked-In windows (an In call of request A -- mostly its unterminated last line -- blocks before "
                "the bytes are copied while request B with a line split over two reads is served; GOMAXPROCS 1 and default; %d of them are gzip sequences: good gzip request, request with a bad gzip header, "
                "then two overlapping gzip requests, GC off, with a white-box look that the pool holds no *gzip.Reader twice). "
                "Non-trivial = serial cases in which a line crosses a read boundary (counted by the harness)."
                % (n_exported, st["requests_with_max_event_size_set"], st["requests_through_plugin_with_meta_option"],
                   st["requests_through_real_http_server"], st["ratio_requests_with_content_length"], st["ratio_decompressed_bytes_max"], st["ratio_max"], st["long_cases"], st["conc_cases"], st["gate_cases"], st["gzseq_runs"] // 2))
    for c in lines[:2] + [c for c in lines if c["fam"] == "long"][:1] + [c for c in lines if c["fam"] == "conc"][:1]:
        ctx.sample(c)
    ctx.assumptions += [
        "the body is what the transport delivers before io.EOF; a non-EOF reader error means the body is incomplete (a 200 is a violation then; the lines handed over before the error are not judged)",
        "lines are split on \\n only (\\r is an ordinary byte); empty lines are events (the pipeline's admission refuses them later)",
        "concurrent requests are attributed to bodies by disjoint alphabets; empty events only by their total number",
        "max_event_size is enforced by Pipeline.In (drop or cut, and count); the recording controller receives what the plugin hands over, so the expectation does not depend on it",
        "controller.In may block before it copies the bytes (Pipeline.In waits for a free event first): the slice must stay intact until In returns",
        "HTTP/1.1 framing (chunked transfer, Content-Length) is net/http's business: the harness starts at ServeHTTP (Request.ContentLength and the header are set by hand where a case announces a length)",
        "the expectation of a blown-up body (symbols -> runs, terminated lines repeated) is the spec's expectation blown up the same way",
    ]
    recs = []
    for m in r["mismatches"] or []:
        recs.append({"kind": m["kind"], "fam": m["fam"], "variant": m["variant"], "detail": m.get("detail", ""),
                     "req": m["req"], "end": m["end"], "status": m["status"], "status_at": m["status_at"],
                     "ncalls": m["ncalls"], "want": m.get("want"), "got": m.get("got"), "panic": m.get("panic", ""),
                     "cfg": m["cfg"], "max_event_size": m.get("max_event_size", 0), "repro_on_fresh_plugin": m.get("repro_on_fresh_plugin"), "case": m["case"]})
    if r.get("mismatch_classes"):
        vlib.log("mismatches by class: %s" % json.dumps(r["mismatch_classes"], sort_keys=True))
        ctx.extra["mismatch_classes"] = r["mismatch_classes"]
    if r.get("mismatch_count", 0) > len(recs):
        vlib.log("(%d mismatches in total, first %d kept)" % (r["mismatch_count"], len(recs)))
    ctx.classify(recs)
