"""C03 -- file input loses no line across kill -9 and restart; truncation recovers.

1. TLC checks specs/FileInput.tla: with the code's resume rule (seek to the minimum SAVED stream offset) the design
   loses lines (known finding D3, must be reproduced at design level); with D3's enabling condition excluded the
   property holds for every kill instant, sync and async persistence; the repaired rule (per-job low-water mark)
   holds unconditionally; every mechanism switch (seek-min, commit-after-ack, skip-by-own-stream, strict skip) is
   shown necessary by a counterexample, which is a kill/restart history.
   FileDiscovery.tla (name-based notifications vs rotation: a job is filed under the inode of the descriptor that was
   opened) and TruncCheck.tla (size observed after the position, read-only) specify the two places where genuine defects
   were found and repaired (D22, D21); their mutants are the code before the repairs.
2. Those histories, the D3 history and TLC-simulated histories (with rotation by rename placed at random) are
   performed on the REAL file input in a child process that is really killed (SIGKILL) and restarted on the same
   directory; a truncation family runs in one process.  TLC judges the recorded two-run histories (FileInputMon).
"""
import json
import os
import re

import vlib

LEVEL = "model_checking"

MUTANTS = [("M_SeekMin", {"ResidualOnly": "TRUE", "NLines": "4"}),
           ("M_CommitAfterAck", {"Streams": '{"a"}'}),
           ("M_SkipOnlyOwnStream", {"ResidualOnly": "TRUE", "NLines": "4"}),
           ("M_SkipStrict", {"Streams": '{"a"}'})]

_T = re.compile(r'<<"(\w+)", (\d+)>>')


def hist_of(state):
    hist = [[m.group(1), int(m.group(2))] for m in _T.finditer(state.get("hist", ""))]
    streams = re.findall(r'"(\w+)"', state.get("strm", ""))
    return streams, hist


def scen(run, name, streams, hist, sync, rotate_at=0, truncate=False, recycle=0, maint="", rotate_every=False, remove_after="", nowatch=False, fillers=0, lz4=False, cap=0, symlink=False, nofield="", exact_line=0):
    return dict(run=run, name=name, sync=sync, streams=streams, hist=hist, rotate_at=rotate_at, truncate=truncate, recycle=recycle, maint=maint,
                rotate_every=rotate_every, remove_after=remove_after, nowatch=nowatch, fillers=fillers, lz4=lz4, cap=cap, symlink=symlink, nofield=nofield, exact_line=exact_line)


def perform(ctx, binary, scs, tag="c03"):
    """Runs the histories on the real file input (child processes, SIGKILL) and lets TLC (FileInputMon) judge the recorded runs."""
    inp = os.path.join(ctx.scratch, tag + "_in.json")
    out = os.path.join(ctx.scratch, tag + "_out.json")
    json.dump(scs, open(inp, "w"))
    rc, txt = ctx.run_bin(binary, "^TestVerifC03$", env={"VERIF_CASES": inp, "VERIF_OUT": out}, timeout=9000)
    if rc != 0 or not os.path.exists(out):
        raise vlib.Infra("C03 harness failed rc=%s:\n%s" % (rc, txt[-3000:]))
    results = json.load(open(out))
    by_run = {s["run"]: s for s in scs}
    trace = os.path.join(ctx.scratch, tag + "_trace.ndjson")
    shapes = set()
    with open(trace, "w") as f:
        for r in results:
            died = bool(r["exit2"])
            f.write(json.dumps({"run": r["run"], "lost": r["lost"] or [], "seen": r["streams_seen_before_kill"] or [],
                                "saved": r["streams_saved_at_kill"] or [], "beyond": r.get("lost_beyond_seek") or [], "killed": bool(r["killed"]), "died": died,
                                "exit": (r["exit2"] + " " + r["stderr"][-300:]) if died else "",
                                "truncate": bool(by_run[r["run"]]["truncate"])}) + "\n")
            shapes.add(json.dumps([by_run[r["run"]]["streams"], [h for h in by_run[r["run"]]["hist"] if h[0] in ("kill", "stop", "commit", "deliver", "truncate")],
                                   by_run[r["run"]]["rotate_at"]]))
    mon = ctx.tlc("FileInputMon", "FileInputMon.cfg", workers=1, files={trace: "trace.ndjson"}, timeout=1800, deadlock=False,
                  name="FileInputMon/trace")
    rep = [p for p in mon.printed if isinstance(p, dict) and "viol" in p]
    if not mon.ok or not rep:
        raise vlib.Infra("trace validation failed:\n%s" % mon.out[-3000:])
    res_by_run = {r["run"]: r for r in results}
    recs = []
    for x in rep[-1]["viol"]:
        v = x["v"]
        r = res_by_run[x["run"]]
        fam = re.sub(r"-\d+$", "", by_run[x["run"]]["name"])
        pclass = "offset_corruption" if "offset corruption" in r["stderr"] else ("other_panic" if "panic" in r["stderr"] else "")
        recs.append({"kind": v["kind"], "line": v["id"], "info": v["info"] if v["kind"] != "child_died" else "", "truncate": v["truncate"],
                     "family": fam, "panic_class": pclass, "scenario": by_run[x["run"]],
                     "offsets_at_kill": r["offsets_at_kill"], "delivered": r["delivered"], "events": r["events"][-60:], "stderr": r["stderr"][-600:]})
    return results, recs, shapes


def commit_order_stage(ctx):
    """For C02: the input that keeps per-stream offsets is the judge of its own commit notifications -- jobProvider.commit
    panics ('offset corruption') when a notification does not advance the offset of its (source, stream).  Histories of
    FileInput.tla with several streams, killed and restarted while the streams' saved offsets differ (the restarted reader
    starts at the smallest one and must keep the lines of the streams that are ahead out of the pipeline)."""
    thorough = ctx.tier == "thorough"
    binary = ctx.go_test_build("plugin/input/file")
    scs = []
    k = 1
    r = ctx.tlc("FileInput", "FileInput_base.cfg", overrides={"ResidualOnly": "TRUE", "NLines": "4", "M_SkipOnlyOwnStream": "FALSE"}, timeout=1800,
                deadlock=False, name="FileInput/mutant-M_SkipOnlyOwnStream (history for the real input)")
    if r.ok or r.violated != "AtLeastOnce":
        raise vlib.Infra("spec mutant M_SkipOnlyOwnStream produced no counterexample (violated=%s)" % r.violated)
    streams, hist = hist_of(r.trace[-1][1])
    scs.append(scen(k, "mutant-M_SkipOnlyOwnStream", streams, hist, True))
    k += 1
    for ov, cnt in (({"ResidualOnly": "TRUE", "NLines": "5"}, 160 if thorough else 40), ({"ResidualOnly": "TRUE", "NLines": "5", "SyncMode": "FALSE"}, 80 if thorough else 20)):
        res = ctx.tlc("FileInput", "FileInput_sim.cfg", overrides=ov, workers=1, simulate="num=%d" % cnt, depth=80, seed=ctx.seed + 17,
                      timeout=900, deadlock=False, check=False, name="FileInput/simulate (several streams)")
        if res.rc == -9 or res.violated is not None:
            raise vlib.Infra("simulation of FileInput.tla failed:\n%s" % res.out[-2000:])
        for p in res.printed:
            if not (isinstance(p, dict) and "hist" in p) or not any(h[0] in ("kill", "stop") for h in p["hist"]) or len(set(p["streams"])) < 2:
                continue
            scs.append(scen(k, "sim-%d" % k, p["streams"], p["hist"], bool(p["sync"]), nofield="b" if k % 2 == 0 else ""))
            k += 1
    if len(scs) < 5:
        raise vlib.Infra("too few histories with several streams (%d)" % len(scs))
    # a truncation in place while the last lines read are still unacknowledged: notifications that belong to the old content
    # must not reach the offsets of the restarted file (single stream: D4's condition is excluded)
    for i in range(8 if thorough else 3):
        n1 = ctx.rng.randint(1, 3)
        n2 = ctx.rng.randint(1, 3)
        hist = [["append", j + 1] for j in range(n1)] + [["truncate_now", 500]] + [["append", n1 + j + 1] for j in range(n2)]
        if i % 2 == 0:
            hist += [["save", 0], ["save", 0]]
        hist += [["open", 0]]
        scs.append(scen(k, "truncate-last-inflight-%d" % k, ["a"] * (n1 + n2), hist, True, truncate=True))
        k += 1
    results, recs, shapes = perform(ctx, binary, scs, tag="c02_file")
    out = [dict(x, kind="input_rejects_commit") for x in recs if x["kind"] == "child_died" and x["panic_class"] == "offset_corruption"]
    ctx.extra["file_input_commit_order"] = {"histories": len(scs), "kill_restart_cycles": sum(1 for x in results if x["killed"]),
                                            "lost_lines_not_judged_here": sum(1 for x in recs if x["kind"] == "line_lost")}
    ctx.evaluations += len(results)
    ctx.traces_validated += len(results)
    return out


def run(ctx):
    thorough = ctx.tier == "thorough"
    binary = ctx.go_test_build("plugin/input/file")
    # 1. design level
    d3 = ctx.tlc("FileInput", "FileInput_base.cfg", timeout=1800, deadlock=False, name="FileInput/faithful")
    if d3.ok or d3.violated != "AtLeastOnce":
        raise vlib.Infra("design model does not reproduce D3 (violated=%s)" % d3.violated)
    n = "5" if thorough else "4"
    for sync in ("TRUE", "FALSE"):
        ctx.tlc_expect_ok("FileInput", "FileInput_base.cfg", overrides={"ResidualOnly": "TRUE", "NLines": n, "SyncMode": sync},
                          timeout=3600, deadlock=False, name="FileInput/residual sync=%s" % sync)
        ctx.tlc_expect_ok("FileInput", "FileInput_base.cfg", overrides={"D_SeekMinSaved": "FALSE", "NLines": n, "SyncMode": sync},
                          timeout=3600, deadlock=False, name="FileInput/repaired-rule sync=%s" % sync)
    # files reached through a symbolic link: rotation behind the link is noticed by maintenance only
    ctx.tlc_expect_ok("SymlinkFollow", "SymlinkFollow_ok.cfg", timeout=900, deadlock=False, name="SymlinkFollow/faithful")
    sl = ctx.tlc("SymlinkFollow", "SymlinkFollow_mut.cfg", timeout=900, deadlock=False, name="SymlinkFollow/mutant (link taken for a regular file)")
    if sl.ok or sl.violated != "FollowsTheLink":
        raise vlib.Infra("spec mutant M_LinksReresolved is not rejected by FollowsTheLink (violated=%s)" % sl.violated)
    # graceful stop: the input writes its offsets once more; without that write an asynchronous save interval of commits is missing
    ms = ctx.tlc("FileInput", "FileInput_base.cfg", overrides={"ResidualOnly": "TRUE", "SyncMode": "FALSE", "M_StopSaves": "FALSE"}, timeout=1800,
                 deadlock=False, name="FileInput/mutant-M_StopSaves")
    if ms.ok or ms.violated != "CleanStopSavesAll":
        raise vlib.Infra("spec mutant M_StopSaves is not rejected by CleanStopSavesAll (violated=%s)" % ms.violated)
    # discovery of files under rotation, and truncation detection next to a concurrent reader/writer (the code as repaired:
    # D22, D21; the old behaviours are the mutants, which TLC must reject)
    ctx.tlc_expect_ok("FileDiscovery", "FileDiscovery_ok.cfg", timeout=1800, deadlock=False, name="FileDiscovery/faithful")
    ctx.tlc_expect_ok("TruncCheck", "TruncCheck_ok.cfg", timeout=1800, deadlock=False, name="TruncCheck/faithful")
    for mod, cfg, inv in (("FileDiscovery", "FileDiscovery_mut.cfg", "KeyIsOpenedFile"), ("TruncCheck", "TruncCheck_mut_stale.cfg", "TruncatedOnlyIfShrunk"),
                          ("TruncCheck", "TruncCheck_mut_rewrite.cfg", "OffsetIsPosition")):
        r = ctx.tlc(mod, cfg, timeout=900, deadlock=False, name="%s/mutant %s" % (mod, cfg))
        if r.ok or r.violated != inv:
            raise vlib.Infra("spec mutant %s of %s is not rejected by %s (violated=%s)" % (cfg, mod, inv, r.violated))
    scs = []
    k = 1
    streams, hist = hist_of(d3.trace[-1][1])
    scs.append(scen(k, "D3-design-counterexample", streams, hist, True))
    k += 1
    for sw, ov in MUTANTS:
        o = dict(ov)
        o[sw] = "FALSE"
        r = ctx.tlc("FileInput", "FileInput_base.cfg", overrides=o, timeout=1800, deadlock=False, name="FileInput/mutant-%s" % sw)
        if r.ok or r.violated != "AtLeastOnce":
            raise vlib.Infra("spec mutant %s produced no counterexample (violated=%s)" % (sw, r.violated))
        streams, hist = hist_of(r.trace[-1][1])
        scs.append(scen(k, "mutant-%s" % sw, streams, hist, True))
        ctx.sample({"history_from_spec_mutant": sw, "streams": streams, "hist": hist})
        k += 1
    # simulated histories: mostly with D3's condition excluded (a D3 loss costs a 6 s quiet period), a few faithful ones
    plans = [({"ResidualOnly": "TRUE", "NLines": "5"}, 300 if thorough else 24), ({"ResidualOnly": "TRUE", "NLines": "5", "SyncMode": "FALSE"}, 300 if thorough else 24),
             ({"NLines": "4"}, 48 if thorough else 6)]
    for ov, cnt in plans:
        res = ctx.tlc("FileInput", "FileInput_sim.cfg", overrides=ov, workers=1, simulate="num=%d" % cnt, depth=80, seed=ctx.seed,
                      timeout=900, deadlock=False, check=False, name="FileInput/simulate")
        if res.rc == -9 or res.violated is not None:
            raise vlib.Infra("simulation of FileInput.tla failed:\n%s" % res.out[-2000:])
        for p in res.printed:
            if not (isinstance(p, dict) and "hist" in p):
                continue
            if not any(h[0] in ("kill", "stop") for h in p["hist"]):
                continue
            rot = ctx.rng.choice([0, 0, 2, 3, 4]) if len(p["streams"]) >= 3 else 0
            # in every second history the lines of stream "b" carry no stream field: the file mixes the default stream with a named one
            scs.append(scen(k, "sim-%d" % k, p["streams"], p["hist"], bool(p["sync"]), rotate_at=rot, nofield="b" if k % 2 == 0 else ""))
            k += 1
    # truncation family (single run): deliver everything, truncate in place, new content must be delivered
    for i in range(12 if thorough else 4):
        n1 = ctx.rng.randint(1, 4)
        n2 = ctx.rng.randint(1, 4)
        streams = [ctx.rng.choice(["a", "a", "b"]) for _ in range(n1 + n2)]
        hist = [["open", 0]] + [["append", j + 1] for j in range(n1)] + [["truncate", ctx.rng.choice([400, 700])]] + \
               [["append", n1 + j + 1] for j in range(n2)]
        scs.append(scen(k, "truncate-%d" % k, streams, hist, ctx.rng.random() < 0.5, truncate=True))
        k += 1
    # truncation while earlier events of another stream are still in flight (TLC: FileInput has no truncation action; this
    # family is the directed history behind DESIGN.md D4: the per-stream sequence number used as a per-job watermark)
    for i in range(6 if thorough else 2):
        pre = ["b"] * ctx.rng.randint(2, 3) + ["a"]
        post = ["b"] * ctx.rng.randint(1, 2)
        streams = pre + post
        n1 = len(pre)
        hist = [["append", j + 1] for j in range(n1)] + [["act", n1], ["deliver", n1], ["commit", n1], ["truncate_now", 500]] + \
               [["append", n1 + j + 1] for j in range(len(post))]
        for j in range(n1 - 1):
            hist += [["act", j + 1], ["deliver", j + 1], ["commit", j + 1]]
        hist += [["open", 0]]
        scs.append(scen(k, "truncate-inflight-%d" % k, streams, hist, True, truncate=True))
        k += 1
    # truncation while the LAST line read (and everything before it) is still unacknowledged: its acknowledgement, arriving after
    # the truncation was noticed, must not move the offsets of the restarted file (single stream, so D4 does not apply)
    for i in range(6 if thorough else 2):
        n1 = ctx.rng.randint(1, 3)
        n2 = ctx.rng.randint(1, 3)
        streams = ["a"] * (n1 + n2)
        hist = [["append", j + 1] for j in range(n1)] + [["truncate_now", 500]] + [["append", n1 + j + 1] for j in range(n2)]
        if ctx.rng.random() < 0.5:      # the new content is read (parked in the action) before the stale acknowledgements arrive
            hist += [["save", 0], ["save", 0]]
        hist += [["open", 0]]
        scs.append(scen(k, "truncate-last-inflight-%d" % k, streams, hist, True, truncate=True))
        k += 1
    # a slow writer: a line arrives in two pieces, the pause between them spans several maintenance intervals (the idle file is
    # re-opened and re-positioned meanwhile) -- in one run, and with a kill/restart inside the pause
    for i in range(8 if thorough else 3):
        n = ctx.rng.randint(2, 5)
        slow = ctx.rng.randint(1, n)
        streams = [ctx.rng.choice(["a", "a", "b"]) for _ in range(n)]
        hist = [["open", 0]]
        for j in range(1, n + 1):
            if j == slow:
                hist += [["append_begin", j], ["sleep", ctx.rng.choice([250, 400])], ["append_end", j]]
            else:
                hist += [["append", j]]
        scs.append(scen(k, "slow-writer-%d" % k, streams, hist, ctx.rng.random() < 0.5, truncate=True))
        k += 1
    for i in range(4 if thorough else 2):
        n = ctx.rng.randint(2, 4)
        streams = ["a"] * n
        hist = []
        for j in range(1, n):
            hist += [["append", j], ["act", j], ["deliver", j], ["commit", j]]
        hist += [["save", 0], ["append_begin", n], ["sleep", 250], ["kill", 0], ["restart", 0], ["sleep", 250], ["append_end", n], ["open", 0]]
        scs.append(scen(k, "slow-writer-kill-%d" % k, streams, hist, True))
        k += 1
    # appends at random instants while the idle file is re-opened by maintenance every millisecond (a line that lands between the
    # size check on the old descriptor and the positioning of the new one must still be read); probabilistic: hundreds of re-opens
    for i in range(10 if thorough else 3):
        n = 900
        scs.append(scen(k, "append-storm-%d" % k, ["a"] * n, [["open", 0], ["append", 1], ["sleep", 50], ["storm", n - 2], ["sleep", 30]], True,
                        truncate=True, maint="1ms"))
        k += 1
    # rotation by rename + re-creation at the moment a file is being discovered: every line goes to a file of its own, the
    # previous one renamed right before (the name is re-pointed between the notification's stat and the open: D22); probabilistic
    for i in range(40 if thorough else 14):
        n = 12
        scs.append(scen(k, "rotate-every-line-%d" % k, ["a"] * n, [["open", 0]] + [["append", j] for j in range(1, n + 1)], True, rotate_every=True))
        k += 1
    # remove_after: an idle file is removed -- "unless new data is written".  Writes are not watched (the default), maintenance
    # runs once a second, the file expires after two: a line appended at a random instant around the expiry must still be delivered
    # (either read before the removal, or written to the file the writer creates anew).  Probabilistic: the window is one tick wide.
    for i in range(16 if thorough else 8):
        hist = [["open", 0], ["append", 1], ["sleep", ctx.rng.randint(1200, 3400)], ["append", 2], ["sleep", 1500]]
        scs.append(scen(k, "remove-after-%d" % k, ["a", "a"], hist, True, truncate=True, maint="1s", remove_after="2s"))
        k += 1
    # rotation at the instant of a restart: the file is renamed and a fresh one created WHILE the restarted file.d scans the
    # directory and registers its watch (writes are not watched: a file that falls between scan and watch is never read).
    # The directory holds thousands of files that do not match the pattern, so the scan takes a while; probabilistic.
    for i in range(40 if thorough else 16):
        n1 = 3
        hist = []
        for j in range(1, n1 + 1):
            hist += [["append", j], ["act", j], ["deliver", j], ["commit", j]]
        hist += [["save", 0], ["kill", 0], ["restart_nowait", 0], ["sleep", ctx.rng.randint(5, 140)]]
        hist += [["append", n1 + 1], ["append", n1 + 2], ["await_started", 0], ["open", 0]]
        scs.append(scen(k, "rotation-at-restart-%d" % k, ["a"] * (n1 + 2), hist, True, rotate_at=n1 + 1, nowatch=True, fillers=4000))
        k += 1
    # a compressed file (lz4 cannot seek: after the restart the reader skips forward to the saved offset by reading), killed after
    # the first k lines were acknowledged and saved
    for i in range(8 if thorough else 3):
        n = ctx.rng.randint(6, 12)
        kk = ctx.rng.randint(1, n - 2)
        hist = []
        for j in range(1, kk + 1):
            hist += [["act", j], ["deliver", j], ["commit", j]]
        hist += [["save", 0], ["kill", 0], ["restart", 0], ["open", 0]]
        scs.append(scen(k, "compressed-%d" % k, ["a"] * n, hist, True, lz4=True))
        k += 1
    # truncation noticed by the SAME worker pass that read the old content: the pool is small, so the reader sits in In with the last
    # old line while nothing is acknowledged; the file is truncated and rewritten shorter; when the gates open the pass reaches
    # the new end of file (position beyond size) and starts the file over with every old event still unacknowledged
    for i in range(6 if thorough else 3):
        cap = ctx.rng.choice([2, 3, 4])
        n1 = cap + 1
        n2 = ctx.rng.randint(1, 2)
        hist = [["append", j + 1] for j in range(n1)] + [["sleep", 400], ["truncate_now", 300]] + [["append", n1 + j + 1] for j in range(n2)]
        # one old event is let through: its pool slot lets the blocked In return, the pass reaches the (new) end of file and notices
        # the truncation while the other old events are still parked; they are acknowledged afterwards
        hist += [["sleep", 200], ["act", 1], ["deliver", 1], ["commit", 1], ["sleep", 400], ["open", 0]]
        # writes are not watched (file.d's default): the pass itself is what notices the truncation
        scs.append(scen(k, "truncate-mid-pass-%d" % k, ["a"] * (n1 + n2), hist, True, truncate=True, cap=cap, nowatch=(i % 3 != 2)))
        k += 1
    # the watched name is a symbolic link (k8s layout); the file behind it is rotated by rename and created anew, more than once in a
    # run, every line acknowledged before the next rotation; then kill and restart
    for i in range(6 if thorough else 2):
        rounds = ctx.rng.randint(3, 4)      # a file that was never read in the first run is still there after ONE rotation; after two it is out of reach
        per = ctx.rng.randint(1, 2)
        hist = []
        j = 0
        for rr in range(rounds):
            if rr > 0:
                hist += [["rotate_behind", ctx.rng.choice([250, 400])]]
            for _ in range(per):
                j += 1
                hist += [["append", j], ["act", j], ["deliver", j], ["commit", j]]
        hist += [["save", 0], ["kill", 0], ["restart", 0], ["open", 0]]
        scs.append(scen(k, "symlink-rotation-%d" % k, ["a"] * j, hist, True, symlink=True))
        k += 1
    # the default stream is saved far ahead, a named stream far behind (the restarted reader starts there), and a line of a THIRD stream
    # that has no offset of its own yet lies in between, unacknowledged at the kill: it is read again and must come out
    for i in range(4 if thorough else 2):
        pre = ctx.rng.randint(0, 1)
        streams = ["a"] * (1 + pre) + ["c"] + ["b"] + ["a"] * ctx.rng.randint(0, 1)
        ia, ic, ib = 1, 2 + pre, 3 + pre
        hist = [["append", j + 1] for j in range(len(streams))]
        hist += [["act", ia], ["deliver", ia], ["commit", ia], ["act", ib], ["deliver", ib], ["commit", ib], ["save", 0], ["kill", 0], ["restart", 0], ["open", 0]]
        scs.append(scen(k, "default-stream-ahead-%d" % k, streams, hist, True, nofield="b"))
        k += 1
    # a complete line of exactly max_event_size bytes (newline included) is an ordinary line: delivered, also across a kill
    for i in range(4 if thorough else 2):
        n = ctx.rng.randint(3, 5)
        ex = ctx.rng.randint(1, n)
        hist = [["append", j + 1] for j in range(n)]
        if i % 2 == 1 and ex > 1:
            for j in range(1, ex):
                hist += [["act", j], ["deliver", j], ["commit", j]]
            hist += [["save", 0], ["kill", 0], ["restart", 0]]
        hist += [["open", 0]]
        scs.append(scen(k, "exact-size-line-%d" % k, ["a"] * n, hist, True, exact_line=ex))
        k += 1
    # graceful stop right after the last observed commit (async persistence: the stop's own save is what puts it on disk),
    # restart: nothing is lost, and the offsets file held every observed commit (CleanStopSavesAll, reported as drift)
    for i in range(8 if thorough else 3):
        n = ctx.rng.randint(3, 6)
        kk = ctx.rng.randint(1, n - 1)
        streams = [ctx.rng.choice(["a", "a", "b"]) for _ in range(n)]
        hist = []
        for j in range(1, n + 1):
            hist += [["append", j]]
        for j in range(1, kk + 1):
            hist += [["act", j], ["deliver", j], ["commit", j]]
        hist += [["stop", 0], ["restart", 0], ["open", 0]]
        scs.append(scen(k, "graceful-stop-%d" % k, streams, hist, False))
        k += 1
    # truncated in place and rewritten SHORTER than the saved offsets while file.d is down: the file must be started over
    for i in range(4 if thorough else 2):
        n1 = ctx.rng.randint(4, 6)
        n2 = ctx.rng.randint(1, 2)
        hist = []
        for j in range(1, n1 + 1):
            hist += [["append", j], ["act", j], ["deliver", j], ["commit", j]]
        hist += [["save", 0], ["kill", 0], ["truncate_down", 0]] + [["append", n1 + j] for j in range(1, n2 + 1)]
        hist += [["restart", 0], ["open", 0], ["sleep", 400], ["append", n1 + n2 + 1]]
        scs.append(scen(k, "truncated-while-down-%d" % k, ["a"] * (n1 + n2 + 1), hist, True))
        k += 1
    # a new file that appears after the restart with the inode number of a file removed while down (offsets are loaded only for
    # files found at start: the new file must be read from its beginning)
    for i in range(4 if thorough else 2):
        n1 = ctx.rng.randint(1, 3)
        n2 = n1 + ctx.rng.randint(2, 4)        # the new file is longer than the stale offset
        scs.append(scen(k, "recycled-inode-%d" % k, ["a"] * (n1 + n2), [], True, recycle=n1))
        k += 1
    results, recs, shapes = perform(ctx, binary, scs)
    ctx.classify(recs)
    ctx.evaluations = len(results)
    ctx.traces_validated = len(results)
    ctx.nontrivial = shapes
    ctx.extra["kill_restart_cycles"] = sum(1 for r in results if r["killed"])
    ctx.extra["graceful_stop_cycles"] = sum(1 for r in results if r.get("exit1") == "stopped")
    ctx.extra["graceful_stop_commits_checked_against_offsets_file"] = sum(r.get("stop_checked", 0) for r in results)
    unsaved = [(r["run"], r["stop_unsaved"]) for r in results if r.get("stop_unsaved")]
    if unsaved:
        # CleanStopSavesAll is a statement of the specification beyond the listed property (re-delivery, not loss): reported as drift
        ctx.drift += len(unsaved)
        vlib.log("MODEL-DRIFT: graceful stop left observed commits out of the offsets file (CleanStopSavesAll): %s" % unsaved[:5])
    ctx.extra["steps_the_real_code_could_not_follow"] = sum(r["diverged"] for r in results)
    ctx.rule = ("history = (stream of each line, appends, gate releases, commits/saves, SIGKILL instant, restart, optional rotation "
                "by rename, or a truncation); distinct = distinct (streams, kill/commit/deliver/truncate skeleton, rotation point)")
    ctx.sample(scs[0])
    ctx.assumptions += ["kill instants at the granularity of gate releases and observed commits (not inside a save; the offsets-file "
                        "protocol itself is C07)", "one watched file (plus its rotated predecessors, or one compressed file); symlinks and offsets_op tail/reset not covered here (C06/C07)",
                        "a line is counted lost only after 6 s without any progress once all gates are open"]
