"""C20 -- admission control drops only what the settings say.

1. TLC checks specs/Admission.tla exhaustively in several small scopes:
   * size part: every (record length 0..M+2, trailing newline, max_event_size 0..8, cut_off, cut-off field
     set/unset, decodable, already-committed) case: the transcription of checkInputBytes/In satisfies
     RefusedOnlyIf, CutIsPrefix, WithinLimitUntouched;
   * antispam part: every arrival/maintenance history up to a length bound (two sources; one source, deeper;
     event classes normal / exception / unlimited rule / isNewSource with and without rules): the transcription
     of IsSpam/Maintenance satisfies DisabledNeverDrops, ExceptionNeverDrops, SpamOnlyIfBanned,
     BanOnlyAfterThreshold, UnbanWithin, VerdictDetermined (the code's two deviations from the statement are
     named switches; the *strict* invariants are shown to fail with the switches on and to hold with them off).
   Every case / maximal history is exported with the declaratively expected result per step.
2. Replay on the real code:
   * size cases through the real Pipeline.In (raw, json and a byte-recording probe decoder);
   * every exported history step by step on the real antispam.Antispammer (verdict + ban state per step);
   * a seeded sample of the histories through the real Pipeline.In with the cri decoder.
3. Classification of every difference against known_findings(.d).
"""
import json
import os

import vlib

LEVEL = "model_checking"

ALL_KINDS = '{"n", "e", "u", "new"}'


def scopes(tier):
    q = tier == "quick"
    sp = {"Parts": '{"spam"}'}
    out = []
    # matchrule semantics (what "a matching exception" means): all single rules and pairs of rules over a
    # small alphabet, inverted or not, data shorter / longer than the values
    if q:
        out.append(("static", {"Parts": '{"size", "match", "cri", "xlist", "rlist", "skey", "offs", "seq"}', "MSyms": "{1, 2, 3}", "MCi": "{FALSE, TRUE}"}))
    else:
        out.append(("static", {"Parts": '{"size", "match", "cri", "xlist", "rlist", "skey", "offs", "seq"}', "MSyms": "{1, 2, 3}", "MCi": "{FALSE, TRUE}", "MPairLens": "{1, 2, 3}"}))
    # a rule gives source 2 its own threshold, below / equal / above the global one; long enough to flood a
    # banned source beyond unban * its threshold and then keep it silent for unban + 1 rounds
    rthr = dict(sp, NSrc="2", Kinds='{"n"}', Dts="{1}", Modes='{"rules"}', Us="{4, 1}")
    # two sources, plain events, both gap lengths
    two = dict(sp, NSrc="2", Kinds='{"n"}', Dts="{1, 2}", Modes='{"exc"}', T2s="{1}")
    # one source, deeper (ban, decay over unban+1 rounds, residual, re-ban)
    deep = dict(sp, NSrc="1", Kinds='{"n"}', Dts="{1, 2}", Modes='{"exc"}', T2s="{1}")
    # event classes and isNewSource, with and without rules
    cls = dict(sp, NSrc="2", Kinds=ALL_KINDS, Dts="{1}", Us="{4}")
    if q:
        out.append(("two", dict(two, MaxSteps="6", Ts="{1, 2}", Us="{4, 1}")))
        out.append(("deep", dict(deep, MaxSteps="9", Ts="{1, 2, 3}", Us="{4, 1}")))
        out.append(("rule-threshold", dict(rthr, MaxSteps="8", Ts="{0, 1, 3}", T2s="{1, 2}")))
        # one source, plain and exception-matching events, long enough for burst / unban+1 silent rounds / again
        out.append(("exc-one-source", dict(sp, NSrc="1", Kinds='{"n", "e"}', Dts="{1}", Modes='{"exc"}', T2s="{1}", MaxSteps="8",
                                           Ts="{1, 2}", Us="{4}")))
        out.append(("classes", dict(cls, MaxSteps="4", Ts="{1, 2}", WithDisabled="TRUE", Modes='{"exc", "rules"}', T2s="{1, 2}")))
    else:
        for t in (1, 2, 3):
            for u in (4, 1):
                out.append(("two-T%d-U%d" % (t, u), dict(two, MaxSteps="8", Ts="{%d}" % t, Us="{%d}" % u)))
                out.append(("deep-T%d-U%d" % (t, u), dict(deep, MaxSteps="11", Ts="{%d}" % t, Us="{%d}" % u)))
        out.append(("exc-one-source", dict(sp, NSrc="1", Kinds='{"n", "e"}', Dts="{1}", Modes='{"exc"}', T2s="{1}", MaxSteps="9",
                                           Ts="{1, 2, 3}", Us="{4}")))
        for t in (0, 1, 2, 3):
            out.append(("rule-threshold-T%d" % t, dict(rthr, MaxSteps="9", Ts="{%d}" % t, T2s="{1, 2, 3}")))
        out.append(("classes-exc", dict(cls, MaxSteps="6", Ts="{1, 2}", WithDisabled="TRUE", Modes='{"exc"}', T2s="{1}")))
        for t in (1, 2):
            out.append(("classes-rules-T%d" % t, dict(cls, MaxSteps="5", Ts="{%d}" % t, Modes='{"rules"}', T2s="{1, 2}")))
        out.append(("classes-rules-Tdisabled", dict(cls, MaxSteps="5", Ts="{}", WithDisabled="TRUE", Modes='{"rules"}', T2s="{1, 2}")))
        out.append(("classes-rules-deep", dict(cls, MaxSteps="6", Ts="{2}", Modes='{"rules"}', T2s="{1}")))
    return out


def schedulable(c):
    """History of the shape  arrivals* , K >= unban+1 maintenance rounds , arrivals+  (unban iterations = the pipeline's 4):
    it can be replayed on a running pipeline whose own ticker does the maintenance: burst, pause, burst."""
    if c["U"] != 4 or (c["mode"] == "rules" and c["T"] == -1):
        return False
    ops = [st[0] for st in c["steps"]]
    k = sum(ops)
    if k < c["U"] + 1 or ops[-1] == 1:
        return False
    first = ops.index(1)
    if any(o == 0 for o in ops[first:first + k]):
        return False
    # something to judge after the pause
    return any(st[0] == 0 and st[5] == 0 for st in c["steps"][first + k:])


def strict_runs(ctx):
    """(a) The deviation switches are exact: with a switch on the strict invariant fails in TLC (and the counterexample must
    reproduce on the real code, see run); with both off everything strict holds.  (b) Mechanism mutants: a specification
    without the mechanism must violate the named invariant inside the replayed scope.  The runs are tiny; they are
    started side by side (JVM start dominates)."""
    import time
    from concurrent.futures import ThreadPoolExecutor
    base = {"Parts": '{"spam"}', "NSrc": "1", "Kinds": ALL_KINDS, "Dts": "{1}", "MaxSteps": "7", "Ts": "{2}", "T2s": "{1}",
            "Us": "{4, 1}"}
    jobs = [
        ("r1", "Admission_strict.cfg", "strict/residual-on",
         dict(base, Modes='{"exc"}', D_ResidualAfterUnban="TRUE", D_ExceptionsIgnoredWithRules="FALSE")),
        ("r2", "Admission_strict.cfg", "strict/exceptions-ignored-on",
         dict(base, Modes='{"rules"}', D_ResidualAfterUnban="FALSE", D_ExceptionsIgnoredWithRules="TRUE")),
        ("r3", "Admission_strict.cfg", "strict/both-off",
         dict(base, MaxSteps="6", Modes='{"exc", "rules"}', D_ResidualAfterUnban="FALSE", D_ExceptionsIgnoredWithRules="FALSE")),
        ("r4", "Admission_mutant.cfg", "mutant/cap-by-global-threshold",
         {"Parts": '{"spam"}', "NSrc": "2", "Kinds": '{"n"}', "Dts": "{1}", "MaxSteps": "8", "Ts": "{2, 3}", "T2s": "{1}",
          "Us": "{4, 1}", "Modes": '{"rules"}', "M_CapPerSource": "FALSE"}),
        ("r5", "Admission_mutant.cfg", "mutant/shortcut-before-invert", {"Parts": '{"match"}', "M_InvertAfterShortcut": "FALSE"}),
        ("r6", "Admission_mutant.cfg", "mutant/lowered-in-place",
         {"Parts": '{"match"}', "MSyms": "{1, 3}", "MCi": "{TRUE}", "M_LowerCopies": "FALSE"}),
        ("r7", "Admission_mutant.cfg", "mutant/stale-error-into-decode", {"Parts": '{"cri"}', "M_ErrClearedBeforeDecode": "FALSE"}),
        ("r8", "Admission_mutant.cfg", "mutant/exception-subject-sticks", {"Parts": '{"xlist"}', "M_SubjectPerException": "FALSE"}),
        ("r9", "Admission_mutant.cfg", "mutant/last-matching-rule-wins", {"Parts": '{"rlist"}', "M_FirstRuleWins": "FALSE"}),
        ("r10", "Admission_mutant.cfg", "mutant/empty-source-key-shared", {"Parts": '{"skey"}', "M_SourceFallsBackToInputId": "FALSE"}),
        ("r12", "Admission_mutant.cfg", "mutant/root-reset-only-raw-cri", {"Parts": '{"seq"}', "M_RootResetPerRecord": "FALSE"}),
        ("r13", "Admission_mutant.cfg", "mutant/threshold-0-before-exceptions", {"Parts": '{"xlist"}', "M_ExceptionsFirst": "FALSE"}),
        ("r11", "Admission_mutant.cfg", "mutant/unknown-stream-is-not_set", {"Parts": '{"offs"}', "M_PrecheckOnlyForKnownStream": "FALSE"}),
    ]
    res = {}

    def one(job):
        key, cfg, name, ov = job
        return key, ctx.tlc("Admission", cfg, timeout=900, deadlock=False, name=name, overrides=ov, workers=2, heap="1g")

    with ThreadPoolExecutor(max_workers=5) as ex:
        futs = []
        for j in jobs:
            futs.append(ex.submit(one, j))
            time.sleep(0.15)      # ctx.tlc numbers its scratch directories with a plain counter
        for f in futs:
            k, r = f.result()
            res[k] = r
    if not res["r3"].ok:
        raise vlib.Infra("strict invariants fail with both deviation switches off: %s" % res["r3"].violated)
    want = {"r4": ("UnbanWithin",), "r5": ("MatchAgrees",), "r6": ("DataUnchanged",),
            "r7": ("CriAdmitted", "CriVerdictIgnoresAntispam"), "r8": ("ExceptionListExempts",), "r9": ("RuleListGoverns",),
            "r10": ("SourceKeyAgrees", "NoSharedCounter"), "r11": ("RefusedOnlyForStatedReasons",),
            "r12": ("DeliveredDependsOnRecordOnly",), "r13": ("ExemptNeverSpam",)}
    names = {j[0]: j[2] for j in jobs}
    for k, inv in want.items():
        if res[k].violated not in inv:
            raise vlib.Infra("specification %s does not violate %s (%s)" % (names[k], "/".join(inv), res[k].violated))
    out = {"residual_on_violates": res["r1"].violated, "exceptions_ignored_on_violates": res["r2"].violated, "both_off_ok": res["r3"].ok}
    for k in want:
        out[names[k]] = res[k].violated
    return out


def run(ctx):
    cfg = "Admission_quick.cfg" if ctx.tier == "quick" else "Admission_thorough.cfg"
    size_path = os.path.join(ctx.scratch, "c20_pipeline_cases.ndjson")
    spam_path = os.path.join(ctx.scratch, "c20_antispam_cases.ndjson")
    n_size = n_spam = n_pipe_hist = n_match = n_cri = n_xl = n_rl = n_rl_pipe = n_sk = n_ofs = n_xl_pipe = n_seq = 0
    per_scope = {}
    # share of histories that also go through Pipeline.In (unban iterations are the constant 4 there)
    pipe_budget = 24000 if ctx.tier == "quick" else 100000
    pipe_candidates = []
    sched = {}      # configuration -> histories for the "pipeline-scheduled maintenance" family
    sched_budget = 400 if ctx.tier == "quick" else 4000   # per configuration
    n_sched = 0
    samples = []
    with open(size_path, "w") as fsz, open(spam_path, "w") as fsp:
        for name, ov in scopes(ctx.tier):
            res = ctx.tlc_expect_ok("Admission", cfg, timeout=4500, deadlock=False, overrides=ov, name="Admission/" + name)
            cases = res.printed
            res.printed = None
            res.out = ""
            if not cases:
                raise vlib.Infra("TLC exported no case in scope %s" % name)
            per_scope[name] = len(cases)
            picked = {}
            for c in cases:
                part = c.get("part")
                line = json.dumps(c, separators=(",", ":"))
                if part == "size":
                    fsz.write(line + "\n")
                    n_size += 1
                elif part == "match":
                    fsp.write(line + "\n")
                    n_match += 1
                elif part == "cri":
                    fsz.write(line + "\n")
                    n_cri += 1
                elif part == "xlist":
                    fsp.write(line + "\n")
                    n_xl += 1
                    if c["g"] in (0, 1):        # through Pipeline.In: thresholds 0 and 1, with and without rules
                        fsz.write(line + "\n")
                        n_xl_pipe += 1
                elif part == "seq":
                    fsz.write(line + "\n")
                    n_seq += 1
                elif part == "rlist":
                    fsp.write(line + "\n")
                    n_rl += 1
                    # through Pipeline.In one pipeline per (global threshold, rule thresholds); In consults the
                    # antispam only for a global threshold >= 0; quick: lists of one or two rules
                    if c["g"] >= 0 and (ctx.tier != "quick" or len(c["rules"]) <= 2):
                        fsz.write(line + "\n")
                        n_rl_pipe += 1
                elif part == "skey":
                    fsz.write(line + "\n")
                    n_sk += 1
                elif part == "offs":
                    fsz.write(line + "\n")
                    n_ofs += 1
                else:
                    fsp.write(line + "\n")
                    n_spam += 1
                    if c["U"] == 4 and not (c["mode"] == "rules" and c["T"] == -1):
                        # seeded choice of the histories that also go through Pipeline.In (trimmed below)
                        if ctx.rng.random() < 0.25:
                            pipe_candidates.append(line)
                        if schedulable(c):
                            sched.setdefault("%s/%s/%s" % (c["T"], c["T2"], c["mode"]), []).append(c)
                if part not in picked or ctx.rng.random() < 0.001:
                    picked[part] = c
            samples.extend(picked.values())
            del cases
        ctx.rng.shuffle(pipe_candidates)
        for line in pipe_candidates[:pipe_budget]:
            fsz.write(line + "\n")
            n_pipe_hist += 1
        for key in sorted(sched):
            cs = sched[key]
            ctx.rng.shuffle(cs)
            for c in cs[:sched_budget]:
                fsz.write(json.dumps(dict(c, part="sched"), separators=(",", ":")) + "\n")
                n_sched += 1
        need = {"plain threshold": any(k.endswith("/exc") for k in sched),
                "threshold 0 + rule": any(k.startswith("0/") and k.endswith("/rules") for k in sched),
                "threshold > 0 + rule": any(not k.startswith("0/") and k.endswith("/rules") for k in sched)}
        if not ctx.replay and not all(need.values()):
            raise vlib.Infra("no schedulable history for configuration family: %s" % [k for k, v in need.items() if not v])
    if n_size < 1000 or n_spam < 10000:
        raise vlib.Infra("TLC exported too few cases: size %d, histories %d" % (n_size, n_spam))
    strict = strict_runs(ctx)

    if ctx.replay:
        # replay file = violation records saved by an earlier run: re-execute exactly their cases
        recs = json.load(open(ctx.replay))
        with open(size_path, "w") as fsz, open(spam_path, "w") as fsp:
            for r in recs:
                c = r.get("case") or {}
                if r.get("harness") == "antispam-rlist":
                    fsp.write(json.dumps(dict(r.get("rlist_case") or {}, part="rlist")) + "\n")
                elif r.get("harness") in ("pipeline-rlist", "pipeline-skey", "pipeline-offsets", "pipeline-seq"):
                    fsz.write(json.dumps(dict(r.get("raw_case") or {}, part={"rlist": "rlist", "skey": "skey", "offsets": "offs", "seq": "seq"}[r["harness"].split("-")[1]])) + "\n")
                elif r.get("harness") == "antispam-xlist":
                    fsp.write(json.dumps(dict(r.get("xlist_case") or {}, part="xlist")) + "\n")
                elif r.get("harness") in ("pipeline-cri", "pipeline-xlist"):
                    fsz.write(json.dumps(dict(r.get("raw_case") or {}, part="cri" if r["harness"] == "pipeline-cri" else "xlist")) + "\n")
                elif r.get("harness") == "antispam-match":
                    fsp.write(json.dumps(dict(r.get("match_case") or {}, part="match")) + "\n")
                elif r.get("harness") == "antispam":
                    fsp.write(json.dumps(dict(c, part="spam")) + "\n")
                elif r.get("harness") == "pipeline-scheduled":
                    fsz.write(json.dumps(dict(c, part="sched")) + "\n")
                elif r.get("harness") == "pipeline-antispam":
                    fsz.write(json.dumps(dict(c, part="spam")) + "\n")
                else:
                    fsz.write(json.dumps(dict(c, part="size", rec=c.get("rec"))) + "\n")

    # ---- real code
    out_a = os.path.join(ctx.scratch, "c20_antispam_out.json")
    bin_a = ctx.go_test_build("pipeline/antispam")
    rc, txt = ctx.run_bin(bin_a, "^TestVerifC20$", env={"VERIF_CASES": spam_path, "VERIF_OUT": out_a}, timeout=7200)
    if rc != 0 or not os.path.exists(out_a):
        raise vlib.Infra("C20 antispam harness failed rc=%s:\n%s" % (rc, txt[-3000:]))
    ra = json.load(open(out_a))
    out_p = os.path.join(ctx.scratch, "c20_pipeline_out.json")
    bin_p = ctx.go_test_build("pipeline")
    rc, txt = ctx.run_bin(bin_p, "^TestVerifC20$", env={"VERIF_CASES": size_path, "VERIF_OUT": out_p}, timeout=7200)
    if rc != 0 or not os.path.exists(out_p):
        raise vlib.Infra("C20 pipeline harness failed rc=%s:\n%s" % (rc, txt[-3000:]))
    rp = json.load(open(out_p))
    if not ctx.replay:
        if ra["executed"] != n_spam:
            raise vlib.Infra("antispam harness executed %d of %d histories" % (ra["executed"], n_spam))
        if rp["misc"]["seq_records"] < 2 * n_seq or rp["misc"]["seq_delivered"] < n_seq:
            raise vlib.Infra("record-sequence family: %d records, %d delivered for %d cases" % (rp["misc"]["seq_records"], rp["misc"]["seq_delivered"], n_seq))
        if ra["xlist_cases"] != n_xl or rp["misc"]["xlist_executed"] != n_xl_pipe:
            raise vlib.Infra("exception-list cases executed: antispam %d, pipeline %d of %d" % (ra["xlist_cases"], rp["misc"]["xlist_executed"], n_xl))
        if ra["rlist_cases"] != n_rl or rp["misc"]["rlist_in_calls"] != 4 * n_rl_pipe:
            raise vlib.Infra("rule-list cases executed: antispam %d of %d, pipeline In calls %d of %d" %
                             (ra["rlist_cases"], n_rl, rp["misc"]["rlist_in_calls"], 4 * n_rl_pipe))
        if rp["misc"]["offsets_in_calls"] != n_ofs:
            raise vlib.Infra("pipeline harness executed %d of %d offsets cases" % (rp["misc"]["offsets_in_calls"], n_ofs))
        if rp["misc"]["skey_in_calls"] < n_sk:
            raise vlib.Infra("pipeline harness made %d In calls for %d source-key cases" % (rp["misc"]["skey_in_calls"], n_sk))
        if rp["misc"]["cri_executed"] < 2 * n_cri:
            raise vlib.Infra("pipeline harness executed %d In calls for %d cri cases" % (rp["misc"]["cri_executed"], n_cri))
        if ra["match_cases"] != n_match:
            raise vlib.Infra("antispam harness executed %d of %d matchrule cases" % (ra["match_cases"], n_match))
        if rp["hist"]["executed"] != n_pipe_hist:
            raise vlib.Infra("pipeline harness executed %d of %d histories" % (rp["hist"]["executed"], n_pipe_hist))
        if rp["sched"]["executed"] != n_sched:
            raise vlib.Infra("pipeline harness executed %d of %d scheduled-maintenance histories" % (rp["sched"]["executed"], n_sched))
        if rp["sched"]["banned_then_admitted"] < 10:
            raise vlib.Infra("scheduled-maintenance family inconclusive: only %d histories saw a ban followed by an admission" %
                             rp["sched"]["banned_then_admitted"])
        if rp["size"]["executed"] < n_size:
            raise vlib.Infra("pipeline harness executed %d In calls for %d size cases" % (rp["size"]["executed"], n_size))

    # ---- classification
    recs = []
    for v in ((ra.get("violations") or []) + (rp["hist"].get("violations") or []) + (rp["sched"].get("violations") or []) +
              (rp["size"].get("violations") or []) + (rp["misc"].get("violations") or [])):
        recs.append(v)
    ctx.classify(recs)
    # the harnesses keep at most 8 records per class; credit known findings with the true number of occurrences
    totals = {}
    for src in (ra, rp["hist"], rp["sched"]):
        for k, n in (src.get("violation_counts") or {}).items():
            totals[k] = totals.get(k, 0) + n
    kept = {}
    for v in recs:
        if "step" in v and v.get("harness") != "pipeline-size":
            k = "%s/%s/%s/%s" % (v["kind"], str(bool(v.get("residual_after_unban"))).lower(),
                                 str(bool(v.get("rules_present"))).lower(), v.get("exception_kind", ""))
            kept.setdefault(k, []).append(v)
    for k, vs in kept.items():
        for f in vlib.load_findings(ctx.pid):
            if f.get("status") == "known" and all(vlib.match_signature(f["signature"], v) for v in vs):
                ctx.known_hits[f["id"]] = ctx.known_hits.get(f["id"], 0) + max(0, totals.get(k, 0) - len(vs))
                break

    # a deviation switch that is on must correspond to a finding that reproduces on the real code
    counts = dict(ra.get("violation_counts") or {})
    stale = []
    if ctx.replay:
        pass
    elif strict["residual_on_violates"] and not any(k.startswith("ban_below_threshold/true/") for k in counts):
        stale.append("D_ResidualAfterUnban is on in the specification but the real code no longer bans below threshold after an unban")
    if not ctx.replay and strict["exceptions_ignored_on_violates"] and not any(k.startswith("exception_dropped/false/true/exception") for k in counts):
        stale.append("D_ExceptionsIgnoredWithRules is on in the specification but the real code no longer drops exception matches when rules exist")
    drift = ra.get("drift", 0) + rp["hist"].get("drift", 0) + ra.get("dump_drift", 0) + rp["misc"].get("xlist_drift", 0) + rp["misc"].get("rlist_drift", 0) + rp["misc"].get("skey_drift", 0) + rp["misc"].get("offsets_drift", 0)
    ctx.drift = drift + len(stale)
    for s in stale:
        vlib.log("MODEL-DRIFT:", s)
    if drift:
        vlib.log("MODEL-DRIFT: %d step(s) where the real antispam state/verdict differs from the transcription "
                 "(no property clause violated by that alone); e.g. %s" %
                 (drift, ((ra.get("drift_samples") or []) + (rp["hist"].get("drift_samples") or []) + (rp["misc"].get("drift_samples") or []) + ["-"])[0][:400]))

    # ---- evidence
    ctx.evaluations = ra["steps"] + rp["hist"]["steps"] + rp["size"]["executed"]
    ctx.traces_validated = n_ofs + ra["rlist_cases"] + n_rl_pipe + n_sk + ra["xlist_cases"] + rp["misc"]["xlist_executed"] + rp["misc"]["cri_executed"] + ra["executed"] + ra["match_cases"] + rp["hist"]["executed"] + rp["sched"]["executed"] + rp["size"]["executed"]
    ctx.nontrivial = ra["cases_with_ban"] + rp["size"]["cut_delivered"] + rp["size"]["kept_at_limit"]
    ctx.exhaustive = True
    ctx.rule = ("size: case = (body length 0..M+2, trailing newline, max_event_size 0..8, cut_off, cut-off field, decodable, "
                "already committed), %d cases, each executed on the real Pipeline.In with the raw, json and probe decoders "
                "(%d In calls, %d delivered, %d cut and delivered, %d records exactly at the limit). antispam: %d maximal "
                "histories (scopes %s), ALL replayed step by step on the real Antispammer (%d steps, %d ban transitions, %d unbans, "
                "%d steps with a determined verdict), and a seeded sample of %d of them through the real Pipeline.In with the cri "
                "decoder; %d histories of the shape burst / >= unban+1 maintenance rounds / burst on a RUNNING pipeline whose own ticker "
                "schedules Maintenance (interval 20 ms, pause 10 x rounds + 300 ms; %d of them saw the ban and then the admission). matchrule: %d (rule set, data) cases, each through the real IsSpam as an exception on the event bytes, as an "
                "exception on the source name and as an unlimited do_if rule. cri: %d (zone, stream, full/partial, antispam setting) cases, each with 4 "
                "well-formed lines through Pipeline.In with decoder cri and decoder auto + suggested cri (%d In calls, all must be admitted and "
                "delivered with log/time/stream unaltered). exception lists: %d lists of 1..3 exceptions (record / source-name subject, matching "
                "bits) through the real IsSpam and through Pipeline.In. rule lists: %d (global threshold, 1..3 rules with matching bit and threshold -1/0/1..3) "
                "cases, 4 arrivals each on the real IsSpam, %d of them also through Pipeline.In. source key: %d interleavings of <= 4 records of two "
                "inputs with / without the meta key x source_name_meta_field unset / set on a running pipeline. offsets: %d cases (saved offsets of not_set / "
                "the record's stream / another stream x raw, json, json with stream field, cri x antispam off / on) through Pipeline.In with "
                "NewOffsets(current, SliceFromMap(saved)) and a PassEvent like the file input's. Non-trivial = histories in which the real antispammer banned a source + size cases that were cut and "
                "delivered or sat exactly at the limit." %
                (n_size, rp["size"]["executed"], rp["size"]["delivered"], rp["size"]["cut_delivered"], rp["size"]["kept_at_limit"],
                 n_spam, json.dumps(per_scope), ra["steps"], ra["bans"], ra["unbans"], ra["determined"], n_pipe_hist, n_sched, rp["sched"]["banned_then_admitted"], n_match,
                 n_cri, rp["misc"]["cri_executed"], n_xl, n_rl, n_rl_pipe, n_sk, n_ofs))
    for s in samples[:4]:
        ctx.sample(s)
    ctx.extra["c20"] = {"scopes": per_scope, "strict_runs": strict, "antispam_harness": {k: ra[k] for k in ra if k not in ("violations", "drift_samples")},
                        "pipeline_size": {k: rp["size"][k] for k in rp["size"] if k != "violations"},
                        "pipeline_hist": {k: rp["hist"][k] for k in rp["hist"] if k not in ("violations", "drift_samples")},
                        "pipeline_scheduled": {k: rp["sched"][k] for k in rp["sched"] if k != "violations"},
                        "pipeline_cri_xlist": {k: rp["misc"][k] for k in rp["misc"] if k != "violations"}}
    ctx.assumptions += [
        "a source's threshold is a function of the source (rules match on source name); event-content rules that give one "
        "source several thresholds are outside the scope",
        "'size' of a record includes its trailing newline, as in checkInputBytes and the file input",
        "the statement is one-directional (refused only if ...): a record the settings allow to refuse is never required to be refused",
        "with the raw decoder the delivered message is compared with all but the last byte of the expected pre-decode bytes "
        "(the raw decoder strips the last byte unconditionally; for a record without trailing newline that is a content byte -- "
        "decoder fidelity is C12, not claimed); the probe decoder compares the exact bytes",
        "matchrule: alphabet {a, b, A}, values of length 1..2, data of length 0..3, one or two rules per set; the do_if variant of a "
        "rule (pipeline/doif, decided under C14) is compared with the same declarative meaning",
        "scheduled-maintenance family: only admissions are asserted (records the statement says cannot be refused, in particular "
        "after a pause of 10 x the silent rounds + 300 ms); nothing is ever required to be still banned",
        "source key: meta values are not decimal numbers (Pipeline.In uses the meta value and the decimal input id in one key space)",
        "IsSpam/Maintenance are replayed sequentially; concurrent callers of one source (unsynchronised read-modify-write) are not covered",
        "ban state = counter >= the source's threshold, read in-package after every step (Dump() cross-checked)",
    ]
