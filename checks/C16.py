"""C16 -- throttle never passes more than the limit per key and time bucket.

1. TLC checks specs/Throttle.tla exhaustively: the step-by-step transcription of
   inMemoryLimiter.isAllowed / getDistrData / rebuildBuckets satisfies the declarative statement
   (NeverOverLimit, TotalWithinSum, NoEarlyReject, KeysIndependent, Remap, plus the statement by
   distribution value: ValueWithinShare, MustRespected) on every history of the tier's slices, and
   exports every history with, per step, the decision the statement demands (pass / reject / open).
   Every spec mutant (a mechanism of the anchored code disabled) must violate a property invariant;
   in the thorough tier a non-monotone clock is explored as well (MODEL-DRIFT only).
2. Every exported history is replayed, event by event, on the real inMemoryLimiter (injected clock)
   and on the real Plugin.Do (real Start, rules, limiters map, time_field); after every event the
   harness evaluates the statement on the REAL history and compares the decision.  Two-key histories
   are re-run key by key on fresh instances (keys never share a budget).
3. Expiry family: the real plugin with a short limiter_expiration and the REAL limiters-map maintenance
   loop (wall clock); two keys are hit continuously across several map generations with the bucket clock
   frozen and must stay within their limit in that one bucket, an idle key must be forgotten.  The run
   is started in the background while TLC works; a run in which the maintenance loop stalled for a whole
   limiter_expiration is inconclusive (repeated, then infra), never a violation.  TLC checks the same
   mechanism at design level (Throttle_expiry.cfg: Maintain action, BusyKeyWithinLimit, EvictedOnlyIdle).
4. Concurrency family: 8 real Plugin instances of one pipeline (they share the pipeline's limiters map) meet at
   brand-new keys at the same instant (forced: the harness holds the map's write lock while they queue on
   getOrAdd's read lock; plus unforced fresh keys), frozen bucket clock; per key exactly min(limit, arrivals)
   events must pass on the merged real history.  The race is constructed/probabilistic; correct code (one
   limiter per key) cannot fail it.  TLC checks getOrAdd's two-phase lookup with concurrent callers at design
   level (Throttle_map.cfg: SpecMap; mechanism M_ReturnStoredLimiter, mutant "orphan" must be rejected).
5. Rules family: TLC enumerates (SpecRule, Throttle_rules.cfg) all pairs of rules with 0..3 conditions over three
   fields x all events and exports which rule must govern each (first matching rule; a rule matches iff every pair
   of its own condition map holds); every rule list is started 8 times through the real Plugin.Start (random map
   iteration, different insertion orders) and the number of identical events that pass in one bucket must equal the
   limit of that rule.  Mutant "permvals" (values not aligned with the sorted keys) must be rejected.
   The expiry family has a second scenario: map EMPTY for longer than limiter_expiration, then busy keys (the map
   generation must follow the wall clock while the map is empty; design level: M_GenAdvancesWhenEmpty, mutant
   "emptyskip").
6. Key family: groups of 2-3 distinct throttle keys of 1..4097 bytes (around 32/64/128/256/512/1024/4096) sharing
   all but their last byte(s), ASCII and multi-byte, equal length or prefix-of, under three rules, interleaved in one
   frozen bucket through the real Plugin.Start/Do: every (rule, key) gets exactly its own budget.  Design level:
   SpecKey (Throttle_keys.cfg), KeyOf injective, mutant "keytrunc" rejected by KeyOwnBudget.
"""
import json
import os
import subprocess

import vlib

LEVEL = "model_checking"

MUTANTS = ["lt", "nozero", "wipeprev", "rot1", "rotdif", "noremap", "future", "shared", "steal", "nogen", "emptyskip", "orphan", "permvals", "keytrunc"]
MUTANT_CFG = {"nogen": "Throttle_expirymut.cfg", "emptyskip": "Throttle_expirymut.cfg",
              "orphan": "Throttle_mapmut.cfg", "permvals": "Throttle_rulesmut.cfg", "keytrunc": "Throttle_keysmut.cfg"}
PROPERTY_INVARIANTS = {"NeverOverLimit", "TotalWithinSum", "NoEarlyReject", "Remap", "ValueWithinShare",
                       "MustRespected", "KeysIndependent", "BusyKeyWithinLimit", "EvictedOnlyIdle",
                       "MapNeverOverLimit", "MapNoEarlyReject", "FirstMatchingRuleGoverns", "KeyOwnBudget"}


def start_expiry(ctx, binary, n):
    out = os.path.join(ctx.scratch, "c16_expiry_%d.json" % n)
    cmd = [binary, "-test.run", "^TestVerifC16Expiry$", "-test.count=1", "-test.timeout", "120s"]
    p = subprocess.Popen(cmd, cwd=ctx.scratch, env=ctx.go_env({"VERIF_EXPIRY_OUT": out}),
                         stdout=subprocess.PIPE, stderr=subprocess.STDOUT, text=True, errors="replace")
    return p, out


def finish_expiry(ctx, binary, p, out):
    """Returns the result of the first conclusive run (at most 3 runs)."""
    tries = []
    for n in range(1, 4):
        try:
            txt, _ = p.communicate(timeout=600)
        except subprocess.TimeoutExpired:
            p.kill()
            raise vlib.Infra("C16 expiry family timed out")
        if p.returncode != 0 or not os.path.exists(out):
            raise vlib.Infra("C16 expiry family failed rc=%s:\n%s" % (p.returncode, txt[-3000:]))
        r = json.load(open(out))
        tries.append({k: r[k] for k in ("conclusive", "why", "max_gen_gap_ms", "span_ms", "generations", "hits")})
        if r["conclusive"]:
            r["tries"] = tries
            return r
        vlib.log("C16 expiry family inconclusive (%s); repeating" % r["why"])
        if n < 3:
            p, out = start_expiry(ctx, binary, n + 1)
    raise vlib.Infra("C16 expiry family inconclusive 3 times: %s" % json.dumps(tries))


def run(ctx):
    thorough = ctx.tier == "thorough"
    cfg = "Throttle_thorough.cfg" if thorough else "Throttle_quick.cfg"
    binary = ctx.go_test_build("plugin/action/throttle")
    exp_proc, exp_out = start_expiry(ctx, binary, 1)          # real time, runs while TLC works
    rules_res = ctx.tlc_expect_ok("Throttle", "Throttle_rules.cfg", timeout=1800, deadlock=False, workers=8)
    rule_cases = rules_res.printed
    rules_res.out = ""
    if len(rule_cases) < 19683:
        raise vlib.Infra("TLC exported only %d rule-selection cases" % len(rule_cases))
    if ctx.replay:
        cases = [r["case"] for r in json.load(open(ctx.replay)) if r["case"].get("s") not in ("expiry", "concurrent", "rules", "keys")]
        cases = cases or [{"s": "ring", "C": 1, "k": 0, "d": 0, "l": [1], "e": [[1, 0, 0, 1, 0, 1, 1, 0]]}]
        total = len(cases)
        res = ctx.tlc_expect_ok("Throttle", "Throttle_mutant.cfg", timeout=900, deadlock=False, workers=4)
    else:
        res = ctx.tlc_expect_ok("Throttle", cfg, timeout=7200 if thorough else 400, deadlock=False)
        cases = res.printed
        res.out = ""
        if len(cases) < 1000:
            raise vlib.Infra("TLC exported only %d histories" % len(cases))
        total = len(cases)
        if thorough:
            back = ctx.tlc_expect_ok("Throttle", "Throttle_back.cfg", timeout=1800, deadlock=False)
            cases += back.printed
            back.out = ""
        ctx.tlc_expect_ok("Throttle", "Throttle_expiry.cfg", timeout=1800, deadlock=False, workers=8)
        ctx.tlc_expect_ok("Throttle", "Throttle_map.cfg", timeout=1800, deadlock=False, workers=8)
        ctx.tlc_expect_ok("Throttle", "Throttle_keys.cfg", timeout=1800, deadlock=False, workers=4)
        # every spec mutant must be rejected by a property invariant (the oracle is not vacuous)
        for m in MUTANTS:
            r = ctx.tlc("Throttle", MUTANT_CFG.get(m, "Throttle_mutant.cfg"), timeout=900, deadlock=False, workers=4,
                        overrides={"Mut": '"%s"' % m}, name="Throttle/mutant-%s" % m)
            if r.kind != "invariant" or r.violated not in PROPERTY_INVARIANTS:
                raise vlib.Infra("spec mutant %s is not rejected by a property invariant (%s %s)" %
                                 (m, r.kind, r.violated))
            ctx.extra.setdefault("spec_mutants_rejected", {})[m] = r.violated

    path = os.path.join(ctx.scratch, "c16_cases.ndjson")
    with open(path, "w") as f:
        for c in cases:
            f.write(json.dumps(c, separators=(",", ":")) + "\n")
    out = os.path.join(ctx.scratch, "c16_out.json")
    rc, txt = ctx.run_bin(binary, "^TestVerifC16$", env={"VERIF_CASES": path, "VERIF_OUT": out}, timeout=9000)
    if rc != 0 or not os.path.exists(out):
        raise vlib.Infra("C16 harness failed rc=%s:\n%s" % (rc, txt[-3000:]))
    r = json.load(open(out))
    if r["executed"] != len(cases):
        raise vlib.Infra("harness executed %d of %d histories" % (r["executed"], len(cases)))
    st = r["stats"]
    if st["OracleMismatch"]:
        raise vlib.Infra("harness oracle and specification disagree on %d steps of identical histories: %s" %
                         (st["OracleMismatch"], st["OracleDetail"]))

    conc_out = os.path.join(ctx.scratch, "c16_conc.json")
    rc, txt = ctx.run_bin(binary, "^TestVerifC16Concurrent$", env={"VERIF_CONC_OUT": conc_out}, timeout=900)
    if rc != 0 or not os.path.exists(conc_out):
        raise vlib.Infra("C16 concurrency family failed rc=%s:\n%s" % (rc, txt[-3000:]))
    conc = json.load(open(conc_out))
    ctx.extra["concurrency_family"] = dict({k: v for k, v in conc.items() if k != "violations"},
                                           note="race on brand-new keys is constructed (forced keys: map write lock held "
                                                "while all instances queue on getOrAdd's read lock) / probabilistic "
                                                "(natural keys); the oracle is order-independent and cannot fail on code "
                                                "with one limiter per key")

    rules_in = os.path.join(ctx.scratch, "c16_rules.ndjson")
    with open(rules_in, "w") as f:
        for c in rule_cases:
            f.write(json.dumps(c, separators=(",", ":")) + "\n")
    rules_out = os.path.join(ctx.scratch, "c16_rules_out.json")
    rc, txt = ctx.run_bin(binary, "^TestVerifC16Rules$", env={"VERIF_RULES_CASES": rules_in, "VERIF_RULES_OUT": rules_out},
                          timeout=1800)
    if rc != 0 or not os.path.exists(rules_out):
        raise vlib.Infra("C16 rules family failed rc=%s:\n%s" % (rc, txt[-3000:]))
    rul = json.load(open(rules_out))
    if rul["cases"] != len(rule_cases):
        raise vlib.Infra("rules family executed %d of %d cases" % (rul["cases"], len(rule_cases)))
    ctx.extra["rules_family"] = {k: v for k, v in rul.items() if k != "violations"}

    keys_out = os.path.join(ctx.scratch, "c16_keys_out.json")
    rc, txt = ctx.run_bin(binary, "^TestVerifC16Keys$", env={"VERIF_KEYS_OUT": keys_out}, timeout=1800)
    if rc != 0 or not os.path.exists(keys_out):
        raise vlib.Infra("C16 key family failed rc=%s:\n%s" % (rc, txt[-3000:]))
    kf = json.load(open(keys_out))
    ctx.extra["key_family"] = {k: v for k, v in kf.items() if k != "violations"}

    ex = finish_expiry(ctx, binary, exp_proc, exp_out)
    ctx.extra["expiry_family"] = {k: v for k, v in ex.items() if k != "violations"}

    ctx.evaluations = st["Steps"] + ex["hits"] + conc["hits"] + rul["decisions"] + kf["decisions"]
    ctx.nontrivial = st["NonTrivial"]
    ctx.traces_validated = 2 * r["executed"] + st["Projections"] + 2 + conc["keys"] + rul["instances"] + kf["groups"]
    ctx.exhaustive = not ctx.replay
    ctx.drift += st["Drift"]
    ctx.extra["replay_stats"] = st
    ctx.rule = ("history = (buckets_count, limit kind, distribution on/off, limit per key) + 3-5 events (key, clock "
                "advance, event-time offset incl. outside the window and future, size, distribution value), enumerated "
                "exhaustively by TLC per slice (%d histories); ALL replayed step by step on the real inMemoryLimiter and on "
                "the real Plugin.Do (%d real executions incl. single-key re-runs, %d decisions compared). Non-trivial = "
                "history replay (per path) with at least one reject and at least one event re-mapped from outside the "
                "window or arriving after the ring rotated (counted by the harness)."
                % (total, ctx.traces_validated, st["Steps"]))
    for c in cases[:2] + cases[-1:]:
        ctx.sample(c)
    ctx.assumptions += [
        "in-memory backend; limits >= 0; limiter expiry switched off (limiter_expiration 100000h) in the step-by-step "
        "replay; exercised separately by the real-time expiry family (limiter_expiration 2.5s, real maintenance loop, "
        "two busy keys and one idle key, one frozen bucket)",
        "key family: key lengths 1..4097 bytes, keys of a group share all but the last 1-2 bytes (or the first byte only, "
        "or one is a prefix of the other); ASCII, 2-byte and 3-byte runes; count kind, limits 1/2/3",
        "rules family: 2 rules + default, 0..3 equality conditions each over 3 fields x 2 values; 8 plugin instances per "
        "rule list (Go map iteration order is random, so a misalignment shows with probability 1/2 or more per instance)",
        "expiry family, idle-first scenario: limiter_expiration 4s, map empty for 5.2s, then two busy keys for 2.4s; its "
        "verdict counts only if its own map generations advanced in time or a never-empty control map's did",
        "concurrency family: the simultaneous first touch of a brand-new key by several plugin instances is constructed "
        "(forced) or probabilistic (natural); 8 instances, 30 rounds x 4 fresh keys, count kind, one frozen bucket",
        "the retained window of a key is anchored at the newest clock reading seen with an event of that key",
        "kind size: an event rejected although passed+size would still fit (arrivals are counted) is left open, "
        "as are decisions for unlisted distribution values when only stolen room could admit them",
        "distribution ratios 0.5/0.25 (+0.25 default); share limit = round(ratio*limit)",
        "non-monotone clock (thorough, slice 'back') is outside the statement: differences are MODEL-DRIFT only",
    ]

    recs = []
    for m in r["mismatches"] or []:
        if m["slice"] == "back":
            ctx.drift += 1
            vlib.log("MODEL-DRIFT: property=C16 non-monotone clock history differs (%s, %s)" % (m["kind"], m["path"]))
            continue
        recs.append(m)
    recs += ex.get("violations") or []
    recs += conc.get("violations") or []
    recs += rul.get("violations") or []
    recs += kf.get("violations") or []
    if r.get("by_kind"):
        ctx.extra["mismatches_by_kind"] = r["by_kind"]
    ctx.classify(recs)
