"""C02 -- decided on the shared core machinery (see checks/C01.py and lib/core.py): TLC exhaustive check of
specs/Pipeline.tla, TLC-generated schedules (spec-mutant counterexamples + simulation) replayed into the real
pipeline, seeded random runs, every trace validated by TLC against the monitors of specs/PipelineObs.tla.
The scenario families emphasise what this property quantifies over."""
import importlib.util
import os

LEVEL = "model_checking"
PID = "C02"
_spec = importlib.util.spec_from_file_location("c01", os.path.join(os.path.dirname(__file__), "C01.py"))
_c01 = importlib.util.module_from_spec(_spec)
_spec.loader.exec_module(_c01)

FAMILIES = {
    "C02": (("commit", 150, 800), ("pool", 40, 200)),
    "C05": (("pool", 150, 800), ("commit", 40, 200), ("retry", 40, 200)),     # failure paths hold pool events too
    "C08": (("batch", 120, 600), ("commit", 60, 300), ("retry", 40, 200)),    # given-up batches (dead queue, split parents): every added event committed exactly once
    "C09": (("retry", 180, 900),),
}


_spec3 = importlib.util.spec_from_file_location("c03", os.path.join(os.path.dirname(__file__), "C03.py"))
_c03 = importlib.util.module_from_spec(_spec3)
_spec3.loader.exec_module(_c03)


def run(ctx):
    _c01.run(ctx, pid=PID, families=FAMILIES[PID])
    if PID == "C02":
        # the input that keeps per-(source, stream) offsets judges the notifications it receives (see C03.commit_order_stage)
        ctx.classify(_c03.commit_order_stage(ctx))
        ctx.assumptions += ["file-input stage: the input's own 'offset corruption' check is the judge (commit not advancing the offset of "
                            "its source and stream); lost lines of those histories are C03's business"]
