"""C06 -- file reader emits each complete line once with its end-of-line offset.

1. TLC checks specs/FileReader.tla exhaustively: the step-by-step transcription of worker.work
   satisfies the declarative oracle (LinesExactlyOnce, CallsAreLines, TailIsRemainder, AccumBounded)
   on the whole small-scope case space, and exports every case with the expected In-calls per round.
2. The real worker.work is run on a real file for the exported cases (all in thorough, a seeded
   sample in quick) and its In-calls are compared with the specification's expectation.
5. Compressed input: real .lz4 files read by the real worker from every saved line-end offset (lz4 cannot seek: the worker reads
   forward); what lies beyond the saved offset must be the specification's lines.
4. End to end: a sample of the cases is read by the real file plugin inside a real pipeline (limit and cut-off in the
   pipeline settings, raw decoder); (message, offset) at the output must be the specification's lines.
3. Several files on ONE worker goroutine (specs/WorkerTails.tla: the held-back tail of a file is the file's own copy,
   mutant M_TailCopied rejected): seeded groups of two or three cases with the same worker configuration are served
   by one worker.work call per round; each file must see exactly the calls expected for it alone.
"""
import json
import os

import vlib

LEVEL = "model_checking"


def run(ctx):
    cfg = "FileReader_quick.cfg" if ctx.tier == "quick" else "FileReader_thorough.cfg"
    res = ctx.tlc_expect_ok("FileReader", cfg, timeout=4500, deadlock=False)
    cases = res.printed
    mm = ctx.tlc("FileReader", "FileReader_mut_maint.cfg", timeout=1800, deadlock=False, name="FileReader/mutant (maintenance forgets the held-back tail)")
    if mm.ok:
        raise vlib.Infra("spec mutant M_MaintenanceKeepsTail of FileReader is not rejected")
    mb = ctx.tlc("FileReader", "FileReader_mut_busy.cfg", timeout=1800, deadlock=False, name="FileReader/mutant (maintenance rewrites the offset of a job that is being read)")
    if mb.ok:
        raise vlib.Infra("spec mutant M_MaintenanceSkipsBusyJob of FileReader is not rejected")
    ctx.tlc_expect_ok("WorkerTails", "WorkerTails_ok.cfg", timeout=900, deadlock=False, name="WorkerTails/faithful")
    mut = ctx.tlc("WorkerTails", "WorkerTails_mut.cfg", timeout=900, deadlock=False, name="WorkerTails/mutant (tail aliases the worker's buffer)")
    if mut.ok or mut.violated != "TailsIntact":
        raise vlib.Infra("spec mutant M_TailCopied of WorkerTails is not rejected (violated=%s)" % mut.violated)
    if len(cases) < 1000:
        raise vlib.Infra("TLC exported only %d cases" % len(cases))
    total = len(cases)
    if ctx.replay:
        cases = []
        for r in json.load(open(ctx.replay)):
            cases.append(r["case"])
            ex = r.get("extra") or {}
            cases += (ex.get("served_with") or []) if isinstance(ex, dict) else []
    elif ctx.tier == "quick":
        ctx.rng.shuffle(cases)
        cases = cases[:30000]
    path = os.path.join(ctx.scratch, "c06_cases.ndjson")
    with open(path, "w") as f:
        for c in cases:
            f.write(json.dumps(c) + "\n")
    out = os.path.join(ctx.scratch, "c06_out.json")
    binary = ctx.go_test_build("plugin/input/file")
    rc, txt = ctx.run_bin(binary, "^TestVerifC06$", env={"VERIF_CASES": path, "VERIF_OUT": out, "VERIF_SEED": str(ctx.seed),
                                                              "VERIF_C06_GROUPS": "150000" if ctx.tier == "thorough" else "10000"}, timeout=9000)
    if rc != 0 or not os.path.exists(out):
        raise vlib.Infra("C06 harness failed rc=%s:\n%s" % (rc, txt[-3000:]))
    r = json.load(open(out))
    if r["executed"] != len(cases):
        raise vlib.Infra("harness executed %d of %d cases" % (r["executed"], len(cases)))
    ctx.evaluations = r["executed"] + r.get("groups", 0)
    ctx.extra["groups_of_files_served_by_one_worker"] = r.get("groups", 0)
    ctx.nontrivial = r["crossing"]
    ctx.traces_validated = r["executed"]
    ctx.exhaustive = ctx.tier == "thorough"
    ctx.rule = ("case = (content over {x,\\n} up to the length bound, split into 3 appends, read-buffer size, "
                "max_event_size, cut_off, resume offset), enumerated exhaustively by TLC (%d cases); replayed on the real "
                "worker.work: %s. Non-trivial = at least one complete line crosses a read-buffer or append boundary "
                "(counted by the harness)." % (total, "all" if ctx.exhaustive else "seeded sample of %d" % len(cases)))
    for c in cases[:3]:
        ctx.sample(c)
    ctx.assumptions += ["appends happen only while the job is at EOF (between read rounds); lz4 files: whole content present, resume at line ends, no size limit",
                        "end to end (file input + Pipeline.In with the same limit, raw decoder): cases without resume/skip, the whole content written before the start"]
    recs = []
    for m in r["mismatches"] or []:
        recs.append({"kind": m["kind"], "case": m["case"], "round": m["round"], "want": m.get("want"),
                     "got": m.get("got"), "panic": m.get("panic", ""), "extra": m.get("extra")})
    # 3. end to end: the real file input inside a real pipeline (size limit applied by Pipeline.In as well)
    pool = [c for c in (res.printed if not ctx.replay else cases) if c.get("resume", 0) == 0 and not c.get("skip")]
    if not ctx.replay:
        ctx.rng.shuffle(pool)
        lim = [c for c in pool if c["M"] > 0]
        pool = lim[:2400 if ctx.tier == "thorough" else 300] + [c for c in pool if c["M"] == 0][:600 if ctx.tier == "thorough" else 60]
    if pool:
        p2 = os.path.join(ctx.scratch, "c06_e2e_cases.ndjson")
        with open(p2, "w") as f:
            for c in pool:
                f.write(json.dumps(c) + "\n")
        out2 = os.path.join(ctx.scratch, "c06_e2e_out.json")
        rc, txt = ctx.run_bin(binary, "^TestVerifC06E2E$", env={"VERIF_CASES": p2, "VERIF_OUT": out2}, timeout=9000)
        if rc != 0 or not os.path.exists(out2):
            i = txt.find("panic:")
            j = txt.find("fatal error:")
            k = min([x for x in (i, j) if x >= 0] or [max(0, len(txt) - 3000)])
            raise vlib.Infra("C06 end-to-end harness failed rc=%s:\n%s" % (rc, txt[k:k + 4000]))
        r2 = json.load(open(out2))
        if r2["executed"] != len(pool):
            raise vlib.Infra("end-to-end harness executed %d of %d cases" % (r2["executed"], len(pool)))
        ctx.evaluations += r2["executed"]
        ctx.extra["end_to_end_cases"] = r2["executed"]
        ctx.extra["end_to_end_cases_with_a_line_exactly_at_the_limit"] = r2["at_limit"]
        for m in r2["mismatches"] or []:
            recs.append({"kind": m["kind"], "case": m["case"], "round": -1, "want": m.get("want"), "got": m.get("got"), "panic": "", "extra": None})
    # 5. compressed files: resume by reading forward (no seek), real .lz4 files, every saved offset at a line end
    lzpool = [c for c in (res.printed if not ctx.replay else cases) if c.get("resume", 0) == 0 and not c.get("skip") and c["M"] == 0
              and c.get("op", "direct") == "direct" and sum(len(x) for x in c["segs"]) >= 3]
    if not ctx.replay:
        ctx.rng.shuffle(lzpool)
        lzpool = lzpool[:1200 if ctx.tier == "thorough" else 150]
    if lzpool:
        p3 = os.path.join(ctx.scratch, "c06_lz4_cases.ndjson")
        with open(p3, "w") as f:
            for c in lzpool:
                f.write(json.dumps(c) + "\n")
        out3 = os.path.join(ctx.scratch, "c06_lz4_out.json")
        rc, txt = ctx.run_bin(binary, "^TestVerifC06Lz4$", env={"VERIF_CASES": p3, "VERIF_OUT": out3}, timeout=9000)
        if rc != 0 or not os.path.exists(out3):
            raise vlib.Infra("C06 lz4 harness failed rc=%s:\n%s" % (rc, txt[-3000:]))
        r3 = json.load(open(out3))
        ctx.evaluations += r3["executed"]
        ctx.extra["lz4_runs"] = r3["executed"]
        ctx.extra["lz4_runs_resumed_from_a_saved_offset"] = r3["resumed"]
        if r3["resumed"] == 0:
            raise vlib.Infra("no lz4 run resumed from a saved offset")
        for m in r3["mismatches"] or []:
            recs.append({"kind": m["kind"], "case": m["case"], "round": -1, "want": m.get("want"), "got": m.get("got"), "panic": m.get("panic", ""),
                         "extra": {"saved_offset": m.get("saved")}})
    ctx.classify(recs)
