"""C06 -- file reader emits each complete line once with its end-of-line offset.

1. TLC checks specs/FileReader.tla exhaustively: the step-by-step transcription of worker.work
   satisfies the declarative oracle (LinesExactlyOnce, CallsAreLines, TailIsRemainder, AccumBounded)
   on the whole small-scope case space, and exports every case with the expected In-calls per round.
2. The real worker.work is run on a real file for the exported cases (all in thorough, a seeded
   sample in quick) and its In-calls are compared with the specification's expectation.
3. Several files on ONE worker goroutine (specs/WorkerTails.tla: the held-back tail of a file is the file's own copy,
   mutant M_TailCopied rejected): seeded groups of two or three cases with the same worker configuration are served
   by one worker.work call per round; each file must see exactly the calls expected for it alone.
"""
import json
import os

import vlib

LEVEL = "model_checking"


def run(ctx):
    cfg = "FileReader_quick.cfg" if ctx.tier == "quick" else "FileReader_thorough.cfg"
    res = ctx.tlc_expect_ok("FileReader", cfg, timeout=1500, deadlock=False)
    cases = res.printed
    ctx.tlc_expect_ok("WorkerTails", "WorkerTails_ok.cfg", timeout=300, deadlock=False, name="WorkerTails/faithful")
    mut = ctx.tlc("WorkerTails", "WorkerTails_mut.cfg", timeout=300, deadlock=False, name="WorkerTails/mutant (tail aliases the worker's buffer)")
    if mut.ok or mut.violated != "TailsIntact":
        raise vlib.Infra("spec mutant M_TailCopied of WorkerTails is not rejected (violated=%s)" % mut.violated)
    if len(cases) < 1000:
        raise vlib.Infra("TLC exported only %d cases" % len(cases))
    total = len(cases)
    if ctx.replay:
        cases = []
        for r in json.load(open(ctx.replay)):
            cases.append(r["case"])
            ex = r.get("extra") or {}
            cases += (ex.get("served_with") or []) if isinstance(ex, dict) else []
    elif ctx.tier == "quick":
        ctx.rng.shuffle(cases)
        cases = cases[:30000]
    path = os.path.join(ctx.scratch, "c06_cases.ndjson")
    with open(path, "w") as f:
        for c in cases:
            f.write(json.dumps(c) + "\n")
    out = os.path.join(ctx.scratch, "c06_out.json")
    binary = ctx.go_test_build("plugin/input/file")
    rc, txt = ctx.run_bin(binary, "^TestVerifC06$", env={"VERIF_CASES": path, "VERIF_OUT": out, "VERIF_SEED": str(ctx.seed),
                                                              "VERIF_C06_GROUPS": "150000" if ctx.tier == "thorough" else "10000"}, timeout=3000)
    if rc != 0 or not os.path.exists(out):
        raise vlib.Infra("C06 harness failed rc=%s:\n%s" % (rc, txt[-3000:]))
    r = json.load(open(out))
    if r["executed"] != len(cases):
        raise vlib.Infra("harness executed %d of %d cases" % (r["executed"], len(cases)))
    ctx.evaluations = r["executed"] + r.get("groups", 0)
    ctx.extra["groups_of_files_served_by_one_worker"] = r.get("groups", 0)
    ctx.nontrivial = r["crossing"]
    ctx.traces_validated = r["executed"]
    ctx.exhaustive = ctx.tier == "thorough"
    ctx.rule = ("case = (content over {x,\\n} up to the length bound, split into 3 appends, read-buffer size, "
                "max_event_size, cut_off, resume offset), enumerated exhaustively by TLC (%d cases); replayed on the real "
                "worker.work: %s. Non-trivial = at least one complete line crosses a read-buffer or append boundary "
                "(counted by the harness)." % (total, "all" if ctx.exhaustive else "seeded sample of %d" % len(cases)))
    for c in cases[:3]:
        ctx.sample(c)
    ctx.assumptions += ["regular (non-lz4) files; appends happen only while the job is at EOF (between read rounds)",
                        "pipeline-level cut to exactly max_event_size bytes is decided under C20"]
    recs = []
    for m in r["mismatches"] or []:
        recs.append({"kind": m["kind"], "case": m["case"], "round": m["round"], "want": m.get("want"),
                     "got": m.get("got"), "panic": m.get("panic", ""), "extra": m.get("extra")})
    ctx.classify(recs)
