"""C15 -- multi-line reassembly (join, join_template, k8s multi-line action).

1. TLC checks specs/Join.tla and specs/K8sMultiline.tla exhaustively in small scope: the branch-by-branch
   transcriptions of join.Do/flush (+ the processor's addressing of events and time-outs for a chain with
   one action before the join) and of MultilineAction.Do satisfy the declarative Runs/Output oracle in every
   state, with the code's deviations as named switches (faithful config: on; *_ideal.cfg: off, the statement
   then holds without exception). Every (case, time-out placement) is exported with the declaratively
   expected output.
2. Plugin-level replay: every exported case is executed against the REAL join, join_template and k8s
   multi-line plugins (real Start, real regexps / templates), Do call by Do call, and the events that left
   the action are compared with the declarative expectation.
3. Pipeline-level runs: the real join inside the real pipeline (event_timeout 10-30 ms, several sources and
   streams, 1/2/4 processors, optionally behind a pass-through / discarding / breaking action, or before a
   discarding one). Per stream the observed output is compared with Output(seq, TO) looked up in the TLC
   table for the sequence and the time-out positions ACTUALLY observed; a held run must be flushed within a
   generous slack once the stream is quiet (3/3).
"""
import collections
import json
import os
import threading

import vlib

LEVEL = "model_checking"

PW = 7          # width of every value in the pipeline-level runs
WAIT_MS = 3000  # slack for "a time-out arrives once the stream is quiet": heartbeat 200 ms + event_timeout <= 30 ms, > 10x


# ----------------------------------------------------------------------------- helpers on exported cases
def items(raw):
    """exp / alt / model of a Join case -> list of (is_pass, ids); None if the field is 0 (= same as exp)."""
    if raw == 0 or raw is None:
        return None
    out = []
    for it in raw:
        if isinstance(it, int):
            out.append((True, [it]))
        else:
            out.append((False, list(it)))
    return out


def case_key(c):
    return (c["pre"], tuple(c["seq"]), bool(c["neg"][0]), c["M"], tuple(sorted(c["to"])))


# ----------------------------------------------------------------------------- pipeline-level scenarios
ST_CODE = {"a": "1", "b": "2"}


TPL_W = 24      # width of every value when the plugin under test is join_template
TPL_LINES = {   # template -> (start line, continue line); go_data_race negates (its "continue" pattern ENDS the run)
    "go_panic": ("panic: %s", "\tm.go:1 %s"),
    "go_data_race": ("WARNING: DATA RACE %s", "================== %s"),
}
LETTER = {"S1": "S", "C1": "C", "O": "O", "D": "O", "B": "O", "XO": "O", "S1d": "S", "Od": "O"}


def p_event(cls, src, st, idx, mark=None, style="re"):
    """(key, value or None, json document) of the event at position idx (1-based) of stream (src, st).
    style "re": the join plugin with regexps ^S / ^C; otherwise the name of the join_template template."""
    k = "%d%s%02d" % (src, st, idx)
    extra = ""
    if mark:
        extra = ',"%s":"%s"' % (tuple(mark.split("=")) if "=" in mark else (mark, "1"))
    w = PW if style == "re" else TPL_W
    if cls in ("NF", "XN"):
        return k, None, '{"msg":"x","stream":"%s","k":"%s"%s}' % (st, k, extra)
    if cls == "NS":
        v = ("7%d%s%02d" % (src, ST_CODE[st], idx)).ljust(w, "0")
        return k, v, '{"log":%s,"stream":"%s","k":"%s"%s}' % (v, st, k, extra)
    letter = LETTER[cls]
    if style == "re":
        v = "%s%s|\n" % (letter, k)
    else:
        text = {"S": TPL_LINES[style][0] % k, "C": TPL_LINES[style][1] % k, "O": "hello %s" % k}[letter]
        v = text.ljust(w - 1) + "\n"
    assert len(v) == w, (v, w)
    return k, v, '{"log":%s,"stream":"%s","k":"%s"%s}' % (json.dumps(v), st, k, extra)


def sc_style(sc):
    return "re" if sc.get("plugin", "join") == "join" else sc["templates"][0]


def sc_pw(sc):
    return PW if sc.get("plugin", "join") == "join" else TPL_W


def make_scenarios(ctx, groups, n, first_id=0):
    rng = ctx.rng
    scs = []
    for i in range(n):
        r = rng.random()
        pre = "none" if r < 0.3 else ("discard" if r < 0.48 else ("break" if r < 0.56 else ("sel" if r < 0.76 else "post")))
        neg = rng.random() < 0.35
        Ms = sorted({k[2] for k in groups if k[0] == pre})
        M = rng.choice(Ms)
        pool = groups[(pre, neg, M)]
        gate = False
        if pre == "none":
            chain = rng.choice(["join", "join", "pass+join"])
            procs = rng.choice([1, 2, 2, 4, 4])
            nstreams = rng.choice([1, 2, 3, 4])
        elif pre == "discard":
            chain = "discard+join"
            procs = rng.choice([1, 2, 4])
            # with D5 a processor stays parked on the stream whose run is not flushed; a single processor would
            # starve the other streams (that is C04's business), so one stream then
            nstreams = 1 if procs == 1 else rng.choice([1, 2, 3, 4])
        elif pre == "post":
            # the real discard plugin BEHIND the join drops marked lines and whole flushed runs; mostly with the whole
            # stream queued before the join sees its first line (what a nested processEvent would pull in)
            chain = "join+discard"
            procs = rng.choice([1, 2, 4])
            nstreams = rng.choice([1, 2, 3])
            gate = rng.random() < 0.7
        elif pre == "sel":
            chain = rng.choice(["seljoin-mf", "seljoin-doif"])
            procs = rng.choice([1, 1, 2, 4])
            nstreams = rng.choice([2, 3, 4])
        else:
            chain = "break+join"
            # one processor and one stream: the outcome is the transcription's; a few concurrent ones on top
            if rng.random() < 0.75:
                procs, nstreams = 1, 1
            else:
                procs, nstreams = rng.choice([2, 4]), rng.choice([2, 3])
        slots = [(1, "a"), (1, "b"), (2, "a"), (2, "b")]
        rng.shuffle(slots)
        streams = []
        plugin = "join_template" if rng.random() < 0.25 else "join"
        templates = ["go_data_race" if neg else "go_panic"]
        style = "re" if plugin == "join" else templates[0]
        pw = PW if plugin == "join" else TPL_W
        if gate:
            pool = [c for c in pool if all(p >= len(c["seq"]) for p in c["to"])] or pool
        for (src, st) in sorted(slots[:nstreams]):
            c = rng.choice(pool)
            for _ in range(3):          # prefer cases in which something is joined or timed out
                if len(c["seq"]) >= 3 and (c["to"] or any(not isinstance(x, int) and len(x) > 1 for x in c["exp"])):
                    break
                c = rng.choice(pool)
            evs, marks = [], []
            for idx, cls in enumerate(c["seq"], 1):
                mark = None
                if cls == "D":
                    mark = "drop"
                elif cls == "B":
                    mark = "brk"
                elif chain.startswith("seljoin"):
                    mark = "kind=other" if cls in ("XO", "XN") else "kind=multi"
                elif cls in ("S1d", "Od"):
                    mark = "drop"
                marks.append(mark)
                evs.append(p_event(cls, src, st, idx, mark, style)[2])
            stalls = [] if gate else [p for p in c["to"] if p < len(c["seq"])]
            streams.append({"src": src, "name": st, "events": evs, "stalls": stalls, "gate": gate,
                            "seq": c["seq"], "marks": marks, "planned_to": c["to"],
                            "delay_ms": rng.choice([0, 0, 0, 40, 80]) if pre == "sel" else 0})
        limit = 0 if M == 0 else M * pw - rng.randrange(pw)
        scs.append({"id": first_id + i, "chain": chain, "pre": pre, "procs": procs, "timeout_ms": rng.choice([10, 20, 30]),
                    "limit": limit, "M": M, "neg": neg, "wait_ms": WAIT_MS, "streams": streams,
                    "plugin": plugin, "templates": templates, "hold": rng.choice([0, 2, 4, 8])})
    return scs


def directed_scenarios(first_id):
    """The minimal histories of DESIGN.md section 8 for D5 and D15, always run."""
    def stream(seq, src=1, st="a", sel=False, delay=0, gate=False, style="re"):
        evs, marks = [], []
        for idx, cls in enumerate(seq, 1):
            mark = {"D": "drop", "B": "brk", "S1d": "drop", "Od": "drop"}.get(cls)
            if sel:
                mark = "kind=other" if cls in ("XO", "XN") else "kind=multi"
            marks.append(mark)
            evs.append(p_event(cls, src, st, idx, mark, style)[2])
        return {"src": src, "name": st, "events": evs, "stalls": [], "seq": seq, "marks": marks, "planned_to": [],
                "delay_ms": delay, "gate": gate}
    out = []
    # the distinguishing histories of the spec mutant M_PropagateResetsBusyFirst = FALSE (Join_mutprop.cfg): the run flushed by
    # the next event is dropped by the action behind the join while more lines of the stream are queued / follow
    for j, (plugin, procs, gate, seq) in enumerate([
            ("join", 1, False, ["S1d", "O"]),                         # the line that ended the run must come out
            ("join", 1, True, ["S1d", "C1", "S1", "C1"]),             # continuation emitted alone, before its start line
            ("join", 2, True, ["S1d", "O", "O", "S1"]),
            ("join_template", 1, True, ["S1d", "C1", "S1", "C1"]),
            ("join_template", 2, False, ["S1d", "NF", "O"]),
    ]):
        tpl = ["go_panic"]
        out.append({"id": first_id + 70 + j, "chain": "join+discard", "pre": "post", "procs": procs, "timeout_ms": 20, "limit": 0,
                    "M": 0, "neg": False, "wait_ms": WAIT_MS, "plugin": plugin, "templates": tpl, "directed": True,
                    "streams": [stream(seq, gate=gate, style="re" if plugin == "join" else tpl[0])]})
    # the distinguishing histories of the spec mutant M_BusyIgnoresSelector = FALSE (Join_mutsel.cfg): an event that does not
    # satisfy the join's selector arrives inside an open run; one source, and a second source after the first has drained
    for j, (chain, procs, seqs) in enumerate([
            ("seljoin-mf", 1, [["S1", "C1", "XO", "C1"]]),
            ("seljoin-doif", 1, [["S1", "XN", "S1", "C1"]]),
            ("seljoin-mf", 1, [["S1", "XO"], ["C1", "C1"]]),
            ("seljoin-doif", 2, [["S1", "C1", "XN"], ["C1", "O"]]),
    ]):
        sts = [stream(q, src=n + 1, sel=True, delay=120 * n) for n, q in enumerate(seqs)]
        out.append({"id": first_id + 50 + j, "chain": chain, "pre": "sel", "procs": procs, "timeout_ms": 20, "limit": 0, "M": 0,
                    "neg": False, "wait_ms": WAIT_MS, "streams": sts, "directed": True})
    # several runs in a row on one processor with an output that reads the events late (M_FlushCopiesBuffer)
    for j, (plugin, seq) in enumerate([("join", ["S1", "C1", "S1", "S1", "O"]), ("join_template", ["S1", "C1", "S1", "S1", "O"])]):
        out.append({"id": first_id + 80 + j, "chain": "join", "pre": "none", "procs": 1, "timeout_ms": 20, "limit": 0, "M": 0,
                    "neg": False, "wait_ms": WAIT_MS, "plugin": plugin, "templates": ["go_panic"], "hold": 8, "directed": True,
                    "streams": [stream(seq, gate=True, style="re" if plugin == "join" else "go_panic")]})
    for j, (chain, pre, procs, seq) in enumerate([
            ("discard+join", "discard", 1, ["S1", "C1", "D"]),        # D5: run held, last event discarded by action 0
            ("discard+join", "discard", 2, ["S1", "D"]),
            ("discard+join", "discard", 2, ["S1", "C1"]),             # control: no discard, must be flushed
            ("break+join", "break", 1, ["S1", "B", "O"]),             # D15: commits/outputs 2,1,3
            ("break+join", "break", 1, ["S1", "B", "C1", "O"]),           # ... and the continuation is still appended across it
            ("join", "none", 2, ["S1", "C1", "C1"]),                  # control: plain join, flushed by time-out
            ("pass+join", "none", 2, ["S1", "C1"]),
    ]):
        out.append({"id": first_id + j, "chain": chain, "pre": pre, "procs": procs, "timeout_ms": 20, "limit": 0, "M": 0,
                    "neg": False, "wait_ms": WAIT_MS, "streams": [stream(seq)], "directed": True})
    return out


def p_match(obs, exp, vals, limit):
    """obs: list of dict(k, has_log, is_str, log); exp: list of (is_pass, ids); vals: per position (key, value)."""
    if len(obs) != len(exp):
        return False
    for o, (is_pass, ids) in zip(obs, exp):
        if is_pass:
            key, val = vals[ids[0] - 1]
            if o["k"] != key:
                return False
            if val is None:
                if o["has_log"]:
                    return False
            elif not o["has_log"] or o["log"] != val or o["is_str"] != (not val[0].isdigit()):
                return False
            continue
        full = "".join(vals[i - 1][1] for i in ids)
        if o["k"] not in [vals[i - 1][0] for i in ids] or not o["has_log"] or not o["is_str"]:
            return False
        if not o["log"] or not full.startswith(o["log"]):
            return False
        if limit == 0 or len(full) <= limit:
            if o["log"] != full:
                return False
        elif len(o["log"]) < limit:
            return False
    return True


def p_exact(obs, model, vals):
    if len(obs) != len(model):
        return False
    for o, (is_pass, ids) in zip(obs, model):
        if o["k"] != vals[ids[0] - 1][0]:
            return False
        if not is_pass and o.get("log") != "".join(vals[i - 1][1] for i in ids):
            return False
    return True


def analyse_stream(sc, st, res, table):
    """-> (records, stats) for one stream of one pipeline run."""
    key = "%d/%s" % (st["src"], st["name"])
    seq, n = st["seq"], len(st["seq"])
    pw = sc_pw(sc)
    vals = [p_event(cls, st["src"], st["name"], idx, m, sc_style(sc))[:2]
            for idx, (cls, m) in enumerate(zip(seq, st["marks"]), 1)]
    log = sorted([e for e in (res.get("log") or []) if e["key"] == key], key=lambda e: e["seq"])
    out = sorted([o for o in (res.get("out") or []) if o["key"] == key], key=lambda o: o["seq"])
    base = {"level": "pipeline", "plugin": sc.get("plugin", "join"), "chain": sc["chain"], "procs": sc["procs"], "scenario": sc["id"],
            "stream": key, "seq": seq, "neg": sc["neg"], "M": sc["M"], "limit": sc["limit"],
            "break_before_join": sc["chain"] == "break+join",
            "action_before_join": {"discard+join": "discard", "break+join": "break", "pass+join": "pass",
                                   "seljoin-mf": "pass", "seljoin-doif": "pass"}.get(sc["chain"], "none"),
            "join_selector": {"seljoin-mf": "match_fields", "seljoin-doif": "do_if"}.get(sc["chain"], "none"),
            "action_after_join": "discard" if sc["chain"] == "join+discard" else "none",
            "scenario_def": sc}
    recs = []
    stats = {"to_observed": 0, "joined": 0}
    seen0 = []
    for e in log:                       # order in which the chain was handed the stream's events
        if not e["to"] and e["k"] not in seen0:
            seen0.append(e["k"])
    want0 = [v[0] for v in vals]
    if seen0 != want0:
        if seen0 == want0[:len(seen0)]:
            # not all events were processed within the slack (a wedge is C04's business; only reported if 3/3)
            recs.append(dict(base, kind="stream_not_processed", got=seen0, timing=True))
        else:
            recs.append(dict(base, kind="stream_order", got=seen0))
        return recs, stats
    to_all = sorted({e["pos"] for e in log if e["to"]})
    to_join = sorted({e["pos"] for e in log if e["to"] and e["join"]})
    to_mis = sorted(set(to_all) - set(to_join))
    stats["to_observed"] = len(to_all)
    obs = [{"k": o["k"], "has_log": o["has_log"], "is_str": o["is_str"], "log": o["log"]} for o in out]
    # the output looks at an event a few events after it arrived: the text must still be what it was at arrival
    for o in out:
        if o["has_log"] and o["log"] != o.get("log_early", o["log"]):
            recs.append(dict(base, kind="flushed_text_changed", as_modelled=False, event=o["k"], early=o["log_early"], late=o["log"]))
            return recs, stats
    # foreign text in a joined field = events of different streams or sources merged
    own = {v[1] for v in vals if v[1] is not None}
    cross = False
    for o in obs:
        if o["has_log"] and o["is_str"]:
            toks = [o["log"][i:i + pw] for i in range(0, len(o["log"]), pw)]
            if any(t not in own for t in toks):
                cross = True
    base.update(to_all=to_all, to_misdelivered=bool(to_mis), got=obs, cross_stream=cross)
    # a stream without discarded / broken-out events is a chain-"none" case whatever stands before the join
    pre = sc["pre"] if (set(seq) & {"D", "B", "XO", "XN", "S1d", "Od"}) else "none"
    # Output(seq, TO) is defined for any TO; the table has the placements at which something is waiting for a
    # time-out. A time-out delivered at any other position closes nothing (every open run has the processor
    # waiting), so it is ignored for the expectation -- e.g. the synthetic time-out a repaired processor could use
    # to flush a held run before a broken-out event.
    to_eff = []
    for x in to_all:
        if (pre, tuple(seq), sc["neg"], sc["M"], tuple(to_eff + [x])) in table:
            to_eff.append(x)
    base["to_ignored"] = sorted(set(to_all) - set(to_eff))
    c = table.get((pre, tuple(seq), sc["neg"], sc["M"], tuple(to_eff)))
    c0 = table.get((pre, tuple(seq), sc["neg"], sc["M"], ()))
    if c0 is None:
        raise vlib.Infra("pipeline scenario %s uses a sequence that TLC did not export: %s" % (sc["id"], seq))
    # D15 can only be blamed where the specification says a broken-out event meets a held run -- in this stream,
    # or in another stream of the same pipeline (the processor that left a stream with its join still holding
    # absorbs lines of whatever stream it serves next)
    base["d15_exercised"] = ("D15" in (c["dev"] if c is not None else c0["dev"])) or sc.get("d15_somewhere", False)
    if c is None:
        # a time-out was delivered at a position where, by the specification, nothing is waiting for one
        recs.append(dict(base, kind="merge" if cross else "unexplained_timeout", as_modelled=False))
        return recs, stats
    exp = items(c["exp"])
    alt = items(c["alt"])
    model = items(c["model"])
    if model is None:
        model = exp
    # (chain join+discard: the table's expectation already leaves out what the discarding action behind the join drops)
    stats["joined"] = sum(1 for x in exp if not x[0] and len(x[1]) > 1)
    ok = p_match(obs, exp, vals, sc["limit"]) or (alt is not None and p_match(obs, alt, vals, sc["limit"]))
    if ok:
        if c["pend"] and n not in to_all:
            # the stream has been quiet for the whole slack and no time-out was delivered to anybody
            recs.append(dict(base, kind="run_not_flushed_on_timeout", to_observed=False, as_modelled=False, timing=True))
        return recs, stats
    as_modelled = p_exact(obs, model, vals)
    dev = c["dev"]
    if cross:
        kind = "merge"
    elif pre == "discard" and dev == ["D5"] and to_mis:
        kind = "run_not_flushed_on_timeout"
    elif pre == "break" and "D15" in dev:
        kind = "order"
    else:
        kind = "output_differs"
    recs.append(dict(base, kind=kind, as_modelled=as_modelled, dev=dev, to_observed=bool(to_all),
                     want=c["exp"], model=c["model"] if c["model"] != 0 else c["exp"]))
    return recs, stats


def run_pipeline(ctx, bins, scs, tag):
    """Run scenarios in the harness binaries (one per plugin under test, concurrently); returns the merged results."""
    groups = collections.defaultdict(list)
    for s in scs:
        groups[s.get("plugin", "join")].append(s)
    outs = {}

    def one(plugin, group):
        binary = bins["plugin/action/" + plugin]
        path = os.path.join(ctx.scratch, "c15_pipe_%s_%s.ndjson" % (tag, plugin))
        out = os.path.join(ctx.scratch, "c15_pipe_%s_%s.out" % (tag, plugin))
        with open(path, "w") as f:
            for s in group:
                f.write(json.dumps({k: v for k, v in s.items() if k not in ("pre", "M", "directed", "d15_somewhere")}) + "\n")
        if os.path.exists(out):
            os.remove(out)
        rc, txt = ctx.run_bin(binary, "^TestVerifC15Pipe$", env={"VERIF_CASES": path, "VERIF_OUT": out}, timeout=4500)
        results, begun, done = {}, set(), False
        if os.path.exists(out):
            for line in open(out):
                try:
                    r = json.loads(line)
                except ValueError:
                    continue
                if "begin" in r:
                    begun.add(r["begin"])
                elif "done" in r:
                    done = True
                elif "id" in r:
                    results[r["id"]] = r
        outs[plugin] = (rc, txt, results, begun, done)
    ths = [threading.Thread(target=one, args=(pl, g)) for pl, g in groups.items()]
    for t in ths:
        t.start()
    for t in ths:
        t.join()
    rc, txt, results, begun, done = 0, "", {}, set(), True
    for pl in groups:
        if pl not in outs:
            raise vlib.Infra("pipeline harness thread for %s died" % pl)
        r = outs[pl]
        rc = rc or r[0]
        txt += r[1] if r[0] != 0 or not r[4] else ""
        results.update(r[2])
        begun |= r[3]
        done = done and r[4]
    return rc, txt, results, begun, done


def pipeline_level(ctx, binary, scs, table):
    recs = []
    byid = {s["id"]: s for s in scs}
    rc, txt, results, begun, done = run_pipeline(ctx, binary, scs, "main")
    crashed = []
    if rc != 0 or not done:
        if "panic" not in txt and "fatal error" not in txt:
            raise vlib.Infra("C15 pipeline harness failed rc=%s without a panic:\n%s" % (rc, txt[-3000:]))
        # a processor goroutine panicked: find out in which scenario by running the unfinished ones alone
        todo = [s for s in scs if s["id"] not in results]
        for s in todo:
            rc1, txt1, res1, _, done1 = run_pipeline(ctx, binary, [s], "solo%d" % s["id"])
            if rc1 != 0 or not done1:
                if "panic" not in txt1 and "fatal error" not in txt1:
                    raise vlib.Infra("C15 pipeline harness failed rc=%s without a panic:\n%s" % (rc1, txt1[-3000:]))
                crashed.append(s["id"])
                head = [l for l in txt1.splitlines() if l.startswith("panic:") or "Error" in l[:40]][:3]
                recs.append({"level": "pipeline", "kind": "panic", "plugin": s.get("plugin", "join"), "chain": s["chain"],
                             "scenario": s["id"],
                             "break_before_join": s["chain"] == "break+join",
                             "action_before_join": {"discard+join": "discard", "break+join": "break"}.get(s["chain"], "none"),
                             "panic": " | ".join(head) or txt1[-600:], "scenario_def": s})
            else:
                results.update(res1)
    streams = 0
    stats = collections.Counter()
    timing = []
    for sc in scs:
        sc["d15_somewhere"] = False
        for st in sc["streams"]:
            pre = sc["pre"] if (set(st["seq"]) & {"D", "B", "XO", "XN", "S1d", "Od"}) else "none"
            c0 = table.get((pre, tuple(st["seq"]), sc["neg"], sc["M"], ()))
            if c0 is not None and "D15" in c0["dev"]:
                sc["d15_somewhere"] = True
    for sid, res in sorted(results.items()):
        sc = byid[sid]
        if res.get("stop_hung"):
            recs.append({"level": "pipeline", "kind": "stop_hung", "plugin": sc.get("plugin", "join"), "chain": sc["chain"],
                         "scenario": sid,
                         "break_before_join": sc["chain"] == "break+join", "scenario_def": sc})
        for st in sc["streams"]:
            streams += 1
            rs, stt = analyse_stream(sc, st, res, table)
            stats.update(stt)
            for r in rs:
                (timing if r.get("timing") else recs).append(r)
    # timing-dependent verdicts must reproduce 3/3
    if timing:
        again = {}
        for r in timing:
            again[r["scenario"]] = byid[r["scenario"]]
        fails = collections.Counter((r["scenario"], r["stream"]) for r in timing)
        for rep in (1, 2):
            _, _, res2, _, _ = run_pipeline(ctx, binary, list(again.values()), "rep%d" % rep)
            for sid, res in res2.items():
                for st in again[sid]["streams"]:
                    rs, _ = analyse_stream(again[sid], st, res, table)
                    for r in rs:
                        if r.get("timing"):
                            fails[(r["scenario"], r["stream"])] += 1
        for r in timing:
            if fails[(r["scenario"], r["stream"])] >= 3:
                recs.append(r)
            else:
                vlib.log("note: run_not_flushed_on_timeout in scenario %s stream %s did not reproduce 3/3 (timing), dropped"
                         % (r["scenario"], r["stream"]))
    return recs, len(results), streams, stats, crashed


# ----------------------------------------------------------------------------- plugin-level replays
def replay_plugin(ctx, binary, test, cases, tag):
    path = os.path.join(ctx.scratch, "c15_%s_cases.ndjson" % tag)
    out = os.path.join(ctx.scratch, "c15_%s_out.json" % tag)
    with open(path, "w") as f:
        for c in cases:
            f.write(json.dumps(c) + "\n")
    rc, txt = ctx.run_bin(binary, test, env={"VERIF_CASES": path, "VERIF_OUT": out}, timeout=4500)
    if rc != 0 or not os.path.exists(out):
        raise vlib.Infra("C15 %s harness failed rc=%s:\n%s" % (tag, rc, txt[-3000:]))
    r = json.load(open(out))
    if r["executed"] != len(cases):
        raise vlib.Infra("%s harness executed %d of %d cases" % (tag, r["executed"], len(cases)))
    return r


def make_pairs(ctx, cases, n):
    """Pairs of exported single-stream cases with the same action configuration + a seeded interleaving, for the replay on
    two plugin instances that share one config object."""
    rng = ctx.rng
    groups = collections.defaultdict(list)
    for c in cases:
        if c["pre"] == "none" and c["seq"]:
            groups[(c["nt"], tuple(c["neg"]), c["M"])].append(c)
    keys = sorted(groups)
    # runs and several templates are what a shared template index / buffer would mix up
    def interesting(c):
        return any(not isinstance(x, int) for x in c["exp"]) or c["held"]
    pairs = []
    for _ in range(n):
        g = groups[rng.choice(keys)]
        a, b = rng.choice(g), rng.choice(g)
        for _ in range(4):
            if interesting(a) and interesting(b) and (a["nt"] == 1 or set(a["seq"]) & {"S1"} and set(b["seq"]) & {"S2"}):
                break
            a, b = rng.choice(g), rng.choice(g)
        order = [0] * len(a["seq"]) + [1] * len(b["seq"])
        rng.shuffle(order)
        pairs.append({"a": a, "b": b, "order": order})
    return pairs


def replay_pairs(ctx, binary, test, pairs, tag):
    path = os.path.join(ctx.scratch, "c15_%s_pairs.ndjson" % tag)
    out = os.path.join(ctx.scratch, "c15_%s_pairs_out.json" % tag)
    with open(path, "w") as f:
        for c in pairs:
            f.write(json.dumps(c) + "\n")
    rc, txt = ctx.run_bin(binary, test, env={"VERIF_CASES": path, "VERIF_OUT": out}, timeout=2700)
    if rc != 0 or not os.path.exists(out):
        raise vlib.Infra("C15 %s harness failed rc=%s:\n%s" % (tag, rc, txt[-3000:]))
    r = json.load(open(out))
    if r["executed"] != len(pairs):
        raise vlib.Infra("%s harness executed %d of %d pairs" % (tag, r["executed"], len(pairs)))
    recs = []
    for m in r["mismatches"] or []:
        recs.append({"level": "plugin", "kind": m["kind"], "plugin": m["plugin"], "shared_config": True, "as_modelled": False,
                     "stream": m["stream"], "pair": m["pair"], "got": m["got"], "panic": m.get("panic", "")[:400]})
    if r["mismatch_count"] > len(recs):
        vlib.log("note: %d further mismatches of the %s replay not listed" % (r["mismatch_count"] - len(recs), tag))
    return r["executed"], recs


def run(ctx):
    quick = ctx.tier == "quick"
    # harness builds in the background while TLC runs
    ctx.overlay_json()
    bins, errs = {}, []

    def build():
        try:
            for pkg in ("plugin/action/join", "plugin/action/join_template", "plugin/input/k8s"):
                bins[pkg] = ctx.go_test_build(pkg)
        except Exception as e:      # noqa: BLE001 -- re-raised in the main thread
            errs.append(e)
    th = threading.Thread(target=build)
    th.start()

    # ---- 1. TLC
    # VERIF_C15_SWITCHES="D12_EmptyLogPanics=FALSE,..." overrides deviation switches of the faithful configs (used to
    # validate a candidate fix before the switch is flipped in the .cfg by the fix commit)
    sw = dict(x.split("=") for x in os.environ.get("VERIF_C15_SWITCHES", "").split(",") if "=" in x)
    jsw = {k: v for k, v in sw.items() if k in ("D5_TimeoutToLastAction", "D15_BreakBypassesHold")} or None
    ksw = {k: v for k, v in sw.items() if k.startswith(("D12_", "D16_", "D17_", "D20_"))} or None
    rj = ctx.tlc_expect_ok("Join", "Join_quick.cfg" if quick else "Join_thorough.cfg", timeout=4500, deadlock=False,
                           overrides=jsw)
    # (quick tier: the ideal configurations run one length bound lower to stay within the budget)
    ctx.tlc_expect_ok("Join", "Join_ideal.cfg", timeout=1800, deadlock=False, name="Join/ideal (deviations off)",
                      overrides={"MaxLen1": "4", "MaxLenPre": "3"} if quick else None)
    # spec mutant: the selector of a busy action is evaluated -> TLC must reject it (its counterexamples are the directed
    # selector scenarios of the pipeline-level runs)
    for cfgname, mech in (("Join_mutsel.cfg", "M_BusyIgnoresSelector"), ("Join_mutprop.cfg", "M_PropagateResetsBusyFirst"),
                          ("Join_mutalias.cfg", "M_FlushCopiesBuffer"), ("Join_mutind.cfg", "M_StartCheckIsTheTemplates")):
        rm = ctx.tlc("Join", cfgname, timeout=900, deadlock=False, name="Join/mutant %s off" % mech)
        if rm.violated != "StatementOK":
            raise vlib.Infra("spec mutant %s=FALSE was not rejected by StatementOK: %s" % (mech, rm.violated))
    # the action's state is per plugin instance (= per processor): product of two single-stream machines, and the mutant
    # "current template index shared by the instances" must be rejected
    ctx.tlc_expect_ok("JoinInstances", "JoinInstances_quick.cfg" if quick else "JoinInstances_thorough.cfg", timeout=2700,
                      deadlock=False)
    rmi = ctx.tlc("JoinInstances", "JoinInstances_mut.cfg", timeout=900, deadlock=False,
                  name="JoinInstances/mutant M_TemplateStatePerInstance off")
    if rmi.violated != "StreamsIndependent":
        raise vlib.Infra("spec mutant M_TemplateStatePerInstance=FALSE was not rejected: %s" % rmi.violated)
    rk = ctx.tlc_expect_ok("K8sMultiline", "K8sMultiline_quick.cfg" if quick else "K8sMultiline_thorough.cfg",
                           timeout=4500, deadlock=False, overrides=ksw)
    ctx.tlc_expect_ok("K8sMultiline", "K8sMultiline_ideal.cfg", timeout=1800, deadlock=False,
                      name="K8sMultiline/ideal (deviations off)", overrides={"MaxLen": "3"} if quick else None)
    # repaired defects kept as spec mutants: the old behaviour must be rejected by TLC (a real-code regression is
    # caught by the replay, where the specification no longer excuses it)
    for cfgname, inv, what in (("K8sMultiline_mutD12.cfg", "NoPanic", "D12 empty log panics (before 850331b)"),
                               ("K8sMultiline_mutD17.cfg", "ResidualOK", "D17 skip flag survives time-out (before e8faead)")):
        rmk = ctx.tlc("K8sMultiline", cfgname, timeout=900, deadlock=False, name="K8sMultiline/mutant " + what)
        if rmk.violated != inv:
            raise vlib.Infra("spec mutant %s was not rejected by %s: %s" % (cfgname, inv, rmk.violated))
    jcases = [c for c in rj.printed if "seq" in c and "pre" in c]
    kcases = [c for c in rk.printed if "seq" in c and "SP" in c]
    if len(jcases) < 10000 or len(kcases) < 5000:
        raise vlib.Infra("TLC exported only %d / %d cases" % (len(jcases), len(kcases)))
    th.join()
    if errs:
        raise errs[0]

    recs = []
    if ctx.replay:
        return replay(ctx, bins, jcases)

    # ---- 2. plugin-level replay (all exported cases, both tiers)
    j1 = [c for c in jcases if c["nt"] == 1 and c["pre"] == "none"]
    jt = [c for c in jcases if c["pre"] == "none" or
          (c["pre"] == "ind" and not any(c["neg"][t] and ("S%di" % (t + 1)) in c["seq"] for t in range(c["nt"])))]
    r1 = replay_plugin(ctx, bins["plugin/action/join"], "^TestVerifC15Join$", j1, "join")
    r2 = replay_plugin(ctx, bins["plugin/action/join_template"], "^TestVerifC15JoinTemplate$", jt, "jt")
    r3 = replay_plugin(ctx, bins["plugin/input/k8s"], "^TestVerifC15K8s$", kcases, "k8s")
    for r in (r1, r2):
        for m in r["mismatches"] or []:
            recs.append({"level": "plugin", "kind": m["kind"], "plugin": m["plugin"], "as_modelled": m["as_modelled"],
                         "case": m["case"], "limit": m["limit"], "got": m["got"], "panic": m.get("panic", "")})
        if r["mismatch_count"] > len(r["mismatches"] or []):
            vlib.log("note: %d further mismatches of the same replay not listed" % (r["mismatch_count"] - len(r["mismatches"])))
    for m in r3["mismatches"] or []:
        recs.append({"level": "plugin", "kind": m["kind"], "plugin": m["plugin"], "as_modelled": m["as_modelled"],
                     "empty_log": m["empty_log"], "panic_class": m.get("panic_class", ""),
                     "timeout_while_skipping": m["timeout_while_skipping"],
                     "backslash_n_partial": m.get("backslash_n_partial", False), "case": m["case"], "got": m["got"],
                     "panic": m.get("panic", "")[:400]})
    ctx.extra["k8s_mismatch_classes"] = r3["mismatch_counts"]
    # two instances from ONE shared config object (as the pipeline starts its processors), two interleaved streams
    npairs = 30000 if quick else 300000
    n4, recs4 = replay_pairs(ctx, bins["plugin/action/join"], "^TestVerifC15JoinShared$",
                             make_pairs(ctx, j1, npairs // 3), "join_shared")
    n5, recs5 = replay_pairs(ctx, bins["plugin/action/join_template"], "^TestVerifC15JoinTemplateShared$",
                             make_pairs(ctx, jt, npairs), "jt_shared")
    recs += recs4 + recs5
    ctx.extra["shared_config_pairs"] = {"join": n4, "join_template": n5}

    # ---- 3. pipeline-level runs
    table = {case_key(c): c for c in jcases if c["nt"] == 1}
    groups = collections.defaultdict(list)
    for c in jcases:
        if c["nt"] == 1 and len(c["seq"]) >= 2:
            groups[(c["pre"], bool(c["neg"][0]), c["M"])].append(c)
    nsc = 70 if quick else 700
    scs = directed_scenarios(0) + make_scenarios(ctx, groups, nsc, first_id=100)
    precs, nruns, nstreams, pstats, crashed = pipeline_level(ctx, bins, scs, table)
    recs += precs

    ctx.classify(recs)

    # ---- evidence
    ctx.evaluations = r1["executed"] + r2["executed"] + r3["executed"] + nstreams + n4 + n5
    ctx.traces_validated = ctx.evaluations
    ctx.nontrivial = r1["nontrivial"] + r2["nontrivial"] + r3["nontrivial"] + pstats["joined"]
    ctx.exhaustive = True
    ctx.rule = ("case = (class sequence over {start, continue, other, no-field, non-string [, second template's start/continue]"
                " [, discarded / broken by the action before the join]}, negate flags, max_event_size, time-out placement), "
                "resp. (fragment sequence over {empty, 1-char, long, ..backslash, ..backslash+n, ..quote} x {partial, final}, max_event_size, cut-off, split size, "
                "time-out placement), enumerated exhaustively by TLC (%d join cases, %d k8s cases), ALL replayed on the real "
                "plugins (join %d, join_template %d, k8s %d); plus %d timed runs of the real pipeline (%d streams, %d time-out "
                "deliveries observed). Non-trivial = the expectation contains a joined run of >= 2 events/chunks (counted by the "
                "harness)." % (len(jcases), len(kcases), r1["executed"], r2["executed"], r3["executed"], nruns, nstreams,
                               pstats["to_observed"]))
    ctx.extra.update({"join_cases": len(jcases), "k8s_cases": len(kcases), "pipeline_runs": nruns, "pipeline_streams": nstreams,
                      "pipeline_timeouts_observed": pstats["to_observed"], "pipeline_crashed_scenarios": crashed,
                      "join_with_timeouts": r1["with_timeouts"], "join_over_limit": r1["over_limit"]})
    for c in (j1[7], jt[-3], kcases[11]):
        ctx.sample(c)
    ctx.assumptions += [
        "all values of one case have the same length; max_event_size is explored at multiples of it (and one byte below)",
        "a non-string field value may or may not count as a continuation (both readings of the statement are accepted)",
        "k8s: max_event_size >= 4; split_event_size and max_event_size are not combined; event.Size is set by the harness",
        "above max_event_size the oracle only demands a prefix that keeps everything below the limit (k8s without cut-off: the "
        "oversize line may be dropped)",
        "pipeline-level: the action chain has at most one action besides the join; output plugin is synchronous (devnull)",
    ]
    # stream-level windows under a join-like action (shared core harness, lib/core.py): a continuation line put while the heartbeat's
    # time-out injection runs on the same stream -- also on a stream that has seen time-outs before -- must come out (StreamProto.tla)
    import core
    ctx._core_bin = ctx.go_test_build("pipeline")
    core.execute_and_validate(ctx, "C15", core.window_scenarios(ctx, 8 if quick else 32, 9000), par=1)
    core.execute_and_validate(ctx, "C15", core.detach_scenarios(ctx, 8 if quick else 24, 9200), par=8)


def replay(ctx, bins, jcases):
    """--replay: re-execute the cases / scenarios of a saved violation file."""
    recs_in = json.load(open(ctx.replay))
    table = {case_key(c): c for c in jcases if c["nt"] == 1}
    recs = []
    by = collections.defaultdict(list)
    scs = {}
    for r in recs_in:
        if r.get("level") == "pipeline" and "scenario_def" in r:
            scs[r["scenario_def"]["id"]] = r["scenario_def"]
        elif "case" in r:
            by[r["plugin"]].append(r["case"])
    for plugin, (pkg, test) in {"join": ("plugin/action/join", "^TestVerifC15Join$"),
                                "join_template": ("plugin/action/join_template", "^TestVerifC15JoinTemplate$"),
                                "k8s_multiline": ("plugin/input/k8s", "^TestVerifC15K8s$")}.items():
        if by[plugin]:
            r = replay_plugin(ctx, bins[pkg], test, by[plugin], "replay_" + plugin)
            for m in r["mismatches"] or []:
                rec = {"level": "plugin"}
                rec.update({k: v for k, v in m.items() if k != "panic"})
                rec["panic"] = m.get("panic", "")[:400]
                recs.append(rec)
            ctx.evaluations += r["executed"]
    if scs:
        precs, nruns, nstreams, _, _ = pipeline_level(ctx, bins, list(scs.values()), table)
        recs += precs
        ctx.evaluations += nstreams
    ctx.traces_validated = ctx.evaluations
    ctx.rule = "replay of %s" % ctx.replay
    ctx.classify(recs)
