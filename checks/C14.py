"""C14 -- action selection follows the documented boolean semantics (match_fields and do_if).

1. TLC checks specs/DoIf.tla and specs/MatchFields.tla exhaustively in small scope: a declarative,
   three-valued (T / F / U = "the documentation does not decide") evaluator of the documented meaning
   next to a transcription of the code's evaluation with its short-cuts; invariants: the transcription
   agrees with the documented meaning wherever that is decided, outside the named deviation classes
   (D_FoldWidth, D_ContainerNul, D_EmptyContainerLen; the former D_AndRegexp = D11 is repaired and survives
   only as a spec mutant that TLC must reject); and/or commute, value and condition
   order are irrelevant, match_invert is the negation.  Every rule is exported with the expected value
   for every event of its part.
2. Every exported rule is rendered to the configuration JSON a user would write and built through the
   REAL constructor path (simplejson -> fd.extractDoIfChecker / doif.NewFromMap;
   fd.extractMatchMode / extractMatchInvert / extractConditions), then evaluated on every event by the
   real doif.Checker.Check (fd harness, two event orders), by the real processor.doActions ("Do invoked")
   and by processor.isMatch in a permuted order (pipeline harness), and end to end: the rules are
   configured as `actions` through the public fd.SetupActions on a real running pipeline with a
   recording action ("Do invoked <=> expected").  The README result tables are replayed the same way
   as literal vectors.
   Busy-action family (every rule): the chain is [recording action with the rule, a harness-owned holding
   action that behaves like join (ActionHold / ActionCollapse / Propagate)]; a run is opened so that the
   processor has a busy action, then all events (and, in-package, a time-out event, which is not judged) go
   through processor.doActions, in-package and on the running pipeline configured by fd.SetupActions:
   "Do invoked" of the recording action must still be the expectation for (rule, event) alone.  The guard
   is specified in specs/ActionChain.tla (mechanism M_SelectorIndependentOfOtherActions; the mutant with
   busyActionsTotal must be rejected by TLC).
   Event kinds (every rule): every event is also judged as a CHILD event -- in-package through the real
   processor.Spawn (SetChildKind, chain entered after the spawning action), end to end through the chain
   [real split action, recording action with the rule] on one parent event {"zz":[events...]} -- time-out is
   the only kind exempt from the selector (ActionChain.tla: M_OnlyTimeoutExempt, mutant rejected by TLC).
   Multi-byte characters (DoIf part U): contains_any (meaning per CHARACTER) and the substring operators over
   characters that share a UTF-8 lead byte (e-acute/e-grave, EURO/RUBLE/TRADE MARK, Cyrillic), only a
   continuation byte (e-acute/COPYRIGHT) and 4-byte characters; mutant "256-entry byte table" rejected by TLC.
   Escaped strings (DoIf part E): string values containing newline, quote, backslash, and U+00E9 / U+1F600 written
   as \\uXXXX escapes are decoded from their JSON text before every evaluation series (own processor / pipeline per
   rule), so the node reaches the checker in its escaped form: byte_len_cmp measures the value, the field ops see
   the value, and every binary and/or over a length leaf and a field leaf on the same field is evaluated in both
   operand orders (field ops unescape the node in place); mutant "escaped length" rejected by TLC.
   ts_cmp against `value: now` (DoIf part N): value_shift of -1h / 0 / +1h, update_interval 10s / 1m, event
   times rendered relative to the moment of the replay at +-30 / 90 / 150 minutes; the documented threshold is
   now + value_shift + [0, update_interval], events within 20 minutes of it are not judged and all events in
   scope are >= 30 minutes away; the driver fails with an infrastructure error if the replay takes more than 8
   minutes after rendering (mechanism M_ShiftOnce, mutant "shift applied twice" rejected by TLC).
3. Concurrency family: for a seeded selection of rules (mostly case-insensitive string operators, plus
   trees, other leaves, match_fields rules and the README vectors) ONE checker / ActionPluginStaticInfo
   per rule is shared, as in Pipeline.newProc, by several real processors driven by concurrent
   goroutines on their own copies of the events (processor.doActions chains, then all goroutines on
   processor.isMatch of the same rule for a time slice), and by a real parallel pipeline
   (GOMAXPROCS*2 processors, every event sent many times from different sources).  Every concurrent
   decision must equal the sequential one.  Cannot fail on correct code; detection of a shared-state
   bug depends on the schedule (probabilistic; bounded time).
4. Verdict: real decision != documented value where that is decided (T/F), or decisions that differ
   between orders/paths.  Known defects are matched by narrow signatures (known_findings.d/C14.json).
"""
import json
import os
import time

import vlib

LEVEL = "model_checking"

CH = {1: "a", 2: "A", 3: "\u0130", 4: "i", 5: "b",
      # multi-byte characters of part U (the same table as CharBytes in specs/DoIf.tla)
      40: "\u00e9", 41: "\u00e8", 42: "\u20ac", 43: "\u20bd", 44: "\u2122", 45: "\u0451", 46: "\u044a", 47: "\u043f",
      48: "\u00a9", 49: "\U0001f600", 50: "\U0001f601",
      # always written as JSON escapes
      60: "\n", 61: '"', 62: "\\"}
MODES = {"and": 0, "or": 1, "and_prefix": 2, "or_prefix": 3}


def s_of(codes):
    return "".join(CH[c] if c in CH else str(c - 10) for c in codes)


def sel_of(path):
    return ".".join(k.replace(".", "\\.") for k in path)


def rfc3339(sec):
    return time.strftime("%Y-%m-%dT%H:%M:%SZ", time.gmtime(sec))


def val_of(v):
    """abstract JSON value -> python value (None = absent handled by the caller)."""
    k = v["k"]
    if k == "null":
        return None
    if k == "num":
        return v["n"]
    if k == "str":
        return s_of(v["s"])
    if k == "nowstr":               # unixtime of (the moment the events are rendered + off minutes)
        return str(int(T_RENDER[0] + 60 * v["off"]))
    if k == "arr":
        return [val_of(x) for x in v["xs"]]
    if k == "obj":
        return {f["name"]: val_of(f["v"]) for f in v["fs"]}
    raise vlib.Infra("bad abstract value %r" % (v,))


T_RENDER = [0.0]       # set when the cases are built; the `now` band of the spec assumes the replay ends within 8 minutes
MAX_NOW_DRIFT_S = 8 * 60


def enc(o):
    return json.dumps(o, separators=(",", ":"), ensure_ascii=False)


def jtext(v):
    """abstract JSON value -> compact JSON text; an `esc` string is written with \\uXXXX escapes (surrogate pairs),
    so that the decoder's node starts in its escaped form."""
    k = v["k"]
    if k == "obj":
        return "{" + ",".join(json.dumps(f["name"]) + ":" + jtext(f["v"]) for f in v["fs"]) + "}"
    if k == "arr":
        return "[" + ",".join(jtext(x) for x in v["xs"]) + "]"
    if k == "str":
        return json.dumps(s_of(v["s"]), ensure_ascii=bool(v.get("esc")))
    return enc(val_of(v))


FRESH_PARTS = ("D:E",)      # events decoded again from their text before every evaluation series


def lookup(v, path):
    for key in path:
        if v["k"] != "obj":
            return {"k": "abs"}
        nxt = [f["v"] for f in v["fs"] if f["name"] == key]
        if not nxt:
            return {"k": "abs"}
        v = nxt[0]
    return v


def doif_cfg(r):
    op = r["op"]
    if op in ("and", "or", "not"):
        return {"op": op, "operands": [doif_cfg(a) for a in r["args"]]}
    o = {"op": op, "field": sel_of(r["path"])}
    if op in ("equal", "contains", "prefix", "suffix", "contains_any"):
        o["values"] = [None if v == [-1] else s_of(v) for v in r["vals"]]
        if r["cs"] != 2:
            o["case_sensitive"] = bool(r["cs"])
    elif op == "regex":
        o["values"] = list(r["res"])
        if r["cs"] != 2:
            o["case_sensitive"] = bool(r["cs"])
    elif op in ("byte_len_cmp", "array_len_cmp", "int_val_cmp"):
        o["cmp_op"] = r["cmp"]
        o["value"] = r["value"]
    elif op == "ts_cmp":
        o["cmp_op"] = r["cmp"]
        o["format"] = "unixtime"
        o["value"] = "now" if r["now"] else rfc3339(r["value"])
        if r["shift"] != 0:
            o["value_shift"] = ("%ds" % r["shift"]) if r["unit"] == "s" else ("%dh" % (r["shift"] // 60))
        if r["upd"] == 1:
            o["update_interval"] = "1h"
        elif r["upd"] == 2:
            o["update_interval"] = "1m"
    elif op == "check_type":
        o["values"] = list(r["types"])
    else:
        raise vlib.Infra("unknown op %r" % op)
    return o


def mf_cfg(r):
    mf = {}
    for c in r["conds"]:
        if c["form"] == "re":
            pat = "/" + c["re"] + "/"
        elif c["form"] == "str":
            pat = s_of(c["vals"][0])
        else:
            pat = [s_of(v) for v in c["vals"]]
        mf[sel_of(c["path"])] = pat
    o = {"type": "verif_c14", "match_fields": mf, "match_mode": r["mode"]}
    if r["invert"]:
        o["match_invert"] = True
    return o


# ---------------------------------------------------------------- README tables as literal vectors
DOC_VECTORS = [
    # pipeline/doif/README.md
    ("doif", {"op": "equal", "field": "pod", "values": ["test-pod-1", "test-pod-2"]},
     [('{"pod":"test-pod-1","service":"test-service"}', "T"), ('{"pod":"test-pod-2","service":"test-service-2"}', "T"),
      ('{"pod":"test-pod","service":"test-service"}', "F"), ('{"pod":"test-pod","service":"test-service-1"}', "F")]),
    ("doif", {"op": "contains", "field": "pod", "values": ["my-pod", "my-test"]},
     [('{"pod":"test-my-pod-1","service":"test-service"}', "T"), ('{"pod":"test-not-my-pod","service":"test-service-2"}', "T"),
      ('{"pod":"my-test-pod","service":"test-service"}', "T"), ('{"pod":"test-pod","service":"test-service-1"}', "F")]),
    ("doif", {"op": "contains_any", "field": "service", "values": ["!$#"]},
     [('{"pod":"test-pod","service":"test-service!"}', "T"), ('{"pod":"test-pod","service":"#my_service#"}', "T"),
      ('{"pod":"test-pod","service":"$$$"}', "T"), ('{"pod":"test-pod","service":"test-service-1"}', "F")]),
    ("doif", {"op": "prefix", "field": "pod", "values": ["test-1", "test-2"]},
     [('{"pod":"test-1-pod-1","service":"test-service"}', "T"), ('{"pod":"test-2-pod-2","service":"test-service-2"}', "T"),
      ('{"pod":"test-pod","service":"test-service"}', "F"), ('{"pod":"test-pod","service":"test-service-1"}', "F")]),
    ("doif", {"op": "suffix", "field": "pod", "values": ["pod-1", "pod-2"], "case_sensitive": True},
     [('{"pod":"test-1-pod-1","service":"test-service"}', "T"), ('{"pod":"test-2-pod-2","service":"test-service-2"}', "T"),
      ('{"pod":"test-pod","service":"test-service"}', "F"), ('{"pod":"test-pod","service":"test-service-1"}', "F")]),
    ("doif", {"op": "regex", "field": "pod", "values": ["pod-\\d", "my-test.*"]},
     [('{"pod":"test-1-pod-1","service":"test-service"}', "T"), ('{"pod":"test-2-pod-2","service":"test-service-2"}', "T"),
      ('{"pod":"test-pod","service":"test-service"}', "F"), ('{"pod":"my-test-pod","service":"test-service-1"}', "T"),
      ('{"pod":"my-test-instance","service":"test-service-1"}', "T"), ('{"pod":"service123","service":"test-service-1"}', "F")]),
    ("doif", {"op": "or", "operands": [{"op": "equal", "field": "pod", "values": ["test-pod-1", "test-pod-2"]},
                                       {"op": "equal", "field": "service", "values": ["test-service"]}]},
     [('{"pod":"test-pod-1","service":"test-service"}', "T"), ('{"pod":"test-pod-2","service":"test-service-2"}', "T"),
      ('{"pod":"test-pod","service":"test-service"}', "T"), ('{"pod":"test-pod","service":"test-service-1"}', "F")]),
    ("doif", {"op": "and", "operands": [{"op": "equal", "field": "pod", "values": ["test-pod-1", "test-pod-2"], "case_sensitive": True},
                                        {"op": "equal", "field": "service", "values": ["test-service"], "case_sensitive": True}]},
     [('{"pod":"test-pod-1","service":"test-service"}', "T"), ('{"pod":"test-pod-2","service":"test-service-2"}', "F"),
      ('{"pod":"test-pod","service":"test-service"}', "F"), ('{"pod":"test-pod","service":"test-service-1"}', "F")]),
    ("doif", {"op": "not", "operands": [{"op": "equal", "field": "service", "values": ["test-service"]}]},
     [('{"pod":"test-pod-1","service":"test-service"}', "F"), ('{"pod":"test-pod-2","service":"test-service-2"}', "T"),
      ('{"pod":"test-pod","service":"test-service"}', "F"), ('{"pod":"test-pod","service":"test-service-1"}', "T")]),
    ("doif", {"op": "byte_len_cmp", "field": "pod_id", "cmp_op": "lt", "value": 5},
     [('{"pod_id":""}', "T"), ('{"pod_id":123}', "T"), ('{"pod_id":12345}', "F"), ('{"pod_id":123456}', "F")]),
    ("doif", {"op": "array_len_cmp", "field": "items", "cmp_op": "lt", "value": 2},
     [('{"items":[]}', "T"), ('{"items":[1]}', "T"), ('{"items":[1, 2]}', "F"), ('{"items":[1, 2, 3]}', "F"),
      ('{"items":"1"}', "F"), ('{"numbers":[1]}', "F")]),
    ("doif", {"op": "ts_cmp", "field": "timestamp", "cmp_op": "lt", "value": "2010-01-01T00:00:00Z",
              "format": "2006-01-02T15:04:05.999999999Z07:00"},
     [('{"timestamp":"2000-01-01T00:00:00Z"}', "T"), ('{"timestamp":"2008-01-01T00:00:00Z","id":1}', "T"),
      ('{"pod_id":"some"}', "F"), ('{"timestamp":123}', "F"), ('{"timestamp":"qwe"}', "F"),
      ('{"timestamp":"2011-01-01T00:00:00Z"}', "F")]),
    ("doif", {"op": "not", "operands": [{"op": "check_type", "field": "log", "values": ["obj", "arr"]}]},
     [('{"log":{"message":"test"}}', "F"), ('{"log":[{"message":"test"}]}', "F"), ('{"log":"test"}', "T"),
      ('{"log":123}', "T"), ('{"log":null}', "T"), ('{"not_log":{"test":"test"}}', "T")]),
    # pipeline/plugin.go match-modes (= pipeline/README.md, docs/configuring.md)
    ("mf", {"match_fields": {"k8s_namespace": ["payment", "tarifficator"], "k8s_pod": "/^payment-api.*/"}, "match_mode": "and"},
     [('{"k8s_namespace": "payment", "k8s_pod":"payment-api-abcd"}', "T"), ('{"k8s_namespace": "tarifficator", "k8s_pod":"payment-api"}', "T"),
      ('{"k8s_namespace": "payment-tarifficator", "k8s_pod":"payment-api"}', "F"), ('{"k8s_namespace": "tarifficator", "k8s_pod":"no-payment-api"}', "F")]),
    ("mf", {"match_fields": {"k8s_namespace": ["payment", "tarifficator"], "k8s_pod": "/^payment-api.*/"}, "match_mode": "or"},
     [('{"k8s_namespace": "payment", "k8s_pod":"payment-api-abcd"}', "T"), ('{"k8s_namespace": "tarifficator", "k8s_pod":"payment-api"}', "T"),
      ('{"k8s_namespace": "map", "k8s_pod":"payment-api"}', "T"), ('{"k8s_namespace": "payment", "k8s_pod":"map-api"}', "T"),
      ('{"k8s_namespace": "tarifficator", "k8s_pod":"tarifficator-go-api"}', "T"), ('{"k8s_namespace": "sre", "k8s_pod":"cpu-quotas-abcd-1234"}', "F")]),
    ("mf", {"match_fields": {"k8s_namespace": "payment", "k8s_pod": "payment-api-"}, "match_mode": "and_prefix"},
     [('{"k8s_namespace": "payment", "k8s_pod":"payment-api-abcd-1234"}', "T"), ('{"k8s_namespace": "payment-2", "k8s_pod":"payment-api-abcd-1234"}', "T"),
      ('{"k8s_namespace": "payment", "k8s_pod":"checkout"}', "F"), ('{"k8s_namespace": "map", "k8s_pod":"payment-api-abcd-1234"}', "F"),
      ('{"k8s_namespace": "payment-abcd", "k8s_pod":"payment-api"}', "F")]),
    ("mf", {"match_fields": {"k8s_namespace": ["payment", "tarifficator"], "k8s_pod": "/-api-.*/"}, "match_mode": "or_prefix"},
     [('{"k8s_namespace": "payment", "k8s_pod":"payment-api-abcd-1234"}', "T"), ('{"k8s_namespace": "payment", "k8s_pod":"checkout"}', "T"),
      ('{"k8s_namespace": "map", "k8s_pod":"map-go-api-abcd-1234"}', "T"), ('{"k8s_namespace": "map", "k8s_pod":"payment-api"}', "F"),
      ('{"k8s_namespace": "map", "k8s_pod":"payment-api-abcd-1234"}', "T"), ('{"k8s_namespace": "tariff", "k8s_pod":"tarifficator"}', "F")]),
    # docs/configuring.md: a plain list, no match_mode; a prefix; three fields with and_prefix
    ("mf", {"match_fields": {"k8s_pod": ["seq-proxy-z501-75d49d84f9-j5jtd", "seq-proxy-z502-76b68778b6-g7d9l"]}},
     [('{"k8s_pod":"seq-proxy-z501-75d49d84f9-j5jtd"}', "T"), ('{"k8s_pod":"seq-proxy-z502-76b68778b6-g7d9l"}', "T"),
      ('{"k8s_pod":"seq-proxy-z503-66bcdf4878-656gc"}', "F"), ('{"k8s_namespace":"seq"}', "F")]),
    ("mf", {"match_fields": {"k8s_pod": ["seq-proxy-z501"]}, "match_mode": "or_prefix"},
     [('{"k8s_pod":"seq-proxy-z501-75d49d84f9-j5jtd"}', "T"), ('{"k8s_pod":"seq-proxy-z502-76b68778b6-g7d9l"}', "F")]),
    ("mf", {"match_fields": {"k8s_pod": ["seq-proxy-z501"]}, "match_mode": "and_prefix"},
     [('{"k8s_pod":"seq-proxy-z501-75d49d84f9-j5jtd"}', "T"), ('{"k8s_pod":"seq-proxy-z502-76b68778b6-g7d9l"}', "F")]),
    ("mf", {"match_fields": {"k8s_namespace": ["map", "payment", "checkout"], "k8s_pod": ["coredns", "etcd_backup"], "level": "info"},
            "match_mode": "and_prefix"},
     [('{"k8s_namespace":"payment","k8s_pod":"coredns-1","level":"info"}', "T"), ('{"k8s_namespace":"sre","k8s_pod":"coredns-1","level":"info"}', "F"),
      ('{"k8s_namespace":"map","k8s_pod":"etcd_backup","level":"error"}', "F"), ('{"k8s_namespace":"checkout-2","k8s_pod":"etcd_backup-x","level":"information"}', "T")]),
]


class Rule:
    __slots__ = ("id", "kind", "set", "cfg", "part", "abs", "exp", "model", "dev", "leaf", "saved")

    def __init__(self):
        self.saved = None


def build_cases(ctx, doif_printed, mf_printed):
    T_RENDER[0] = time.time()
    sets = {}       # key -> list of event JSON texts
    abs_events = {}  # key -> abstract events (for record fields)
    rules = []

    def add_rule(kind, key, cfgobj, part, absr, exp, model, dev, leaf):
        r = Rule()
        r.id, r.kind, r.set, r.part, r.abs, r.exp, r.model, r.dev, r.leaf = len(rules), kind, key, part, absr, exp, model, dev, leaf
        if kind == "doif":
            # the action's match_mode x match_invert (with EMPTY match_fields) is a dimension of every do_if replay:
            # do_if decides alone.  Variant 0 = neither key; 1..8 = the four modes, not inverted / inverted.
            v = len(rules) % 9
            cfgobj = {"type": "verif_c14", "do_if": cfgobj}
            if v:
                cfgobj["match_mode"] = ("and", "or", "and_prefix", "or_prefix")[(v - 1) % 4]
                if v > 4:
                    cfgobj["match_invert"] = True
                if v % 2:
                    cfgobj["match_fields"] = {}
        r.cfg = enc(cfgobj)
        rules.append(r)

    for pfx, printed in (("D", doif_printed), ("M", mf_printed)):
        for o in printed:
            if "events" in o:
                key = pfx + ":" + o["part"]
                sets[key] = [jtext(e) for e in o["events"]]
                abs_events[key] = o["events"]
        # TLC's workers print in no particular order: fix one, so that a seed reproduces a run
        for o in sorted((o for o in printed if "events" not in o), key=lambda o: (o["part"], json.dumps(o["rule"], sort_keys=True))):
            key = pfx + ":" + o["part"]
            if key not in sets:
                raise vlib.Infra("TLC did not export the events of part %s" % key)
            n = len(sets[key])
            if len(o["exp"]) != n or len(o["model"]) != n:
                raise vlib.Infra("export vector length mismatch in part %s" % key)
            if pfx == "D":
                leaf = o["rule"]["op"] not in ("and", "or", "not")
                add_rule("doif", key, doif_cfg(o["rule"]), o["part"], o["rule"], o["exp"], o["model"], o["dev"], leaf)
            else:
                add_rule("mf", key, mf_cfg(o["rule"]), o["part"], o["rule"], o["exp"], o["model"], [o["dev"]] * n, True)
    for vi, (kind, cfgobj, evs) in enumerate(DOC_VECTORS):
        key = "V:%d" % vi
        sets[key] = [e for e, _ in evs]
        abs_events[key] = None
        exp = [x for _, x in evs]
        dev = ""                      # the README tables are demanded literally (D11 is repaired)
        if kind == "mf":
            cfgobj = dict(cfgobj, type="verif_c14")
        add_rule(kind, key, cfgobj, "doc", None, exp, ["?"] * len(exp), [dev] * len(exp), kind == "mf" or cfgobj["op"] not in ("and", "or", "not"))
    return sets, abs_events, rules


def load_ndjson(path):
    out = {}
    with open(path) as f:
        for line in f:
            if line.strip():
                o = json.loads(line)
                out[o["id"]] = o
    return out


def run_harness(ctx, sets, rules, tag=""):
    evp = os.path.join(ctx.scratch, "c14_events%s.json" % tag)
    rp = os.path.join(ctx.scratch, "c14_rules%s.ndjson" % tag)
    json.dump({"seed": ctx.seed, "events": sets, "fresh": [k for k in sets if k in FRESH_PARTS or k.startswith("X:")]}, open(evp, "w"), ensure_ascii=False)
    with open(rp, "w") as f:
        for r in rules:
            f.write(json.dumps({"id": r.id, "kind": r.kind, "set": r.set, "cfg": r.cfg}, ensure_ascii=False) + "\n")
    fd_bin = ctx.go_test_build("fd")
    pl_bin = ctx.go_test_build("pipeline")
    fd_out = os.path.join(ctx.scratch, "c14_fd_out%s.ndjson" % tag)
    pl_out = os.path.join(ctx.scratch, "c14_pl_out%s.ndjson" % tag)
    env = {"VERIF_C14_EVENTS": evp, "VERIF_C14_RULES": rp, "VERIF_OUT": fd_out}
    rc, txt = ctx.run_bin(fd_bin, "^TestVerifC14$", env=env, timeout=4500)
    if rc != 0 or not os.path.exists(fd_out):
        raise vlib.Infra("C14 fd harness failed rc=%s:\n%s" % (rc, txt[-3000:]))
    env = {"VERIF_C14_EVENTS": evp, "VERIF_C14_RULES": rp, "VERIF_C14_EXTRACT": fd_out, "VERIF_OUT": pl_out}
    rc, txt = ctx.run_bin(pl_bin, "^TestVerifC14$", env=env, timeout=4500)
    if rc != 0 or not os.path.exists(pl_out):
        raise vlib.Infra("C14 pipeline harness failed rc=%s:\n%s" % (rc, txt[-3000:]))
    # end to end: every rule through the public fd.SetupActions and a real running pipeline (cheap enough for all)
    sample = sorted(rules, key=lambda r: (r.set, r.id))
    ep = os.path.join(ctx.scratch, "c14_e2e_rules%s.ndjson" % tag)
    with open(ep, "w") as f:
        for r in sample:
            f.write(json.dumps({"id": r.id, "kind": r.kind, "set": r.set, "cfg": r.cfg}, ensure_ascii=False) + "\n")
    e2e_out = os.path.join(ctx.scratch, "c14_e2e_out%s.ndjson" % tag)
    env = {"VERIF_C14_EVENTS": evp, "VERIF_C14_E2E_RULES": ep, "VERIF_OUT": e2e_out}
    rc, txt = ctx.run_bin(fd_bin, "^TestVerifC14E2E$", env=env, timeout=4500)
    if rc != 0 or not os.path.exists(e2e_out):
        raise vlib.Infra("C14 end-to-end harness failed rc=%s:\n%s" % (rc, txt[-3000:]))
    ctx._c14 = {"events": evp, "fd_bin": fd_bin, "pl_bin": pl_bin, "extract": fd_out}
    return load_ndjson(fd_out), load_ndjson(pl_out), load_ndjson(e2e_out)


def leaf_info(r, absev):
    """record fields that pin the input class of a leaf rule on an event."""
    info = {}
    if r.saved:
        return dict(r.saved)
    if r.kind == "doif" and r.abs is not None and r.leaf:
        info["op"] = r.abs["op"]
        if "cs" in r.abs:
            info["case_sensitive"] = r.abs["cs"] != 0
        if absev is not None:
            info["field_kind"] = lookup(absev, r.abs["path"])["k"]
    elif r.kind == "mf" and r.abs is not None:
        info["mode"] = r.abs["mode"]
        info["invert"] = r.abs["invert"]
        info["has_regexp"] = any(c["form"] == "re" for c in r.abs["conds"])
    elif r.kind == "mf":
        c = json.loads(r.cfg)
        info["mode"] = c.get("match_mode", "and")
        info["invert"] = bool(c.get("match_invert", False))
        info["has_regexp"] = any(isinstance(p, str) and p.startswith("/") for p in c["match_fields"].values())
    return info


def compare(ctx, sets, abs_events, rules, fd, pl, e2e):
    recs = []
    decided = 0
    pairs = 0
    execs = 0
    drift = 0
    drift_samples = []
    n_e2e = 0
    per_part = {}
    ctx._c14_seq = seq = {}       # rule id -> per event: the one sequential decision (None: none / disputed)
    for r in rules:
        evs = sets[r.set]
        n = len(evs)
        f, p = fd.get(r.id), pl.get(r.id)
        if f is None or p is None:
            raise vlib.Infra("harness returned no result for rule %d" % r.id)
        e = e2e.get(r.id)
        errs = [x.get("err", "") for x in (f, p, e) if x and x.get("err")]
        if errs:
            if any(e.startswith("harness:") for e in errs):
                raise vlib.Infra("harness error for rule %s: %s" % (r.cfg, errs))
            kind = "panic" if any("panic" in e for e in errs) else "ctor_error"
            recs.append({"kind": kind, "rule_kind": r.kind, "cfg": r.cfg, "part": r.part, "error": errs[0][:300]})
            continue
        vecs = [("pipeline.doActions", p["r1"]), ("pipeline.isMatch/permuted", p["r2"]),
                ("pipeline.doActions/while another action is busy", p["r3"]),
                ("pipeline.Spawn/child event", p["r4"])]
        if r.kind == "doif":
            vecs += [("fd.Check", f["r1"]), ("fd.Check/permuted", f["r2"])]
        if e is not None:
            vecs.append(("fd.SetupActions+running pipeline/Do invoked", e["r1"]))
            vecs.append(("fd.SetupActions+running pipeline/Do invoked while a later action holds a run", e["rb"]))
            vecs.append(("fd.SetupActions+running pipeline/child event spawned by the real split action", e["rs"]))
            n_e2e += 1
        for name, v in vecs:
            if len(v) != n:
                raise vlib.Infra("result vector %s of rule %d has length %d, want %d" % (name, r.id, len(v), n))
        pp = per_part.setdefault((r.kind, r.part), [0, 0])
        seq[r.id] = sq = [None] * n
        for i in range(n):
            got = {v[i] for _, v in vecs}
            if len(got) == 1:
                sq[i] = next(iter(got)) == "1"
            pairs += 1
            execs += len(vecs)
            pp[0] += 1
            absev = abs_events[r.set][i] if abs_events.get(r.set) else None
            want = r.exp[i]
            model = r.model[i]
            if want != "U":
                decided += 1
                pp[1] += 1
            agree = len(got) == 1
            if not agree and want == "U":
                # undecided by the documentation, but still a function of (rule, event) only
                recs.append(dict(leaf_info(r, absev), kind="decision_not_a_function_of_rule_and_event", rule_kind=r.kind,
                                 cfg=r.cfg, event=evs[i], part=r.part, results={nm: v[i] for nm, v in vecs}))
                continue
            wrong = [nm for nm, v in vecs if want != "U" and (v[i] == "1") != (want == "T")]
            g = (want != "T") if wrong else (got.pop() == "1")
            if wrong:
                rec = dict(leaf_info(r, absev), kind="doif_mismatch" if r.kind == "doif" else "match_fields_mismatch",
                           rule_kind=r.kind, cfg=r.cfg, event=evs[i], part=r.part, want=want, got=g, leaf=r.leaf,
                           dev_class=r.dev[i], as_modelled=(model in ("T", "F") and g == (model == "T")),
                           all_sources_agree=agree, wrong_sources=wrong)
                if r.kind == "mf":
                    inv = rec.get("invert", False)
                    rec["want_raw"] = want if not inv else ("F" if want == "T" else "T")
                    rec["got_raw"] = g != inv
                recs.append(rec)
            elif model in ("T", "F") and g != (model == "T"):
                drift += 1
                if len(drift_samples) < 5:
                    drift_samples.append({"cfg": r.cfg, "event": evs[i], "model": model, "got": g, "documented": want})
    ctx.evaluations = pairs
    ctx.nontrivial = decided
    ctx.traces_validated = execs
    ctx.drift = drift
    ctx.extra["rules_also_run_end_to_end"] = n_e2e
    ctx.extra["pairs_per_part"] = {"%s/%s" % k: {"pairs": v[0], "decided": v[1]} for k, v in sorted(per_part.items())}
    if drift:
        vlib.log("MODEL-DRIFT: %d (rule, event) pairs where the real code differs from the transcription in the "
                 "specification although the documented value holds or is undecided, e.g. %s" % (drift, json.dumps(drift_samples[:2], ensure_ascii=False)))
        ctx.extra["drift_samples"] = drift_samples
    if os.environ.get("VERIF_C14_DUMP"):          # debugging aid: every record, before classification
        json.dump(recs, open(os.environ["VERIF_C14_DUMP"], "w"), ensure_ascii=False)
    return recs


STR_OPS = ("equal", "contains", "prefix", "suffix", "contains_any")


def select_concurrent(ctx, rules):
    """seeded selection for the concurrency family: mostly case-insensitive string operators (the nodes
    that would be tempted to keep per-node scratch state), but also every other kind of rule."""
    q = ctx.tier == "quick"
    seq = ctx._c14_seq
    ok = [r for r in rules if r.id in seq]
    ci_leaf = [r for r in ok if r.kind == "doif" and r.leaf and r.abs and r.abs["op"] in STR_OPS and r.abs.get("cs") == 0]
    ci_tree = [r for r in ok if r.kind == "doif" and not r.leaf and '"case_sensitive":false' in r.cfg]
    chosen = {r.id for r in ci_leaf} | {r.id for r in ci_tree}
    other = [r for r in ok if r.kind == "doif" and r.id not in chosen and r.part != "doc"]
    mf = [r for r in ok if r.kind == "mf" and r.part != "doc"]
    doc = [r for r in ok if r.part == "doc"]

    def take(pool, k):
        return pool if len(pool) <= k else ctx.rng.sample(pool, k)
    m = 1 if q else 4
    sel = take(ci_leaf, 260 * m) + take(ci_tree, 80 * m) + take(other, 80 * m) + take(mf, 80 * m) + doc
    return sorted(sel, key=lambda r: (r.set, r.id))


def run_concurrent(ctx, sets, abs_events, rules):
    """one shared checker / ActionPluginStaticInfo per rule, evaluated from several goroutines at once
    (in-package processors; then a real parallel pipeline): every concurrent decision must be the
    sequential one.  Detection of a shared-state bug is probabilistic, a correct tree cannot fail."""
    sel = select_concurrent(ctx, rules)
    seq = ctx._c14_seq
    c = ctx._c14
    cp = os.path.join(ctx.scratch, "c14_conc_rules.ndjson")
    with open(cp, "w") as f:
        for r in sel:
            f.write(json.dumps({"id": r.id, "kind": r.kind, "set": r.set, "cfg": r.cfg}, ensure_ascii=False) + "\n")
    budget_ms = int(os.environ.get("VERIF_C14_CONC_MS", "0")) or (500 if ctx.tier == "quick" else 6000)
    out = os.path.join(ctx.scratch, "c14_conc_out.ndjson")
    env = {"VERIF_C14_EVENTS": c["events"], "VERIF_C14_CONC_RULES": cp, "VERIF_C14_EXTRACT": c["extract"],
           "VERIF_OUT": out, "VERIF_C14_CONC_MS": budget_ms}
    rc, txt = ctx.run_bin(c["pl_bin"], "^TestVerifC14Conc$", env=env, timeout=1800)
    if rc != 0 or not os.path.exists(out):
        raise vlib.Infra("C14 concurrency harness failed rc=%s:\n%s" % (rc, txt[-3000:]))
    res = load_ndjson(out)
    meta = res.pop(-1, {})
    # the same selection on a real parallel pipeline (GOMAXPROCS*2 processors share every checker)
    e2e_out = os.path.join(ctx.scratch, "c14_conc_e2e_out.ndjson")
    env = {"VERIF_C14_EVENTS": c["events"], "VERIF_C14_E2E_RULES": cp, "VERIF_OUT": e2e_out, "VERIF_C14_E2E_PAR": "1"}
    rc, txt = ctx.run_bin(c["fd_bin"], "^TestVerifC14E2E$", env=env, timeout=2700)
    if rc != 0 or not os.path.exists(e2e_out):
        raise vlib.Infra("C14 parallel end-to-end harness failed rc=%s:\n%s" % (rc, txt[-3000:]))
    e2e = load_ndjson(e2e_out)
    recs = []
    decisions = 0
    e2e_decisions = 0
    by = {r.id: r for r in sel}
    for rid, r in by.items():
        o, e = res.get(rid), e2e.get(rid)
        if o is None or e is None:
            raise vlib.Infra("concurrency harness returned no result for rule %d" % rid)
        for x in (o, e):
            if x.get("err"):
                if x["err"].startswith("harness:"):
                    raise vlib.Infra("concurrency harness error for rule %s: %s" % (r.cfg, x["err"]))
                recs.append({"kind": "panic" if "panic" in x["err"] else "ctor_error", "rule_kind": r.kind, "cfg": r.cfg,
                             "part": r.part, "error": x["err"][:300], "family": "concurrent"})
        if o.get("err") or e.get("err"):
            continue
        evs = sets[r.set]
        for i in range(len(evs)):
            ref = seq[rid][i]
            t, f = o["t"][i], o["f"][i]
            decisions += t + f
            cnt, reps = e["cnt"][i], e["reps"]
            e2e_decisions += reps
            if ref is None:
                continue            # already reported by the sequential replay
            bad_pkg = (f if ref else t)
            bad_e2e = (reps - cnt) if ref else cnt
            if bad_pkg or bad_e2e:
                absev = abs_events[r.set][i] if abs_events.get(r.set) else None
                recs.append(dict(leaf_info(r, absev), kind="decision_depends_on_concurrent_events", rule_kind=r.kind,
                                 cfg=r.cfg, event=evs[i], part=r.part, want=r.exp[i], sequential_decision=ref,
                                 concurrent_processors={"apply": t, "skip": f},
                                 parallel_pipeline={"apply": cnt, "skip": reps - cnt}))
    ctx.traces_validated += decisions + e2e_decisions
    ctx.extra["concurrency_family"] = {
        "rules": len(sel), "goroutines": meta.get("goroutines"), "gomaxprocs": meta.get("gomaxprocs"),
        "budget_ms": budget_ms, "wall_ms": meta.get("wall_ms"),
        "concurrent_decisions_in_package": decisions, "concurrent_decisions_parallel_pipeline": e2e_decisions,
        "note": "one shared checker / ActionPluginStaticInfo per rule evaluated by several processors at once; every "
                "decision must equal the sequential one (which is compared with the specification). A correct tree "
                "cannot fail this family; a shared-state bug is detected only if the schedule hits it (probabilistic)."}
    return recs


def replay(ctx):
    """re-execute the (rule, event) pairs of a saved violation file against the current tree."""
    saved = json.load(open(ctx.replay))
    sets, abs_events, rules = {}, {}, []
    for k, v in enumerate(saved):
        if "cfg" not in v or "event" not in v or v.get("want") not in ("T", "F"):
            continue
        if '"value":"now"' in v["cfg"] and '"value_shift"' in v["cfg"]:      # event times relative to the `now` of the saved run: not replayable later
            continue
        r = Rule()
        r.id, r.kind, r.set, r.part, r.abs = len(rules), v.get("rule_kind", "doif"), "X:%d" % k, v.get("part", "replay"), None
        r.cfg, r.exp, r.model, r.dev, r.leaf = v["cfg"], [v["want"]], ["?"], [v.get("dev_class", "")], v.get("leaf", True)
        r.saved = {k: v[k] for k in ("op", "case_sensitive", "field_kind", "mode", "invert", "has_regexp") if k in v}
        sets[r.set] = [v["event"]]
        abs_events[r.set] = None
        rules.append(r)
    if not rules:
        raise vlib.Infra("nothing replayable in %s" % ctx.replay)
    fd, pl, e2e = run_harness(ctx, sets, rules, "_replay")
    recs = compare(ctx, sets, abs_events, rules, fd, pl, e2e)
    ctx.rule = "replay of %d saved (rule, event) pairs" % len(rules)
    for r in rules[:3]:
        ctx.sample({"cfg": r.cfg, "event": sets[r.set][0], "want": r.exp[0]})
    ctx.classify(recs)


def run(ctx):
    if ctx.replay:
        return replay(ctx)
    tier = "quick" if ctx.tier == "quick" else "thorough"
    d = ctx.tlc_expect_ok("DoIf", "DoIf_%s.cfg" % tier, timeout=4500, deadlock=False)
    m = ctx.tlc_expect_ok("MatchFields", "MatchFields_%s.cfg" % tier, timeout=2700, deadlock=False)
    if tier == "thorough":
        # residual configurations: all deviation switches off; the invariants must hold with no excuse
        ctx.tlc_expect_ok("DoIf", "DoIf_fixed.cfg", count=False, timeout=2700, deadlock=False)
    # the guard in front of the selector (processor.doActions): own busy flag, not busyActionsTotal
    ctx.tlc_expect_ok("ActionChain", "ActionChain_%s.cfg" % tier, timeout=900, deadlock=False)
    for cfgname, what in (("ActionChain_mutant.cfg", "~M_SelectorIndependentOfOtherActions"),
                          ("ActionChain_mutant_kinds.cfg", "~M_OnlyTimeoutExempt")):
        mu = ctx.tlc("ActionChain", cfgname, timeout=900, deadlock=False, name="ActionChain/" + cfgname[12:-4])
        if mu.ok or mu.violated != "SelectorDecides":
            raise vlib.Infra("spec mutant %s was not rejected by TLC: %s" % (what, mu.violated))
    for cfgname, what in (("DoIf_mutant_shift.cfg", "~M_ShiftOnce (value_shift applied twice)"),
                          ("DoIf_mutant_esclen.cfg", "~M_LenOfValue (byte_len_cmp of the escaped text)"),
                          ("DoIf_mutant_bytetable.cfg", "~M_ContainsAnyRunes (contains_any over a byte table)")):
        mu = ctx.tlc("DoIf", cfgname, timeout=900, deadlock=False, name="DoIf/" + cfgname[5:-4])
        if mu.ok or mu.violated != "ImplRefinesDecl":
            raise vlib.Infra("spec mutant %s was not rejected by TLC: %s" % (what, mu.violated))
    mu = ctx.tlc("MatchFields", "MatchFields_mutant_doif.cfg", timeout=600, deadlock=False, name="MatchFields/mutant_doif")
    if mu.ok or mu.violated != "DoIfDecidesAlone":
        raise vlib.Infra("spec mutant ~M_DoIfDecidesAlone (do_if as a pre-filter) was not rejected by TLC: %s" % mu.violated)
    # spec mutant: the repaired defect D11 switched back on must be rejected by TLC (ImplMatchesDecl)
    mu = ctx.tlc("MatchFields", "MatchFields_mutant_d11.cfg", timeout=1800, deadlock=False, name="MatchFields/mutant_d11")
    if mu.ok or mu.violated != "ImplMatchesDecl":
        raise vlib.Infra("spec mutant D11 (and-mode regexp condition asked for a value) was not rejected by TLC: %s" % mu.violated)
    sets, abs_events, rules = build_cases(ctx, d.printed, m.printed)
    ndoif = sum(1 for r in rules if r.kind == "doif")
    nmf = len(rules) - ndoif
    if ndoif < 5000 or nmf < 1500:
        raise vlib.Infra("TLC exported too few rules: %d do_if, %d match_fields" % (ndoif, nmf))
    fd, pl, e2e = run_harness(ctx, sets, rules)
    recs = compare(ctx, sets, abs_events, rules, fd, pl, e2e)
    recs += run_concurrent(ctx, sets, abs_events, rules)
    if time.time() - T_RENDER[0] > MAX_NOW_DRIFT_S:
        raise vlib.Infra("the replay took %.0fs; the `value: now` expectations (part N) assume at most %ds between "
                         "rendering the events and the last check" % (time.time() - T_RENDER[0], MAX_NOW_DRIFT_S))
    ctx.exhaustive = True
    ctx.rule = ("case = (rule, event): %d do_if rules (every field op x value lists x case flag; regex family; length / int / "
                "timestamp / type leaves with all six comparators; field paths; all and/or/not trees to the depth bound over a "
                "leaf pool) and %d match_fields rules (and / or / and_prefix / or_prefix x exact / list / regexp patterns x "
                "match_invert, 1-3 conditions, nested and dotted paths) + %d README vectors, each on every event of its part "
                "(absent / null / number / string incl. U+0130 / object / array / nested), enumerated by TLC and ALL replayed on "
                "the real constructors and doif.Checker.Check / processor.doActions / processor.isMatch in two event orders. "
                "Every rule is also replayed at the head of a chain whose last action holds a run (busy processor), "
                "in-package and on the running pipeline. Then a seeded selection of rules is evaluated concurrently (one shared checker, several processors / a parallel "
                "pipeline): every concurrent decision must equal the sequential one (detection probabilistic). "
                "evaluations = (rule, event) pairs; non-trivial = pairs whose value the documentation decides (T/F), the others "
                "(U) are only checked for order/path independence; traces = real decisions compared."
                % (ndoif - sum(1 for r in rules if r.part == "doc" and r.kind == "doif"),
                   nmf - sum(1 for r in rules if r.part == "doc" and r.kind == "mf"), len(DOC_VECTORS)))
    for r in (rules[0], rules[len(rules) // 2], rules[-1]):
        ctx.sample({"cfg": r.cfg, "events": sets[r.set][:4], "expected": r.exp[:4]})
    ctx.assumptions += [
        "regexp truth is not modelled: regexps come from the family {^a, A$, a.*A, .*, ^$} whose truth is a structural predicate; Go's regexp is trusted",
        "timestamps use format unixtime with integer seconds; 'now' is compared with times decades in the past and, with "
        "value_shift of whole hours, with times 30 / 90 / 150 minutes around the moment of the replay (events within 20 "
        "minutes of the documented threshold would not be judged; the replay must end within 8 minutes of rendering)",
        "events are handed over as compact JSON, so 'length in bytes' of a container is the length of its compact encoding",
        "case-insensitive results are demanded only where lower-casing U+0130 to 'i' and keeping it distinct agree",
        "where README / doc comments are silent (length and int ops on absent/null, non-string fields under match_fields, "
        "string ops other than equal on an absent field when they hold for the empty value, case_sensitive:false on regex) "
        "the oracle accepts both outcomes and only checks order/path independence",
    ]
    ctx.classify(recs)
    stale = [f["id"] for f in vlib.load_findings("C14") if f.get("status") == "known" and f["id"] not in ctx.known_hits]
    if stale:
        vlib.log("NOTE: known finding(s) not reproduced on this tree (repaired? then mark them fixed and drop the "
                 "deviation switch from the specification): %s" % ", ".join(stale))
        ctx.extra["known_findings_not_reproduced"] = stale
